/-
Helper lemmas for C06: pdfminer's `name2unicode` (model) against AGL section 2 (specification).
-/
import PdfVerif.Spec.SimpleFont

namespace PdfVerif.SimpleFont
open PdfVerif PdfVerif.SimpleFont.Spec PdfVerif.Gen.FontCode

/-- What the theorems need to know about a glyph list: no entry has an empty value. -/
def GlyphListOK (gl : GlyphList) : Prop := ∀ e ∈ gl, e.2 ≠ []

theorem glLookup_ne_nil {gl : GlyphList} (h : GlyphListOK gl) {c : Name} {t : Text}
    (hl : glLookup gl c = some t) : t ≠ [] := by
  unfold glLookup at hl
  cases hf : gl.find? (fun e => e.1 == c) with
  | none => simp [hf] at hl
  | some e =>
    simp [hf] at hl
    subst hl
    exact h e (List.mem_of_find?_eq_some hf)

/-! ### digits -/

theorem validUnicode_eq_isScalar (v : Nat) : validUnicode v = isScalar v := by
  unfold validUnicode invalidUnicode isScalar
  by_cases h1 : v ≤ 0xD7FF
  · have : ¬ (55295 < v) := by omega
    have h3 : ¬ (v > 0x10FFFF) := by omega
    simp [h1, this, h3]
  · by_cases h2 : 0xE000 ≤ v
    · by_cases h3 : v ≤ 0x10FFFF
      · have : ¬ (v < 57344) := by omega
        have h4 : ¬ (v > 0x10FFFF) := by omega
        simp [h1, h2, h3, this, h4]
      · have h4 : v > 0x10FFFF := by omega
        simp [h1, h2, h3, h4]
    · have a : 55295 < v := by omega
      have b : v < 57344 := by omega
      simp [h1, h2, a, b]

theorem hexDigitVal_of_upper {c : Char} (h : isUpperHex c = true) : hexDigitVal c = upperHexVal c := by
  unfold isUpperHex upperHexVal at h
  unfold hexDigitVal upperHexVal
  generalize c.toNat = n at h ⊢
  simp only at h ⊢
  by_cases h1 : 48 ≤ n ∧ n ≤ 57
  · simp [h1]
  · by_cases h2 : 65 ≤ n ∧ n ≤ 70
    · have h3 : ¬ (97 ≤ n ∧ n ≤ 102) := by omega
      simp [h1, h2, h3]
    · simp [h1, h2] at h

theorem isHexDigit_of_upper {c : Char} (h : isUpperHex c = true) : isHexDigit c = true := by
  unfold isHexDigit
  rw [hexDigitVal_of_upper h]
  exact h

theorem upper_of_hex_not_lower {c : Char} (h : isHexDigit c = true)
    (hl : (decide (97 ≤ c.toNat) && decide (c.toNat ≤ 102)) = false) : isUpperHex c = true := by
  unfold isHexDigit hexDigitVal at h
  unfold isUpperHex upperHexVal
  generalize c.toNat = n at h hl ⊢
  simp only at h ⊢
  by_cases h1 : 48 ≤ n ∧ n ≤ 57
  · simp [h1]
  · by_cases h2 : 65 ≤ n ∧ n ≤ 70
    · simp [h1, h2]
    · by_cases h3 : 97 ≤ n ∧ n ≤ 102
      · simp [h3.1, h3.2] at hl
      · simp [h1, h2, h3] at h

theorem not_lower_of_upper {c : Char} (h : isUpperHex c = true) :
    (decide (97 ≤ c.toNat) && decide (c.toNat ≤ 102)) = false := by
  unfold isUpperHex upperHexVal at h
  generalize c.toNat = n at h ⊢
  simp only at h
  by_cases h3 : 97 ≤ n ∧ n ≤ 102
  · have h1 : ¬ (48 ≤ n ∧ n ≤ 57) := by omega
    have h2 : ¬ (65 ≤ n ∧ n ≤ 70) := by omega
    simp [h1, h2] at h
  · by_cases h4 : 97 ≤ n
    · have : ¬ (n ≤ 102) := by omega
      simp [h4, this]
    · simp [h4]

theorem all_upper_of_hex_not_lower : ∀ (r : List Char), r.all isHexDigit = true → hasLowerHex r = false →
    r.all isUpperHex = true
  | [], _, _ => rfl
  | c :: cs, h, hl => by
    simp only [List.all_cons, Bool.and_eq_true] at h
    simp only [hasLowerHex, List.any_cons, Bool.or_eq_false_iff] at hl
    simp only [List.all_cons, Bool.and_eq_true]
    exact ⟨upper_of_hex_not_lower h.1 hl.1, all_upper_of_hex_not_lower cs h.2 (by simpa [hasLowerHex] using hl.2)⟩

theorem all_hex_of_upper : ∀ (r : List Char), r.all isUpperHex = true → r.all isHexDigit = true
  | [], _ => rfl
  | c :: cs, h => by
    simp only [List.all_cons, Bool.and_eq_true] at h ⊢
    exact ⟨isHexDigit_of_upper h.1, all_hex_of_upper cs h.2⟩

theorem no_lower_of_upper : ∀ (r : List Char), r.all isUpperHex = true → hasLowerHex r = false
  | [], _ => rfl
  | c :: cs, h => by
    simp only [List.all_cons, Bool.and_eq_true] at h
    have ih := no_lower_of_upper cs h.2
    simp only [hasLowerHex] at ih ⊢
    simp only [List.any_cons, Bool.or_eq_false_iff]
    exact ⟨not_lower_of_upper h.1, ih⟩

theorem hexValAux_eq_foldl : ∀ (r : List Char) (acc : Nat), r.all isUpperHex = true →
    hexValAux acc r = r.foldl (fun acc c => acc * 16 + (upperHexVal c).getD 0) acc
  | [], _, _ => rfl
  | c :: cs, acc, h => by
    simp only [List.all_cons, Bool.and_eq_true] at h
    simp only [hexValAux, List.foldl_cons, hexDigitVal_of_upper h.1]
    exact hexValAux_eq_foldl cs _ h.2

theorem hexVal_eq_upperHexNum (r : List Char) (h : r.all isUpperHex = true) : hexVal r = upperHexNum r :=
  hexValAux_eq_foldl r 0 h

theorem groups4_eq_fours : ∀ (r : List Char), r.all isUpperHex = true → groups4 r = (fours r).map upperHexNum
  | a :: b :: c :: d :: rest, h => by
    have h' := h
    simp only [List.all_cons, Bool.and_eq_true] at h'
    obtain ⟨ha, hb, hc, hd, hrest⟩ := h'
    have h4 : [a, b, c, d].all isUpperHex = true := by simp [ha, hb, hc, hd]
    simp only [groups4, fours, List.map_cons, hexVal_eq_upperHexNum _ h4, groups4_eq_fours rest hrest]
  | [], _ => rfl
  | [_], _ => rfl
  | [_, _], _ => rfl
  | [_, _, _], _ => rfl

/-! ### one component -/

/-- `none` for the empty string: "no Unicode value". -/
def textOpt (t : Text) : Option Text := if t.isEmpty then none else some t

theorem beq_char_comm (a b : Char) : (a == b) = (b == a) := by
  by_cases h : a = b
  · subst h; rfl
  · have h' : ¬ b = a := fun e => h e.symm
    rw [beq_eq_false_iff_ne.mpr h, beq_eq_false_iff_ne.mpr h']

theorem isPrefixOf_uni (c : Name) : UNI_PREFIX.isPrefixOf c = decide (c.take 3 = ['u', 'n', 'i']) := by
  unfold UNI_PREFIX
  match c with
  | [] => simp [List.isPrefixOf]
  | [a] => simp [List.isPrefixOf]
  | [a, b] => simp [List.isPrefixOf]
  | a :: b :: d :: r =>
    simp only [List.isPrefixOf, List.take, List.cons.injEq, and_true, beq_char_comm 'u', beq_char_comm 'n',
      beq_char_comm 'i']
    by_cases h1 : a = 'u' <;> by_cases h2 : b = 'n' <;> by_cases h3 : d = 'i' <;> simp [h1, h2, h3]

theorem isPrefixOf_u (c : Name) : U_PREFIX.isPrefixOf c = decide (c.take 1 = ['u']) := by
  unfold U_PREFIX
  match c with
  | [] => simp [List.isPrefixOf]
  | a :: r =>
    simp only [List.isPrefixOf, List.take, List.cons.injEq, and_true, beq_char_comm 'u']
    by_cases h1 : a = 'u' <;> simp [h1]

theorem isUpperHex_n : isUpperHex 'n' = false := by decide

theorem groups4_ne_nil : ∀ (r : List Char), r ≠ [] → r.length % 4 = 0 → groups4 r ≠ []
  | [], h, _ => absurd rfl h
  | [_], _, h => by simp at h
  | [_, _], _, h => by simp at h
  | [_, _, _], _, h => by simp at h
  | _ :: _ :: _ :: _ :: _, _, _ => by simp [groups4]

/-- On a component that is not one of pdfminer's lenient extensions, `name2unicode` agrees with AGL. -/
theorem comp_eq {gl : GlyphList} (hgl : GlyphListOK gl) (c : Name) (hl : lenientComp gl c = false) :
    comp gl c = textOpt (aglComp gl c) := by
  unfold comp aglComp
  cases hlook : glLookup gl c with
  | some t =>
    have := glLookup_ne_nil hgl hlook
    simp only [textOpt]
    cases t with
    | nil => exact absurd rfl this
    | cons a b => simp
  | none =>
    simp only [lenientComp, hlook, Option.isNone_none, Bool.true_and, Bool.or_eq_false_iff] at hl
    obtain ⟨hl1, hl2⟩ := hl
    have e3 : UNI_PREFIX.length = 3 := rfl
    have e1 : U_PREFIX.length = 1 := rfl
    simp only [isPrefixOf_uni, isPrefixOf_u, e3, e1, UNI_GROUP, U_MIN, U_MAX]
    by_cases huni : c.take 3 = ['u', 'n', 'i']
    · -- "uni" + digits
      have hl1' : (allHex (c.drop 3) && hasLowerHex (c.drop 3)) = false := by simpa [huni] using hl1
      have hcsplit : c = ['u', 'n', 'i'] ++ c.drop 3 := by
        conv => lhs; rw [← List.take_append_drop 3 c]
        rw [huni]
      have hu1 : c.take 1 = ['u'] := by rw [hcsplit]; rfl
      have hdrop1 : c.drop 1 = 'n' :: 'i' :: c.drop 3 := by
        conv => lhs; rw [hcsplit]
        rfl
      have huform : uForm c = none := by
        simp [uForm, hu1, hdrop1, isUpperHex_n]
      simp only [huni, decide_true, if_true, uniForm, huform]
      generalize c.drop 3 = r at hl1' ⊢
      by_cases hup : r.all isUpperHex = true
      · by_cases hlen : r.length % 4 = 0
        · by_cases hne : r = []
          · subst hne
            simp [allHex, fours, textOpt]
          · have hah : allHex r = true := by
              simp only [allHex, Bool.and_eq_true, Bool.not_eq_true', List.isEmpty_eq_false_iff]
              exact ⟨hne, all_hex_of_upper r hup⟩
            have hg := groups4_eq_fours r hup
            have hgn := groups4_ne_nil r hne hlen
            simp only [hah, hup, hlen, Bool.true_and, beq_self_eq_true, if_true, hg]
            have hall : ((fours r).map upperHexNum).all validUnicode = ((fours r).map upperHexNum).all isScalar := by
              congr 1; funext v; exact validUnicode_eq_isScalar v
            rw [hall]
            rw [hg] at hgn
            cases hs : ((fours r).map upperHexNum).all isScalar
            · simp [textOpt]
            · simp only [if_true, textOpt]
              cases hv : (fours r).map upperHexNum with
              | nil => exact absurd hv hgn
              | cons a b => simp
        · have : (r.length % 4 == 0) = false := by simp [hlen]
          simp [this, textOpt]
      · have hup' : r.all isUpperHex = false := by simpa using hup
        have hah : allHex r = false := by
          cases hx : allHex r with
          | false => rfl
          | true =>
            simp only [hx, Bool.true_and] at hl1'
            have h1 : r.all isHexDigit = true := by
              simp only [allHex, Bool.and_eq_true] at hx; exact hx.2
            rw [all_upper_of_hex_not_lower r h1 hl1'] at hup'
            exact absurd hup' (by simp)
        simp [hah, hup', textOpt]
    · by_cases hu : c.take 1 = ['u']
      · -- "u" + digits
        have hl2' : (allHex (c.drop 1) && hasLowerHex (c.drop 1)) = false := by simpa [hu] using hl2
        simp only [huni, decide_false, Bool.false_eq_true, if_false, hu, decide_true, if_true, uniForm, uForm]
        generalize c.drop 1 = r at hl2' ⊢
        by_cases hup : r.all isUpperHex = true
        · by_cases hlen : 4 ≤ r.length ∧ r.length ≤ 6
          · have hne : r ≠ [] := by
              intro h; subst h; simp at hlen
            have hah : allHex r = true := by
              simp only [allHex, Bool.and_eq_true, Bool.not_eq_true', List.isEmpty_eq_false_iff]
              exact ⟨hne, all_hex_of_upper r hup⟩
            simp only [hah, hup, hlen.1, hlen.2, decide_true, Bool.true_and, Bool.and_self, if_true,
              hexVal_eq_upperHexNum r hup, validUnicode_eq_isScalar]
            cases hs : isScalar (upperHexNum r) <;> simp [textOpt]
          · have : (decide (4 ≤ r.length) && decide (r.length ≤ 6)) = false := by
              by_cases h4 : 4 ≤ r.length
              · have : ¬ r.length ≤ 6 := fun h => hlen ⟨h4, h⟩
                simp [h4, this]
              · simp [h4]
            simp [Bool.and_assoc, this, textOpt]
        · have hup' : r.all isUpperHex = false := by simpa using hup
          have hah : allHex r = false := by
            cases hx : allHex r with
            | false => rfl
            | true =>
              simp only [hx, Bool.true_and] at hl2'
              have h1 : r.all isHexDigit = true := by
                simp only [allHex, Bool.and_eq_true] at hx; exact hx.2
              rw [all_upper_of_hex_not_lower r h1 hl2'] at hup'
              exact absurd hup' (by simp)
          simp [hah, hup', textOpt]
      · simp [huni, hu, uniForm, uForm, textOpt]

/-! ### whole names -/

theorem beforeDot_eq_dropSuffix : ∀ (n : Name), beforeDot n = dropSuffix n
  | [] => rfl
  | c :: cs => by
    unfold beforeDot dropSuffix
    simp only [List.takeWhile_cons, SUFFIX_SEP]
    by_cases h : c = '.'
    · subst h; simp
    · have h1 : (c != '.') = true := by simp [h]
      have h2 : (c == '.') = false := by simp [h]
      simp only [h1, h2, if_true, Bool.false_eq_true, if_false]
      have := beforeDot_eq_dropSuffix cs
      unfold beforeDot at this
      simp only [SUFFIX_SEP] at this
      rw [this]

theorem splitOn_ne_nil (sep : Char) : ∀ (s : List Char), splitOn sep s ≠ []
  | [] => by simp [splitOn]
  | c :: cs => by
    unfold splitOn
    by_cases h : (c == sep) = true
    · simp [h]
    · simp only [h, Bool.false_eq_true, if_false]
      cases hs : splitOn sep cs with
      | nil => simp
      | cons p ps => simp

theorem splitOn_single (sep : Char) : ∀ (s : List Char), (splitOn sep s).length ≤ 1 → splitOn sep s = [s]
  | [], _ => rfl
  | c :: cs, h => by
    unfold splitOn at h ⊢
    by_cases hc : (c == sep) = true
    · simp only [hc, if_true, List.length_cons] at h
      have := splitOn_ne_nil sep cs
      cases hs : splitOn sep cs with
      | nil => exact absurd hs this
      | cons p ps => rw [hs] at h; simp at h
    · simp only [hc, Bool.false_eq_true, if_false] at h ⊢
      cases hs : splitOn sep cs with
      | nil => exact absurd hs (splitOn_ne_nil sep cs)
      | cons p ps =>
        rw [hs] at h
        simp only [List.length_cons] at h
        have hps : ps = [] := by
          cases ps with
          | nil => rfl
          | cons _ _ => simp at h
        subst hps
        have ih := splitOn_single sep cs (by rw [hs]; simp)
        rw [hs] at ih
        simp only [List.cons.injEq, and_true] at ih
        subst ih
        rfl

theorem joinAll_eq {gl : GlyphList} : ∀ (cs : List Name),
    (∀ c ∈ cs, comp gl c = textOpt (aglComp gl c)) →
    joinAll gl cs = if cs.all (fun c => !(aglComp gl c).isEmpty) then some ((cs.map (aglComp gl)).flatten) else none
  | [], _ => by simp [joinAll]
  | c :: cs, h => by
    have hc := h c (List.mem_cons_self)
    have ih := joinAll_eq cs (fun x hx => h x (List.mem_cons_of_mem _ hx))
    simp only [joinAll, hc, ih, List.all_cons, List.map_cons, List.flatten_cons, textOpt]
    cases he : (aglComp gl c).isEmpty
    · cases ha : cs.all (fun c => !(aglComp gl c).isEmpty) <;> simp
    · simp

theorem flatten_all_empty : ∀ (ts : List Text), ts.all (fun t => t.isEmpty) = true → ts.flatten = []
  | [], _ => rfl
  | t :: ts, h => by
    simp only [List.all_cons, Bool.and_eq_true, List.isEmpty_iff] at h
    simp [h.1, flatten_all_empty ts h.2]

theorem flatten_ne_nil_of_all {gl : GlyphList} : ∀ (cs : List Name), cs ≠ [] →
    cs.all (fun c => !(aglComp gl c).isEmpty) = true → (cs.map (aglComp gl)).flatten ≠ []
  | [], h, _ => absurd rfl h
  | c :: cs, _, h => by
    simp only [List.all_cons, Bool.and_eq_true, Bool.not_eq_true', List.isEmpty_eq_false_iff] at h
    simp only [List.map_cons, List.flatten_cons]
    intro h'
    exact h.1 (List.append_eq_nil_iff.mp h').1

theorem textOpt_nil : textOpt [] = none := rfl

theorem textOpt_of_ne_nil {t : Text} (h : t ≠ []) : textOpt t = some t := by
  cases t with
  | nil => exact absurd rfl h
  | cons a b => rfl

theorem aglText_some (gl : GlyphList) (n : Name) :
    aglText gl (some n) = textOpt (((splitOn '_' (dropSuffix n)).map (aglComp gl)).flatten) := rfl

theorem name_core {gl : GlyphList} (cs : List Name) (base : Name) (hne : cs ≠ [])
    (hsingle : cs.length ≤ 1 → cs = [base])
    (hshape : (decide (cs.length ≤ 1) = true ∨ (cs.all fun c => List.isEmpty (aglComp gl c)) = true) ∨
          (cs.all fun c => !List.isEmpty (aglComp gl c)) = true)
    (hcomp : ∀ c ∈ cs, comp gl c = textOpt (aglComp gl c)) :
    (if cs.length > 1 then joinAll gl cs else comp gl base) = textOpt ((cs.map (aglComp gl)).flatten) := by
  by_cases hmany : cs.length > 1
  · simp only [hmany, if_true]
    rw [joinAll_eq _ hcomp]
    rcases hshape with (h1 | hempty) | hfull
    · simp at h1; omega
    · -- all components without value
      have hflat : (cs.map (aglComp gl)).flatten = [] := by
        apply flatten_all_empty
        simpa [List.all_map] using hempty
      have hnot : cs.all (fun c => !(aglComp gl c).isEmpty) = false := by
        cases cs with
        | nil => exact absurd rfl hne
        | cons c cs' =>
          simp only [List.all_cons, Bool.and_eq_true] at hempty
          simp [hempty.1]
      rw [hflat, textOpt_nil]
      simp [hnot]
    · -- all components with a value
      have hnz := flatten_ne_nil_of_all (gl := gl) cs hne hfull
      rw [textOpt_of_ne_nil hnz]
      simp [hfull]
  · have hs := hsingle (by omega)
    subst hs
    have hc := hcomp base (by simp)
    simp only [hmany, if_false, hc, List.map_cons, List.map_nil, List.flatten_cons, List.flatten_nil,
      List.append_nil]

/-- `name2unicode` (model of the repaired code) equals AGL section 2 on every judged name. -/
theorem name2unicode_eq_aglText {gl : GlyphList} (hgl : GlyphListOK gl) (nm : Option Name)
    (hj : judgedName gl nm = true) : name2unicode gl nm = aglText gl nm := by
  cases nm with
  | none => rfl
  | some n =>
    simp only [judgedName, components, Bool.and_eq_true, Bool.or_eq_true, Bool.not_eq_true'] at hj
    obtain ⟨hlen, hshape⟩ := hj
    have hcomp : ∀ c ∈ splitOn '_' (dropSuffix n), comp gl c = textOpt (aglComp gl c) := by
      intro c hc
      apply comp_eq hgl
      have := List.any_eq_false.mp hlen c hc
      simpa using this
    rw [aglText_some]
    simp only [name2unicode, beforeDot_eq_dropSuffix, COMPONENT_SEP]
    exact name_core _ _ (splitOn_ne_nil _ _) (splitOn_single _ _) hshape hcomp

/-! ### the grammar is inside the judged domain -/

theorem isHexDigit_n : isHexDigit 'n' = false := by decide

theorem drop1_of_uni {c : Name} (huni : c.take 3 = ['u', 'n', 'i']) : c.drop 1 = 'n' :: 'i' :: c.drop 3 := by
  have hcsplit : c = ['u', 'n', 'i'] ++ c.drop 3 := by
    conv => lhs; rw [← List.take_append_drop 3 c]
    rw [huni]
  conv => lhs; rw [hcsplit]
  rfl

theorem take1_of_uni {c : Name} (huni : c.take 3 = ['u', 'n', 'i']) : c.take 1 = ['u'] := by
  have hcsplit : c = ['u', 'n', 'i'] ++ c.drop 3 := by
    conv => lhs; rw [← List.take_append_drop 3 c]
    rw [huni]
  rw [hcsplit]; rfl

theorem uForm_none_of_uni {c : Name} (huni : c.take 3 = ['u', 'n', 'i']) : uForm c = none := by
  simp [uForm, take1_of_uni huni, drop1_of_uni huni, isUpperHex_n]

theorem uniForm_some {c : Name} {t : Text} (h : uniForm c = some t) :
    c.take 3 = ['u', 'n', 'i'] ∧ (c.drop 3).all isUpperHex = true := by
  unfold uniForm at h
  by_cases h3 : c.take 3 = ['u', 'n', 'i']
  · refine ⟨h3, ?_⟩
    simp only [h3, if_true] at h
    cases hu : (c.drop 3).all isUpperHex with
    | true => rfl
    | false => simp [hu] at h
  · simp [h3] at h

theorem uForm_some {c : Name} (h : (uForm c).isSome = true) :
    c.take 1 = ['u'] ∧ (c.drop 1).all isUpperHex = true := by
  unfold uForm at h
  by_cases h1 : c.take 1 = ['u']
  · refine ⟨h1, ?_⟩
    simp only [h1, if_true] at h
    cases hu : (c.drop 1).all isUpperHex with
    | true => rfl
    | false =>
      rw [hu] at h
      simp only [Bool.false_and, Bool.false_eq_true, if_false, Option.isSome_none] at h
  · simp [h1] at h

theorem wf_not_lenient {gl : GlyphList} {c : Name} (h : wellFormedComp gl c = true) : lenientComp gl c = false := by
  unfold lenientComp
  cases hl : glLookup gl c with
  | some t => simp
  | none =>
    simp only [wellFormedComp, hl, Option.isSome_none, Bool.false_or, Bool.or_eq_true] at h
    simp only [Option.isNone_none, Bool.true_and, Bool.or_eq_false_iff]
    rcases h with h | h
    · cases hu : uniForm c with
      | none => simp [hu] at h
      | some t =>
        obtain ⟨h3, hup⟩ := uniForm_some hu
        constructor
        · simp [no_lower_of_upper _ hup]
        · simp [drop1_of_uni h3, allHex, isHexDigit_n]
    · obtain ⟨h1, hup⟩ := uForm_some h
      constructor
      · by_cases h3 : c.take 3 = ['u', 'n', 'i']
        · rw [uForm_none_of_uni h3] at h; simp at h
        · simp [h3]
      · rw [no_lower_of_upper _ hup]
        simp only [Bool.and_false]

theorem wf_nonempty {gl : GlyphList} (hgl : GlyphListOK gl) {c : Name} (h : wellFormedComp gl c = true) :
    (aglComp gl c).isEmpty = false := by
  unfold aglComp
  cases hl : glLookup gl c with
  | some t =>
    have := glLookup_ne_nil hgl hl
    cases t with
    | nil => exact absurd rfl this
    | cons _ _ => rfl
  | none =>
    simp only [wellFormedComp, hl, Option.isSome_none, Bool.false_or, Bool.or_eq_true] at h
    rcases h with h | h
    · cases hu : uniForm c with
      | none => simp [hu] at h
      | some t => simpa [hu] using h
    · cases hu : uniForm c with
      | some t =>
        obtain ⟨h3, _⟩ := uniForm_some hu
        rw [uForm_none_of_uni h3] at h; simp at h
      | none =>
        cases hv : uForm c with
        | none => simp [hv] at h
        | some t =>
          simp only
          unfold uForm at hv
          by_cases h1 : c.take 1 = ['u']
          · simp only [h1, if_true] at hv
            split at hv
            · cases hv; rfl
            · cases hv
          · simp [h1] at hv

/-- Every glyph name of the property's grammar lies in the judged domain. -/
theorem wellFormed_judged {gl : GlyphList} (hgl : GlyphListOK gl) (n : Name) (h : wellFormedName gl n = true) :
    judgedName gl (some n) = true := by
  unfold wellFormedName at h
  simp only [judgedName, Bool.and_eq_true, Bool.or_eq_true, Bool.not_eq_true']
  constructor
  · apply List.any_eq_false.mpr
    intro c hc
    have := wf_not_lenient (List.all_eq_true.mp h c hc)
    simp [this]
  · right
    apply List.all_eq_true.mpr
    intro c hc
    simp [wf_nonempty hgl (List.all_eq_true.mp h c hc)]

/-! ### plain names (no period, no underscore): the names of the ENCODING rows -/

def plainName (n : Name) : Bool := n.all (fun c => c != '.' && c != '_')

theorem dropSuffix_plain : ∀ (n : Name), plainName n = true → dropSuffix n = n
  | [], _ => rfl
  | c :: cs, h => by
    simp only [plainName, List.all_cons, Bool.and_eq_true, bne_iff_ne, ne_eq] at h
    have hc : (c == '.') = false := by simpa using h.1.1
    simp only [dropSuffix, hc, Bool.false_eq_true, if_false]
    rw [dropSuffix_plain cs (by simpa [plainName] using h.2)]

theorem splitOn_plain : ∀ (n : Name), plainName n = true → splitOn '_' n = [n]
  | [], _ => rfl
  | c :: cs, h => by
    simp only [plainName, List.all_cons, Bool.and_eq_true, bne_iff_ne, ne_eq] at h
    have hc : (c == '_') = false := by simpa using h.1.2
    simp only [splitOn, hc, Bool.false_eq_true, if_false]
    rw [splitOn_plain cs (by simpa [plainName] using h.2)]

theorem name2unicode_plain (gl : GlyphList) (n : Name) (hp : plainName n = true) :
    name2unicode gl (some n) = comp gl n := by
  simp [name2unicode, beforeDot_eq_dropSuffix, COMPONENT_SEP, dropSuffix_plain n hp, splitOn_plain n hp]

theorem comp_of_lookup {gl : GlyphList} {n : Name} {t : Text} (h : glLookup gl n = some t) :
    comp gl n = some t := by
  simp [comp, h]

theorem glLookup_isSome_of_mem {gl : GlyphList} {e : Name × Text} (h : e ∈ gl) :
    (glLookup gl e.1).isSome = true := by
  unfold glLookup
  cases hf : gl.find? (fun x => x.1 == e.1) with
  | some x => rfl
  | none =>
    have := List.find?_eq_none.mp hf e h
    simp at this

/-- A plain name that is in the glyph list has a value and lies in the judged domain. -/
theorem plain_listed {gl : GlyphList} {n : Name} (hp : plainName n = true) (hl : (glLookup gl n).isSome = true) :
    (name2unicode gl (some n)).isSome = true ∧ judgedName gl (some n) = true := by
  obtain ⟨t, ht⟩ := Option.isSome_iff_exists.mp hl
  constructor
  · rw [name2unicode_plain gl n hp, comp_of_lookup ht]; rfl
  · simp [judgedName, components, dropSuffix_plain n hp, splitOn_plain n hp, lenientComp, ht]

end PdfVerif.SimpleFont
