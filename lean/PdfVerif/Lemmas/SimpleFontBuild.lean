/-
Helper lemmas for C06: the fields of the font that `build` constructs.
-/
import PdfVerif.Lemmas.SimpleFont

namespace PdfVerif.SimpleFont
open PdfVerif PdfVerif.SimpleFont.Spec

/-- The `EncodingDB` the class body builds from the tables. -/
def dbOf (T : Tables) : EncDB := EncDB.ofRows T.gl T.rows T.cols T.dflt

/-- The font pdfminer constructs from a font dictionary. -/
def modelFont (T : Tables) (fd : FontDict) : Font := build T.gl (dbOf T) T.fm fd

theorem baseName_mem {rows : List EncRow} {col : Nat} {code : Int} {n : Name}
    (h : baseName rows col code = some n) : ∃ r ∈ rows, r.1 = n := by
  unfold baseName at h
  split at h
  · rename_i r hf
    have hm := List.mem_of_find?_eq_some hf
    exact ⟨r, List.mem_reverse.mp hm, by simpa using h⟩
  · simp at h

/-! ### fields of the constructed font -/

theorem build_umap (T : Tables) (fd : FontDict) :
    (modelFont T fd).umap = fd.toUnicode.map buildUmap := by
  unfold modelFont build
  dsimp only
  cases fd.isType3
  · simp only [Bool.false_eq_true, if_false]
    cases getMetrics T.fm (fd.baseFont.getD "unknown") <;> rfl
  · rfl

theorem build_hscale (T : Tables) (fd : FontDict) : (modelFont T fd).hscale = widthScale fd := by
  unfold modelFont build widthScale
  dsimp only
  cases fd.isType3
  · simp only [Bool.false_eq_true, if_false]
    cases getMetrics T.fm (fd.baseFont.getD "unknown") <;> rfl
  · rfl

theorem descMissingWidth_eq (fd : FontDict) : descMissingWidth fd.desc = missingWidth fd := by
  unfold descMissingWidth missingWidth
  cases fd.desc <;> rfl

theorem build_defaultWidth (T : Tables) (fd : FontDict) : (modelFont T fd).defaultWidth = missingWidth fd := by
  rw [← descMissingWidth_eq]
  unfold modelFont build
  dsimp only
  cases fd.isType3
  · simp only [Bool.false_eq_true, if_false]
    cases getMetrics T.fm (fd.baseFont.getD "unknown") <;> rfl
  · rfl

theorem build_widthsInt (T : Tables) (fd : FontDict) :
    (modelFont T fd).widthsInt = enumWidths (fd.firstChar.getD 0) (fd.widths.getD []) := by
  unfold modelFont build
  dsimp only
  cases fd.isType3
  · simp only [Bool.false_eq_true, if_false]
    cases getMetrics T.fm (fd.baseFont.getD "unknown") <;> rfl
  · rfl

theorem build_widthsStr (T : Tables) (fd : FontDict) :
    (modelFont T fd).widthsStr =
      if fd.isType3 then [] else (getMetrics T.fm (fd.baseFont.getD "unknown")).getD [] := by
  unfold modelFont build
  dsimp only
  cases fd.isType3
  · simp only [Bool.false_eq_true, if_false]
    cases getMetrics T.fm (fd.baseFont.getD "unknown") <;> rfl
  · rfl

theorem build_cid2unicode (T : Tables) (fd : FontDict) :
    (modelFont T fd).cid2unicode =
      match usesBuiltin T fd with
      | some ff => builtinEncoding T.gl ff
      | none => specEncoding T.gl (dbOf T) fd.enc := by
  unfold modelFont build usesBuiltin isStd14
  dsimp only
  cases h3 : fd.isType3
  · cases hm : getMetrics T.fm (fd.baseFont.getD "unknown") with
    | some m => simp
    | none =>
      simp only [Bool.false_eq_true, if_false, Option.isSome_none, Bool.not_false, Bool.and_false,
        Bool.or_self]
      cases he : fd.enc <;> cases hd : fd.desc <;> simp
      rename_i d
      cases d.fontFile <;> simp
  · simp

end PdfVerif.SimpleFont
