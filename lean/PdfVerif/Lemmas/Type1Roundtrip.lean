/-
C06: a WRITER of clear-text Type 1 headers (`writeHeader`) with every spelling freedom of the tokeniser
theorems (C01): integer keys with sign / leading zeros, names with `#xx` escapes, white space of every
kind and comments between the tokens (nothing between key and `/name`), inert keywords (`dict`, `begin`,
`readonly`, `def`, `array`, `for`, `eexec` ...) and stray numbers between the `put` lines - and the lemmas
behind the round-trip theorem `Props.C06.t1_roundtrip`: reading the written bytes with the tokeniser
and `Type1FontHeaderParser`'s stack machine gives back exactly the written `put` pairs.

Executable (no Mathlib): the driver renders headers with `writeHeader` (op `t1write`) and the harness feeds
those bytes to the real `Type1FontHeaderParser`.
-/
import PdfVerif.Lemmas.Roundtrip
import PdfVerif.Model.Type1Header

namespace PdfVerif.SimpleFont
open PdfVerif PdfVerif.Lexer PdfVerif.StackParser PdfVerif.Gen.LexTables PdfVerif.Roundtrip PdfVerif.Gen.FontCode

def kwDup : Bytes := [100, 117, 112]

/-- One `dup <key> /<name> put` line as it is spelled: `g1 … g4` are what stands after `dup`, after the key,
after the name and after `put`. -/
structure PutSpelling where
  sign : Bytes
  digits : Bytes
  name : List NameItem
  g1 : List SepItem
  g2 : List SepItem
  g3 : List SepItem
  g4 : List SepItem

/-- What a header is made of. -/
inductive HeaderItem where
  | put (p : PutSpelling)
  | word (c : UInt8) (w : Bytes) (g : List SepItem)       -- a keyword other than `put`, `true`, `false`
  | num (sign digits : Bytes) (g : List SepItem)          -- a stray integer (stays on the operand stack)

def PutSpelling.render (p : PutSpelling) : Bytes :=
  (kwDup ++ renderSep p.g1) ++ (((p.sign ++ p.digits) ++ renderSep p.g2) ++
    ((47 :: renderName p.name ++ renderSep p.g3) ++ (kwPut ++ renderSep p.g4)))

def PutSpelling.key (p : PutSpelling) : Int := intValue p.sign p.digits

def PutSpelling.tokens (p : PutSpelling) : List Token :=
  [Token.kwd kwDup] ++ ([Token.int p.key] ++ ([Token.lit (nameValue p.name)] ++ [Token.kwd kwPut]))

def PutSpelling.ok (p : PutSpelling) : Prop :=
  signOK p.sign ∧ digitsOK p.digits ∧ (∀ i ∈ p.name, i.ok) ∧ sepOK p.g1 ∧ p.g1 ≠ [] ∧ sepOK p.g2 ∧
    sepOK p.g3 ∧ p.g3 ≠ [] ∧ sepOK p.g4 ∧ p.g4 ≠ []

def HeaderItem.render : HeaderItem → Bytes
  | .put p => p.render
  | .word c w g => (c :: w) ++ renderSep g
  | .num s d g => (s ++ d) ++ renderSep g

def HeaderItem.tokens : HeaderItem → List Token
  | .put p => p.tokens
  | .word c w _ => [Token.kwd (c :: w)]
  | .num s d _ => [Token.int (intValue s d)]

/-- The `(key, name bytes)` pair an item is meant to add. -/
def HeaderItem.results : HeaderItem → List (Int × Bytes)
  | .put p => [(p.key, nameValue p.name)]
  | _ => []

def HeaderItem.ok : HeaderItem → Prop
  | .put p => p.ok
  | .word c w g => isAlpha c = true ∧ (∀ x ∈ w, isAlpha x = true) ∧ (c :: w) ≠ kwTrue ∧ (c :: w) ≠ kwFalse ∧
      (c :: w) ≠ kwPut ∧ sepOK g ∧ g ≠ []
  | .num s d g => signOK s ∧ digitsOK d ∧ sepOK g ∧ g ≠ []

def renderItems : List HeaderItem → Bytes
  | [] => []
  | i :: r => i.render ++ renderItems r

def itemTokens : List HeaderItem → List Token
  | [] => []
  | i :: r => i.tokens ++ itemTokens r

def itemResults : List HeaderItem → List (Int × Bytes)
  | [] => []
  | i :: r => i.results ++ itemResults r

/-- The bytes of a header: leading white space / comments (the `%!PS-AdobeFont` line), then the items. -/
def writeHeader (pad : List SepItem) (items : List HeaderItem) : Bytes := renderSep pad ++ renderItems items

/-! ### tokeniser side -/

theorem isEmpty_false' {α} {l : List α} (h : l ≠ []) : l.isEmpty = false := by
  cases l with
  | nil => exact absurd rfl h
  | cons a b => rfl

theorem unit_word (c : UInt8) (w : Bytes) (hc : isAlpha c = true) (hw : ∀ x ∈ w, isAlpha x = true)
    (ht : (c :: w) ≠ kwTrue) (hf : (c :: w) ≠ kwFalse) : LexUnit (c :: w) [Token.kwd (c :: w)] true := by
  have h := unit_keyword c w hc hw
  have e1 : ((c :: w) == kwTrue) = false := by simpa using ht
  have e2 : ((c :: w) == kwFalse) = false := by simpa using hf
  simpa [e1, e2] using h

theorem unit_dup : LexUnit kwDup [Token.kwd kwDup] true :=
  unit_word 100 [117, 112] (by decide) (by intro x hx; simp at hx; rcases hx with rfl | rfl <;> decide)
    (by decide) (by decide)

theorem unit_put : LexUnit kwPut [Token.kwd kwPut] true :=
  unit_word 112 [117, 116] (by decide) (by intro x hx; simp at hx; rcases hx with rfl | rfl <;> decide)
    (by decide) (by decide)

theorem lex_put (p : PutSpelling) (h : p.ok) : LexUnit p.render p.tokens false := by
  obtain ⟨hs, hd, hn, h1, n1, h2, h3, n3, h4, n4⟩ := h
  have uA := tok_sep unit_dup p.g1 h1
  rw [isEmpty_false' n1] at uA
  have uB := tok_sep (unit_int p.sign p.digits hs hd.1 hd.2.1 hd.2.2) p.g2 h2
  have uC := tok_sep (unit_name p.name hn) p.g3 h3
  rw [isEmpty_false' n3] at uC
  have uD := tok_sep unit_put p.g4 h4
  rw [isEmpty_false' n4] at uD
  have uCD := LexUnit.append_free uC uD
  have uBCD := LexUnit.append uB uCD (fun _ d _ => by simp [isDW])
  exact LexUnit.append_free uA uBCD

theorem lex_item (i : HeaderItem) (h : i.ok) : LexUnit i.render i.tokens false := by
  cases i with
  | put p => exact lex_put p h
  | word c w g =>
    obtain ⟨hc, hw, ht, hf, _, hg, ng⟩ := h
    have u := tok_sep (unit_word c w hc hw ht hf) g hg
    rw [isEmpty_false' ng] at u
    exact u
  | num s d g =>
    obtain ⟨hs, hd, hg, ng⟩ := h
    have u := tok_sep (unit_int s d hs hd.1 hd.2.1 hd.2.2) g hg
    rw [isEmpty_false' ng] at u
    exact u

theorem lex_items : ∀ (items : List HeaderItem), (∀ i ∈ items, i.ok) →
    LexUnit (renderItems items) (itemTokens items) false
  | [], _ => LexUnit.nil
  | i :: r, h =>
    LexUnit.append_free (lex_item i (h i (by simp))) (lex_items r (fun j hj => h j (by simp [hj])))

/-- The tokens of a written header are exactly the tokens of its items. -/
theorem header_tokens (pad : List SepItem) (hpad : sepOK pad) (items : List HeaderItem)
    (h : ∀ i ∈ items, i.ok) :
    (specLex (writeHeader pad items)).map (·.2) = itemTokens items := by
  have hu := LexUnit.append_free (LexUnit.sep pad hpad) (lex_items items h)
  obtain ⟨st', hm, e⟩ := hu St.init 10 [] 0 (Or.inl rfl) (fun hh => by cases hh)
  have hnl : (foldBytes st' [10] (0 + (renderSep pad ++ renderItems items).length)).2 = [] := by
    have hsp : isNONSPC 10 = false := by decide +kernel
    rcases hm with hm | hw
    · simp [foldBytes, stepByte, stepN, searchClass, hsp, hm]
    · rw [fold_from_wclose st' 10 [] _ hw (by decide)]
      simp [foldBytes, stepByte, stepN, searchClass, hsp]
  unfold specLex writeHeader
  simp only [tokVals] at e
  rw [e, hnl]
  simp

/-! ### stack-machine side -/

theorem feed_ok (st : T1State) (he : st.error = none) (tok : Token) :
    t1Feed st tok = (match tok with
      | .int v => t1Push st (.int v)
      | .real t => t1Push st (.real t)
      | .bool b => t1Push st (.bool b)
      | .str s => t1Push st (.str s)
      | .lit n => t1Push st (.lit n)
      | .err k => { st with error := some k }
      | .kwd name => t1Feed st (.kwd name)) := by
  cases tok <;> simp [t1Feed, he]

theorem feed_word (st : T1State) (he : st.error = none) (c : UInt8) (w : Bytes) (hc : isAlpha c = true)
    (hp : (c :: w) ≠ kwPut) : t1Feed st (.kwd (c :: w)) = st := by
  have hb : ∀ (l : Bytes), l.head? ≠ some c → ((c :: w) == l) = false := by
    intro l hl
    cases l with
    | nil => rfl
    | cons a b =>
      have : c ≠ a := by intro e; subst e; simp at hl
      simp [this]
  have e1 := hb [91] (by intro e; simp at e; subst e; revert hc; decide)
  have e2 := hb [93] (by intro e; simp at e; subst e; revert hc; decide)
  have e3 := hb [60, 60] (by intro e; simp at e; subst e; revert hc; decide)
  have e4 := hb [62, 62] (by intro e; simp at e; subst e; revert hc; decide)
  have e5 := hb [123] (by intro e; simp at e; subst e; revert hc; decide)
  have e6 := hb [125] (by intro e; simp at e; subst e; revert hc; decide)
  have e7 : ((c :: w) == kwPut) = false := by simpa using hp
  simp only [t1Feed, he, Option.isSome_none, Bool.false_eq_true, if_false, e1, e2, e3, e4, e5, e6, t1Keyword, e7]

theorem feed_put_line (st : T1State) (he : st.error = none) (k : Int) (nm : Bytes) :
    [Token.kwd kwDup, Token.int k, Token.lit nm, Token.kwd kwPut].foldl t1Feed st =
      { st with results := st.results ++ [(k, nm)] } := by
  have h1 : t1Feed st (.kwd kwDup) = st := feed_word st he 100 [117, 112] (by decide) (by decide)
  simp only [List.foldl_cons, List.foldl_nil, h1]
  have h2 : t1Feed st (.int k) = t1Push st (.int k) := by simp [t1Feed, he]
  have h3 : t1Feed (t1Push st (.int k)) (.lit nm) = t1Push (t1Push st (.int k)) (.lit nm) := by
    simp [t1Feed, t1Push, he]
  rw [h2, h3]
  have hk : (kwPut == ([91] : Bytes)) = false ∧ (kwPut == ([93] : Bytes)) = false ∧
      (kwPut == ([60, 60] : Bytes)) = false ∧ (kwPut == ([62, 62] : Bytes)) = false ∧
      (kwPut == ([123] : Bytes)) = false ∧ (kwPut == ([125] : Bytes)) = false := by decide
  obtain ⟨k1, k2, k3, k4, k5, k6⟩ := hk
  simp only [t1Feed, t1Push, he, Option.isSome_none, Bool.false_eq_true, if_false, k1, k2, k3, k4, k5, k6,
    t1Keyword, beq_self_eq_true, if_true, List.length_append, List.length_cons, List.length_nil, T1_PUT_ARITY]
  have hn : ¬ (st.curstack.length + (0 + 1) + (0 + 1) < 2) := by omega
  simp only [hn, if_false]
  have hd : (st.curstack ++ [SObj.int k] ++ [SObj.lit nm]).drop (st.curstack.length + (0 + 1) + (0 + 1) - 2) =
      [SObj.int k, SObj.lit nm] := by
    have : st.curstack.length + (0 + 1) + (0 + 1) - 2 = st.curstack.length := by omega
    rw [this, List.append_assoc, List.drop_left]
    rfl
  have ht : (st.curstack ++ [SObj.int k] ++ [SObj.lit nm]).take (st.curstack.length + (0 + 1) + (0 + 1) - 2) =
      st.curstack := by
    have : st.curstack.length + (0 + 1) + (0 + 1) - 2 = st.curstack.length := by omega
    rw [this, List.append_assoc, List.take_left]
  rw [hd]
  simp only [ht]

/-- Feeding the tokens of the items: no exception, and the results grow by exactly the items' pairs
(whatever is on the operand stack, in whatever array / procedure context). -/
theorem feed_items : ∀ (items : List HeaderItem) (st : T1State), st.error = none → (∀ i ∈ items, i.ok) →
    ((itemTokens items).foldl t1Feed st).error = none ∧
    ((itemTokens items).foldl t1Feed st).results = st.results ++ itemResults items
  | [], st, he, _ => by simp [itemTokens, itemResults, he]
  | i :: r, st, he, h => by
    have hi := h i (by simp)
    have hr : ∀ j ∈ r, j.ok := fun j hj => h j (by simp [hj])
    simp only [itemTokens, itemResults, List.foldl_append]
    cases i with
    | put p =>
      have e : p.tokens = [Token.kwd kwDup, Token.int p.key, Token.lit (nameValue p.name), Token.kwd kwPut] := rfl
      simp only [HeaderItem.tokens, HeaderItem.results, e, feed_put_line st he]
      obtain ⟨a, b⟩ := feed_items r { st with results := st.results ++ [(p.key, nameValue p.name)] } he hr
      exact ⟨a, by rw [b]; simp⟩
    | word c w g =>
      obtain ⟨hc, _, _, _, hp, _, _⟩ := hi
      simp only [HeaderItem.tokens, HeaderItem.results, List.foldl_cons, List.foldl_nil,
        feed_word st he c w hc hp, List.nil_append]
      exact feed_items r st he hr
    | num s d g =>
      have e : t1Feed st (.int (intValue s d)) = t1Push st (.int (intValue s d)) := by simp [t1Feed, he]
      simp only [HeaderItem.tokens, HeaderItem.results, List.foldl_cons, List.foldl_nil, e, List.nil_append]
      exact feed_items r (t1Push st (.int (intValue s d))) he hr

end PdfVerif.SimpleFont
