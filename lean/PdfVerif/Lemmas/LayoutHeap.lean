/-
The heap of `group_textboxes` (C08, round 6).

The code keeps tuples `(skip_isany, d, seq1, seq2, obj1, obj2)` in a `heapq`; the model keeps a list and pops its
least element under `HEntry.le`.  Here: `HEntry.le` is a total, transitive, antisymmetric order, `popMin`
returns an element that is below every entry of the heap, and for an antisymmetric order that element is unique -
so the result of `heapq.heappop` does not depend on how `heapq` lays the entries out.
-/
import PdfVerif.Lemmas.LayoutGroups

set_option linter.unusedSimpArgs false

namespace PdfVerif.Layout
open PdfVerif PdfVerif.Gen.Layout

theorem HEntry.le_iff (a b : HEntry) :
    a.le b = true ↔ (a.skip = false ∧ b.skip = true) ∨ (a.skip = b.skip ∧ (a.d < b.d ∨ (a.d = b.d ∧
      (a.id1 < b.id1 ∨ (a.id1 = b.id1 ∧ a.id2 ≤ b.id2))))) := by
  unfold HEntry.le
  cases ha : a.skip <;> cases hb : b.skip <;> simp only [bne_self_eq_false, Bool.false_eq_true, if_false,
    Bool.not_false, Bool.not_true, bne_iff_ne, ne_eq, Bool.true_eq_false, not_false_eq_true, if_true,
    Bool.false_ne_true, not_true_eq_false, and_self, true_or, false_and, false_or, true_and, and_false, or_false,
    reduceCtorEq]
  all_goals
    by_cases h1 : a.d = b.d
    · by_cases h2 : a.id1 = b.id1
      · simp only [h1, h2, not_true_eq_false, if_false, decide_eq_true_eq, lt_self_iff_false, false_or, true_and]
      · simp only [h1, h2, not_true_eq_false, not_false_eq_true, if_false, if_true, decide_eq_true_eq,
          lt_self_iff_false, false_or, true_and, false_and, or_false]
    · simp only [h1, not_false_eq_true, if_true, decide_eq_true_eq, false_and, or_false]

theorem HEntry.le_total (a b : HEntry) : a.le b = true ∨ b.le a = true := by
  simp only [HEntry.le_iff]
  cases ha : a.skip <;> cases hb : b.skip <;> simp only [true_and, false_and, and_true, and_false, false_or, or_false,
    Bool.false_eq_true, Bool.true_eq_false, true_or, or_true, reduceCtorEq]
  all_goals
    rcases lt_trichotomy a.d b.d with h | h | h
    · exact Or.inl (Or.inl h)
    · rcases Nat.lt_trichotomy a.id1 b.id1 with h2 | h2 | h2
      · exact Or.inl (Or.inr ⟨h, Or.inl h2⟩)
      · rcases Nat.le_total a.id2 b.id2 with h3 | h3
        · exact Or.inl (Or.inr ⟨h, Or.inr ⟨h2, h3⟩⟩)
        · exact Or.inr (Or.inr ⟨h.symm, Or.inr ⟨h2.symm, h3⟩⟩)
      · exact Or.inr (Or.inr ⟨h.symm, Or.inl h2⟩)
    · exact Or.inr (Or.inl h)

theorem HEntry.le_trans (a b c : HEntry) (h1 : a.le b = true) (h2 : b.le c = true) : a.le c = true := by
  rw [HEntry.le_iff] at *
  rcases h1 with ⟨h1, h1'⟩ | ⟨e1, h1⟩ <;> rcases h2 with ⟨h2, h2'⟩ | ⟨e2, h2⟩
  · rw [h1'] at h2; exact absurd h2 (by decide)
  · exact Or.inl ⟨h1, by rw [← e2]; exact h1'⟩
  · exact Or.inl ⟨by rw [e1]; exact h2, h2'⟩
  · refine Or.inr ⟨e1.trans e2, ?_⟩
    rcases h1 with h1 | ⟨f1, h1⟩ <;> rcases h2 with h2 | ⟨f2, h2⟩
    · exact Or.inl (by linarith)
    · exact Or.inl (by linarith)
    · exact Or.inl (by linarith)
    · refine Or.inr ⟨by linarith, ?_⟩
      omega

theorem HEntry.le_antisymm (a b : HEntry) (h1 : a.le b = true) (h2 : b.le a = true) : a = b := by
  rw [HEntry.le_iff] at *
  have key : a.skip = b.skip ∧ a.d = b.d ∧ a.id1 = b.id1 ∧ a.id2 = b.id2 := by
    rcases h1 with ⟨h1, h1'⟩ | ⟨e1, h1⟩ <;> rcases h2 with ⟨h2, h2'⟩ | ⟨e2, h2⟩
    · rw [h1'] at h2; exact absurd h2 (by decide)
    · rw [e2, h1] at h1'; exact absurd h1' (by decide)
    · rw [e1, h2] at h2'; exact absurd h2' (by decide)
    · refine ⟨e1, ?_⟩
      rcases h1 with h1 | ⟨f1, h1⟩ <;> rcases h2 with h2 | ⟨f2, h2⟩
      · exact absurd h1 (by linarith)
      · rw [f2] at h1; exact absurd h1 (lt_irrefl _)
      · rw [f1] at h2; exact absurd h2 (lt_irrefl _)
      · exact ⟨f1, by omega, by omega⟩
  cases a; cases b; simp only [HEntry.mk.injEq]; exact key

/-- `popMin` returns an entry that is below every entry of the heap (for a total, transitive comparison). -/
theorem popMin_least {le : Cmp} (htot : ∀ a b, le a b = true ∨ le b a = true)
    (htr : ∀ a b c, le a b = true → le b c = true → le a c = true) :
    ∀ (h : List HEntry) (m : HEntry) (r : List HEntry), popMin le h = some (m, r) → ∀ e ∈ h, le m e = true
  | [], m, r, hp => by simp [popMin] at hp
  | x :: rest, m, r, hp => by
    simp only [popMin] at hp
    cases hq : popMin le rest with
    | none =>
      rw [hq] at hp
      simp only [Option.some.injEq, Prod.mk.injEq] at hp
      have hnil := popMin_none.mp hq
      intro e he
      rw [hnil] at he
      simp only [List.mem_singleton] at he
      rw [he, ← hp.1]
      rcases htot x x with h | h <;> exact h
    | some q =>
      obtain ⟨m', r'⟩ := q
      rw [hq] at hp
      have ih := popMin_least htot htr rest m' r' hq
      simp only at hp
      by_cases hxm : le x m' = true
      · rw [if_pos hxm] at hp
        simp only [Option.some.injEq, Prod.mk.injEq] at hp
        intro e he
        rw [← hp.1]
        rcases List.mem_cons.mp he with rfl | he
        · rcases htot e e with h | h <;> exact h
        · exact htr _ _ _ hxm (ih e he)
      · rw [if_neg hxm] at hp
        simp only [Option.some.injEq, Prod.mk.injEq] at hp
        intro e he
        rw [← hp.1]
        rcases List.mem_cons.mp he with rfl | he
        · rcases htot e m' with h | h
          · exact absurd h hxm
          · exact h
        · exact ih e he

/-- The least entry is a member of the heap. -/
theorem popMin_mem {le : Cmp} {h : List HEntry} {m : HEntry} {r : List HEntry} (hp : popMin le h = some (m, r)) :
    m ∈ h := (popMin_perm h m r hp).mem_iff.mpr List.mem_cons_self

/-- For an antisymmetric comparison the least entry is unique: ANY member of the heap that is below all entries
(what `heapq.heappop` returns, whatever the internal layout of the heap) is the entry `popMin` returns. -/
theorem popMin_unique {le : Cmp} (htot : ∀ a b, le a b = true ∨ le b a = true)
    (htr : ∀ a b c, le a b = true → le b c = true → le a c = true)
    (hanti : ∀ a b, le a b = true → le b a = true → a = b)
    {h : List HEntry} {m : HEntry} {r : List HEntry} (hp : popMin le h = some (m, r))
    (m' : HEntry) (hm' : m' ∈ h) (hleast : ∀ e ∈ h, le m' e = true) : m' = m :=
  hanti _ _ (hleast m (popMin_mem hp)) (popMin_least htot htr h m r hp m' hm')

end PdfVerif.Layout
