/-
C02 — `SecLists` derived for a classic table from the subsections written: the loaded table answers
like the writer's entry list as soon as both list the same `(number, entry)` pairs (any order, any
grouping into subsections), every number once.
-/
import PdfVerif.Lemmas.XrefTable
import PdfVerif.Lemmas.XrefHist
import PdfVerif.Lemmas.XrefChain

namespace PdfVerif.Xref

open PdfVerif.Gen.Xref

/-- last matching pair wins (how `specSubs` / the dict of `PDFXRef.load` read a list of lines) -/
def lastOf (l : List (Int × Entry)) (n : Int) (acc : Option Entry) : Option Entry :=
  l.foldl (fun a p => if p.1 == n then some p.2 else a) acc

theorem specEntries_flat (es : List TEntry) (objid n : Int) (acc : Option Entry) :
    specEntries objid es n acc = lastOf (flatEntries objid es) n acc := by
  induction es generalizing objid acc with
  | nil => rfl
  | cons e es ih =>
    simp only [specEntries, flatEntries]
    cases hi : e.inuse with
    | false => simp only [Bool.false_and, Bool.false_eq_true, ↓reduceIte]; exact ih _ _
    | true =>
      simp only [Bool.true_and, ↓reduceIte]
      rw [ih]
      simp [lastOf]

theorem specSubs_flat (subs : List Sub) (n : Int) (acc : Option Entry) :
    specSubs subs n acc = lastOf (flatSubs subs) n acc := by
  induction subs generalizing acc with
  | nil => rfl
  | cons sb rest ih =>
    simp only [specSubs, flatSubs]
    rw [ih, specEntries_flat]
    simp [lastOf, List.foldl_append]

def NodupKeys : List (Int × Entry) → Prop
  | [] => True
  | p :: r => (∀ q ∈ r, q.1 ≠ p.1) ∧ NodupKeys r

theorem nodupKeysB_sound (l : List (Int × Entry)) (h : nodupKeysB l = true) : NodupKeys l := by
  induction l with
  | nil => trivial
  | cons p r ih =>
    simp only [nodupKeysB, Bool.and_eq_true, List.all_eq_true, bne_iff_ne, ne_eq] at h
    exact ⟨h.1, ih h.2⟩

theorem lastOf_nokey (l : List (Int × Entry)) (n : Int) (acc : Option Entry) (h : ∀ q ∈ l, q.1 ≠ n) :
    lastOf l n acc = acc := by
  induction l generalizing acc with
  | nil => rfl
  | cons p r ih =>
    have hp : (p.1 == n) = false := by simpa using h p List.mem_cons_self
    simp only [lastOf, List.foldl_cons, hp, Bool.false_eq_true, ↓reduceIte]
    exact ih acc (fun q hq => h q (List.mem_cons_of_mem _ hq))

theorem lastOf_nodup (l : List (Int × Entry)) (n : Int) (h : NodupKeys l) : lastOf l n none = lookupOff l n := by
  induction l with
  | nil => rfl
  | cons p r ih =>
    obtain ⟨k, e⟩ := p
    by_cases hk : (k == n) = true
    · have hkn : k = n := by simpa using hk
      simp only [lastOf, List.foldl_cons, hk, ↓reduceIte, lookupOff]
      exact lastOf_nokey r n (some e) (fun q hq => by rw [← hkn]; exact h.1 q hq)
    · have hk' : (k == n) = false := by simpa using hk
      simp only [lastOf, List.foldl_cons, hk', Bool.false_eq_true, ↓reduceIte, lookupOff]
      exact ih h.2

theorem lookupOff_mem (l : List (Int × Entry)) (n : Int) (e : Entry) (h : NodupKeys l) :
    lookupOff l n = some e ↔ (n, e) ∈ l := by
  induction l with
  | nil => simp [lookupOff]
  | cons p r ih =>
    obtain ⟨k, e'⟩ := p
    by_cases hk : (k == n) = true
    · have hkn : k = n := by simpa using hk
      simp only [lookupOff, hk, ↓reduceIte, Option.some.injEq, List.mem_cons, Prod.mk.injEq]
      constructor
      · intro he; exact Or.inl ⟨hkn.symm, he.symm⟩
      · intro hm
        rcases hm with ⟨_, he⟩ | hm
        · exact he.symm
        · exact absurd rfl (hkn ▸ h.1 (n, e) hm)
    · have hk' : (k == n) = false := by simpa using hk
      have hne : ¬ n = k := by intro hc; exact hk (by simp [hc])
      simp only [lookupOff, hk', Bool.false_eq_true, ↓reduceIte, List.mem_cons, Prod.mk.injEq, hne, false_and,
        false_or]
      exact ih h.2

theorem lookupOff_same (a b : List (Int × Entry)) (n : Int) (ha : NodupKeys a) (hb : NodupKeys b)
    (hab : ∀ p, p ∈ a ↔ p ∈ b) : lookupOff a n = lookupOff b n := by
  cases h1 : lookupOff a n with
  | some e =>
    exact ((lookupOff_mem b n e hb).mpr ((hab _).mp ((lookupOff_mem a n e ha).mp h1))).symm
  | none =>
    cases h2 : lookupOff b n with
    | none => rfl
    | some e =>
      have := (lookupOff_mem a n e ha).mpr ((hab _).mpr ((lookupOff_mem b n e hb).mp h2))
      rw [h1] at this
      exact absurd this (by simp)

theorem lookupOff_entsInt (ents : List (Nat × Entry)) (n : Nat) : lookupOff (entsInt ents) (n : Int) = lookupNat ents n := by
  induction ents with
  | nil => rfl
  | cons p r ih =>
    obtain ⟨k, e⟩ := p
    have : (((k : Int) == (n : Int))) = (k == n) := by
      by_cases h : k = n
      · simp [h]
      · have h' : ¬ ((k : Int) = (n : Int)) := by omega
        have e1 : ((k : Int) == (n : Int)) = false := by simpa using h'
        have e2 : (k == n) = false := by simpa using h
        rw [e1, e2]
    simp only [entsInt, List.map_cons, lookupOff, lookupNat, this]
    split
    · rfl
    · exact ih

theorem sameAssocB_sound (a b : List (Int × Entry)) (h : sameAssocB a b = true) :
    NodupKeys a ∧ NodupKeys b ∧ ∀ p, p ∈ a ↔ p ∈ b := by
  simp only [sameAssocB, Bool.and_eq_true, List.all_eq_true, List.contains_eq_mem, decide_eq_true_eq] at h
  exact ⟨nodupKeysB_sound a h.1.2, nodupKeysB_sound b h.2, fun p => ⟨h.1.1.1 p, h.1.1.2 p⟩⟩

/-- The table loaded from ANY subsections that list the same pairs as the entry list answers like it. -/
theorem secLists_table (subs : List Sub) (ents : List (Nat × Entry))
    (h : sameAssocB (flatSubs subs) (entsInt ents) = true) : SecLists (.table (insSubs subs [])) ents := by
  obtain ⟨ha, hb, hab⟩ := sameAssocB_sound _ _ h
  intro n
  have h1 : (Section.table (insSubs subs [])).getPos n = specSubs subs (n : Int) none := by
    simp [Section.getPos, lookup_insSubs, lookupOff]
  rw [h1, specSubs_flat, lastOf_nodup _ _ ha, lookupOff_same _ _ _ ha hb hab, lookupOff_entsInt]

/-! ### Cross-reference streams -/

theorem lookupNat_append' {α : Type} (a b : List (Nat × α)) (n : Nat) :
    lookupNat (a ++ b) n = match lookupNat a n with | some v => some v | none => lookupNat b n := by
  induction a with
  | nil => rfl
  | cons x a ih =>
    obtain ⟨k, v⟩ := x
    by_cases hk : (k == n) = true
    · simp [lookupNat, hk]
    · have hk' : (k == n) = false := by simpa using hk
      simp only [List.cons_append, lookupNat, hk', Bool.false_eq_true, ↓reduceIte]
      exact ih

theorem lookup_rangeRows (s c : Nat) (rows : List Row) (n : Nat) (h : c ≤ rows.length) :
    lookupNat (rangeRows s c rows) n = if s ≤ n ∧ n < s + c then (rows[n - s]?).map specRowEntry else none := by
  induction c generalizing s rows with
  | zero =>
    have : ¬ (s ≤ n ∧ n < s + 0) := by omega
    rw [if_neg this]
    rfl
  | succ c ih =>
    cases rows with
    | nil => simp at h
    | cons r rows =>
      simp only [rangeRows, lookupNat]
      by_cases hk : s = n
      · subst hk
        have : s ≤ s ∧ s < s + (c + 1) := by omega
        simp [this]
      · have hk' : (s == n) = false := by simpa using hk
        simp only [hk', Bool.false_eq_true, ↓reduceIte]
        rw [ih (s + 1) rows (by simp at h; omega)]
        by_cases hin : s ≤ n ∧ n < s + (c + 1)
        · have hin' : s + 1 ≤ n ∧ n < s + 1 + c := by omega
          have hidx : n - s = (n - (s + 1)) + 1 := by omega
          simp only [hin, hin', and_self, ↓reduceIte]
          rw [hidx, List.getElem?_cons_succ]
        · have hin' : ¬ (s + 1 ≤ n ∧ n < s + 1 + c) := by omega
          simp [hin, hin']

theorem rowSpec_flat (ranges : List (Nat × Nat)) (rows : List Row) (n : Nat) (h : sumCounts ranges ≤ rows.length) :
    (rowSpec ranges rows n).bind specRowEntry = (lookupNat (flatRows ranges rows) n).join := by
  induction ranges generalizing rows with
  | nil => rfl
  | cons sc rest ih =>
    obtain ⟨s, c⟩ := sc
    simp only [sumCounts] at h
    simp only [rowSpec, flatRows]
    rw [lookupNat_append', lookup_rangeRows s c rows n (by omega)]
    by_cases hin : s ≤ n ∧ n < s + c
    · have hlt : n - s < rows.length := by omega
      simp only [hin, and_self, ↓reduceIte, List.getElem?_eq_getElem hlt, Option.map_some, Option.bind_some,
        Option.join_some]
    · simp only [hin, ↓reduceIte]
      exact ih (rows.drop c) (by simp only [List.length_drop]; omega)

theorem lookup_inuse_nokey (l : List (Nat × Option Entry)) (n : Nat) (h : n ∉ l.map (·.1)) :
    lookupNat (inuseRows l) n = none := by
  induction l with
  | nil => rfl
  | cons p r ih =>
    obtain ⟨k, o⟩ := p
    simp only [List.map_cons, List.mem_cons, not_or] at h
    have hk : (k == n) = false := by simpa using Ne.symm h.1
    cases o with
    | none => simpa [inuseRows] using ih h.2
    | some e =>
      have := ih h.2
      simp only [inuseRows] at this
      simp [inuseRows, lookupNat, hk, this]

theorem join_lookup_inuse (l : List (Nat × Option Entry)) (n : Nat) (h : (l.map (·.1)).Nodup) :
    (lookupNat l n).join = lookupNat (inuseRows l) n := by
  induction l with
  | nil => rfl
  | cons p r ih =>
    obtain ⟨k, o⟩ := p
    simp only [List.map_cons, List.nodup_cons] at h
    by_cases hk : (k == n) = true
    · have hkn : k = n := by simpa using hk
      simp only [lookupNat, hk, ↓reduceIte, Option.join_some]
      cases o with
      | none =>
        have := lookup_inuse_nokey r n (hkn ▸ h.1)
        simpa [inuseRows] using this.symm
      | some e => simp [inuseRows, lookupNat, hk]
    · have hk' : (k == n) = false := by simpa using hk
      simp only [lookupNat, hk', Bool.false_eq_true, ↓reduceIte]
      rw [ih h.2]
      cases o with
      | none => simp [inuseRows]
      | some e => simp [inuseRows, lookupNat, hk']

/-- What the rows of non-overlapping `/Index` ranges say = what the writer's entry list says. -/
theorem rowSpec_lists (ranges : List (Nat × Nat)) (rows : List Row) (ents : List (Nat × Entry))
    (hlen : sumCounts ranges ≤ rows.length) (h : streamListsB ranges rows ents = true) (n : Nat) :
    (rowSpec ranges rows n).bind specRowEntry = lookupNat ents n := by
  simp only [streamListsB, Bool.and_eq_true] at h
  obtain ⟨ha, hb, hab⟩ := sameAssocB_sound _ _ h.2
  rw [rowSpec_flat ranges rows n hlen, join_lookup_inuse _ n (nodupNat_sound _ h.1),
    ← lookupOff_entsInt, lookupOff_same _ _ _ ha hb hab, lookupOff_entsInt]

end PdfVerif.Xref
