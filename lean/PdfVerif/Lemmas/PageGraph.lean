/-
Lemmas for C04 on arbitrary object graphs (cycles, shared and repeated kids, dangling
references, direct dictionaries in Kids): the visited set, termination, completeness and order
of the walk; totality of `resolve1`'s loop.
-/
import PdfVerif.Lemmas.PageTree

namespace PdfVerif.PageTree
open PdfVerif PdfVerif.Gen.PageTree

/-! ### Counting unvisited nodes -/

/-- Number of the given nodes not yet visited. -/
def unvisited (nodes vis : List Nat) : Nat := (nodes.filter (fun n => !vis.contains n)).length

theorem filter_length_mono (p q : Nat → Bool) (h : ∀ n, q n = true → p n = true) :
    ∀ l : List Nat, (l.filter q).length ≤ (l.filter p).length := by
  intro l
  induction l with
  | nil => simp
  | cons x xs ih =>
    simp only [List.filter_cons]
    by_cases hq : q x = true
    · simp only [hq, h x hq, if_true, List.length_cons]; omega
    · simp only [hq, Bool.false_eq_true, ↓reduceIte]
      by_cases hp : p x = true
      · simp only [hp, if_true, List.length_cons]; omega
      · simp only [hp, Bool.false_eq_true, ↓reduceIte]; exact ih

theorem filter_length_lt (p q : Nat → Bool) (h : ∀ n, q n = true → p n = true) (x : Nat)
    (hp : p x = true) (hq : q x = false) :
    ∀ l : List Nat, x ∈ l → (l.filter q).length < (l.filter p).length := by
  intro l
  induction l with
  | nil => intro hx; simp at hx
  | cons y ys ih =>
    intro hx
    simp only [List.filter_cons]
    by_cases hy : y = x
    · subst hy
      simp only [hq, hp, if_true, List.length_cons, Bool.false_eq_true, if_false]
      have := filter_length_mono p q h ys
      omega
    · have hx' : x ∈ ys := by
        rcases List.mem_cons.mp hx with h' | h'
        · exact absurd h'.symm hy
        · exact h'
      have := ih hx'
      by_cases hqy : q y = true
      · simp only [hqy, h y hqy, if_true, List.length_cons]; omega
      · simp only [hqy, Bool.false_eq_true, ↓reduceIte]
        by_cases hpy : p y = true
        · simp only [hpy, if_true, List.length_cons]; omega
        · simp only [hpy, Bool.false_eq_true, ↓reduceIte]; exact this

theorem unvisited_mono (nodes new vis : List Nat) : unvisited nodes (new ++ vis) ≤ unvisited nodes vis := by
  unfold unvisited
  apply filter_length_mono
  intro n hn
  simp only [Bool.not_eq_true', List.contains_eq_mem, List.mem_append, decide_eq_false_iff_not, not_or] at hn ⊢
  exact hn.2

theorem unvisited_cons_lt (nodes vis : List Nat) (id : Nat) (hin : id ∈ nodes) (hid : id ∉ vis) :
    unvisited nodes (id :: vis) < unvisited nodes vis := by
  unfold unvisited
  apply filter_length_lt _ _ _ id _ _ nodes hin
  · intro n hn
    simp only [Bool.not_eq_true', List.contains_eq_mem, List.mem_cons, decide_eq_false_iff_not, not_or] at hn ⊢
    exact hn.2
  · simpa using hid
  · simp


theorem get_some_mem_keys (g : Store) (n : Nat) (h : g.get n ≠ none) : n ∈ g.map Prod.fst := by
  unfold Store.get at h
  induction g with
  | nil => simp at h
  | cons kv g ih =>
    obtain ⟨k, o⟩ := kv
    simp only [List.lookup_cons] at h
    by_cases hk : (n == k) = true
    · have : n = k := by simpa using hk
      simp [this]
    · simp only [hk] at h
      simp [ih h]

/-! ### `resolve1` terminates -/

theorem resolveAux_total (g : Store) : ∀ fuel seen v,
    unvisited (g.map Prod.fst) seen < fuel → resolveAux g fuel seen v ≠ none := by
  intro fuel
  induction fuel with
  | zero => intro seen v h; omega
  | succ f ih =>
    intro seen v hlt
    cases v with
    | arr xs => simp [resolveAux]
    | dict kvs => simp [resolveAux]
    | atom a =>
      cases a with
      | ref n =>
        simp only [resolveAux]
        by_cases hs : seen.contains n = true
        · simp only [hs, if_true]; simp
        · simp only [hs, Bool.false_eq_true, if_false]
          cases hget : g.get n with
          | none => simp
          | some o =>
            cases o with
            | node d => simp
            | val v' =>
              simp only
              have hn : n ∈ g.map Prod.fst := get_some_mem_keys g n (by rw [hget]; simp)
              have hns : n ∉ seen := by simpa using hs
              have hdec := unvisited_cons_lt (g.map Prod.fst) seen n hn hns
              exact ih (n :: seen) v' (by omega)
      | int i => simp [resolveAux]
      | real q => simp [resolveAux]
      | name s => simp [resolveAux]
      | null => simp [resolveAux]

/-- The fuel handed to `resolve1`'s loop by the model is never exhausted. -/
theorem resolve_total (g : Store) (v : Val) : resolveAux g (g.length + 1) [] v ≠ none := by
  apply resolveAux_total
  have := List.length_filter_le (fun n => !([] : List Nat).contains n) (g.map Prod.fst)
  simp only [List.length_map] at this
  unfold unvisited
  omega

/-! ### The graph seen by the walk -/

/-- One step along Kids between object numbers. -/
def Edge (g : Store) (a b : Nat) : Prop := ∃ k ∈ kidsOf g a, kidId k = some b

/-- Reachability along Kids. -/
inductive Reach (g : Store) : Nat → Nat → Prop
  | refl (a : Nat) : Reach g a a
  | step {a b c : Nat} : Reach g a b → Edge g b c → Reach g a c

/-! ### Invariant of every walk -/

/-- Invariant of every (partial) walk started with visited set `vis`: the visited set only grows at
the front (`new`), stays duplicate-free; the pages with an object number that were yielded are
exactly the newly visited Page nodes in visiting order; and, when the walk ended normally, every
Kids entry of a newly visited node has been visited. -/
def WalkInv (g : Store) (w : Walk) (vis : List Nat) : Prop :=
  ∃ new, w.visited = new ++ vis ∧ (vis.Nodup → (new ++ vis).Nodup) ∧
    w.pages.filterMap (·.id) = new.reverse.filter (isPageNode g) ∧
    (w.err = none → ∀ n ∈ new, ∀ b, Edge g n b → b ∈ w.visited)

/-- … and the entry itself has been visited. -/
def VisitInv (g : Store) (w : Walk) (vis : List Nat) (kid : Elem) : Prop :=
  WalkInv g w vis ∧ (w.err = none → ∀ b, kidId kid = some b → b ∈ w.visited)

theorem walkKids_inv (g : Store) (visitOne : Elem → Dict → List Nat → Walk)
    (hv : ∀ k P vis, VisitInv g (visitOne k P vis) vis k) :
    ∀ ks P vis, WalkInv g (walkKids visitOne ks P vis) vis ∧
      ((walkKids visitOne ks P vis).err = none →
        ∀ k ∈ ks, ∀ b, kidId k = some b → b ∈ (walkKids visitOne ks P vis).visited) := by
  intro ks
  induction ks with
  | nil =>
    intro P vis
    exact ⟨⟨[], by simp [walkKids], by simp, by simp [walkKids], by simp⟩, by simp⟩
  | cons k ks ih =>
    intro P vis
    obtain ⟨⟨new1, hv1, hn1, hp1, hc1⟩, he1⟩ := hv k P vis
    simp only [walkKids]
    cases he : (visitOne k P vis).err with
    | some e =>
      simp only
      refine ⟨⟨new1, hv1, hn1, hp1, ?_⟩, ?_⟩
      · intro h; rw [he] at h; cases h
      · intro h; rw [he] at h; cases h
    | none =>
      simp only
      obtain ⟨⟨new2, hv2, hn2, hp2, hc2⟩, he2⟩ := ih P (visitOne k P vis).visited
      have hvis : (walkKids visitOne ks P (visitOne k P vis).visited).visited = (new2 ++ new1) ++ vis := by
        rw [hv2, hv1, List.append_assoc]
      refine ⟨⟨new2 ++ new1, hvis, ?_, ?_, ?_⟩, ?_⟩
      · intro h
        have := hn2 (by rw [hv1]; exact hn1 h)
        rw [hv1] at this
        simpa [List.append_assoc] using this
      · simp only [List.filterMap_append, List.reverse_append, List.filter_append, hp1, hp2]
      · intro herr n hn b hb
        rcases List.mem_append.mp hn with h2 | h1
        · exact hc2 herr n h2 b hb
        · have := hc1 he n h1 b hb
          rw [hv2]
          exact List.mem_append_right _ this
      · intro herr k' hk' b hb
        rcases List.mem_cons.mp hk' with h | h
        · subst h
          have := he1 he b hb
          rw [hv2]
          exact List.mem_append_right _ this
        · exact he2 herr k' h b hb

theorem nodeOf_ok (g : Store) (kid : Elem) (oid : Option Nat) (props0 : Dict)
    (h : nodeOf g kid = .ok (oid, props0)) :
    kidId kid = oid ∧ (∀ id, oid = some id → props0 = nodeDict g id) := by
  unfold nodeOf at h
  split at h
  · cases h; exact ⟨rfl, fun id hid => by cases hid; rfl⟩
  · rename_i i
    split at h
    · rename_i hi
      split at h
      · cases h
        refine ⟨by simp [kidId, hi], fun id hid => by cases hid; rfl⟩
      · cases h
    · cases h
  · rename_i a hnr hni
    cases h
    refine ⟨?_, fun id hid => by cases hid⟩
    cases a with
    | ref n => exact absurd rfl (hnr n)
    | int i => exact absurd rfl (hni i)
    | real q => rfl
    | name s => rfl
    | null => rfl
  · cases h; exact ⟨rfl, fun id hid => by cases hid⟩
  · cases h; exact ⟨rfl, fun id hid => by cases hid⟩

theorem nodeOf_err (g : Store) (kid : Elem) (e : Err) (h : nodeOf g kid = .error e) : e ≠ .fuel := by
  unfold nodeOf at h
  split at h
  · cases h
  · split at h
    · split at h
      · cases h
      · cases h; decide
    · cases h; decide
  · cases h
  · cases h
  · cases h

theorem isPagesNode_overlay (g : Store) (P : Dict) (id : Nat) :
    (isName (nodeType (overlay P (nodeDict g id))) "Pages" &&
      (dget (overlay P (nodeDict g id)) "Kids").isSome) = isPagesNode g id := by
  unfold isPagesNode
  rw [nodeType_overlay, dget_overlay_other P _ "Kids" (by decide)]

theorem no_edge_of_not_pages (g : Store) (id b : Nat) (h : isPagesNode g id = false) : ¬ Edge g id b := by
  rintro ⟨k, hk, _⟩
  simp [kidsOf, h] at hk

theorem visit_inv (g : Store) : ∀ fuel kid P vis, VisitInv g (visit g fuel kid P vis) vis kid := by
  intro fuel
  induction fuel with
  | zero =>
    intro kid P vis
    exact ⟨⟨[], by simp [visit], by simp, by simp [visit], by simp⟩, by simp [visit]⟩
  | succ f ih =>
    intro kid P vis
    simp only [visit]
    cases hn : nodeOf g kid with
    | error e => exact ⟨⟨[], by simp, by simp, by simp, by simp⟩, by simp⟩
    | ok r =>
      obtain ⟨oid, props0⟩ := r
      obtain ⟨hkid, hprops⟩ := nodeOf_ok g kid oid props0 hn
      cases oid with
      | none =>
        simp only [Bool.false_eq_true, if_false]
        have hk : ∀ b, kidId kid = some b → False := by intro b hb; rw [hkid] at hb; cases hb
        split
        · exact ⟨⟨[], by simp, by simp, by simp, by simp⟩, fun _ b hb => (hk b hb).elim⟩
        · split
          · exact ⟨⟨[], by simp, by simp, by simp, by simp⟩, fun _ b hb => (hk b hb).elim⟩
          · exact ⟨⟨[], by simp, by simp, by simp, by simp⟩, fun _ b hb => (hk b hb).elim⟩
      | some id =>
        have hp0 : props0 = nodeDict g id := hprops id rfl
        subst hp0
        simp only
        by_cases hid : id ∈ vis
        · have : vis.contains id = true := by simpa using hid
          simp only [this, if_true]
          refine ⟨⟨[], by simp, by simp, by simp, by simp⟩, ?_⟩
          intro _ b hb
          rw [hkid] at hb; cases hb; exact hid
        · have hc : vis.contains id = false := by simpa using hid
          simp only [hc, Bool.false_eq_true, if_false]
          rw [isPagesNode_overlay]
          cases hpn : isPagesNode g id with
          | true =>
            simp only [if_true]
            obtain ⟨⟨new, h1, h2, h3, h4⟩, h5⟩ := walkKids_inv g (visit g f) ih
              (listValue g ((dget (overlay P (nodeDict g id)) "Kids").getD (.atom .null)))
              (overlay P (nodeDict g id)) (id :: vis)
            have hkids : listValue g ((dget (overlay P (nodeDict g id)) "Kids").getD (.atom .null)) = kidsOf g id := by
              rw [dget_overlay_other P _ "Kids" (by decide)]
              simp [kidsOf, hpn]
            refine ⟨⟨new ++ [id], by simp [h1], ?_, ?_, ?_⟩, ?_⟩
            · intro h
              have := h2 (List.nodup_cons.mpr ⟨hid, h⟩)
              simpa [List.append_assoc] using this
            · have hnp : isPageNode g id = false := by simp [isPageNode, hpn]
              simp only [h3, List.reverse_append, List.reverse_cons, List.reverse_nil, List.nil_append,
                List.singleton_append, List.filter_cons, hnp, Bool.false_eq_true, if_false]
            · intro herr n hn' b hb
              rcases List.mem_append.mp hn' with hnew | hself
              · exact h4 herr n hnew b hb
              · have : n = id := by simpa using hself
                subst this
                obtain ⟨k, hk, hkb⟩ := hb
                rw [← hkids] at hk
                exact h5 herr k hk b hkb
            · intro herr b hb
              rw [hkid] at hb; cases hb
              rw [h1]; simp
          | false =>
            simp only [Bool.false_eq_true, if_false]
            have hne : ∀ b, ¬ Edge g id b := fun b => no_edge_of_not_pages g id b hpn
            have hself : ∀ (w : Walk), w.visited = id :: vis → w.err = none →
                ∀ b, kidId kid = some b → b ∈ w.visited := by
              intro w hw _ b hb
              rw [hkid] at hb; cases hb; rw [hw]; simp
            have hty : isName (nodeType (overlay P (nodeDict g id))) "Page" = isPageNode g id := by
              rw [nodeType_overlay]; simp [isPageNode, hpn]
            rw [hty]
            cases hpg : isPageNode g id with
            | true =>
              simp only [if_true]
              refine ⟨⟨[id], by simp, ?_, by simp [hpg], ?_⟩, hself _ rfl⟩
              · intro h; exact List.nodup_cons.mpr ⟨hid, h⟩
              · intro _ n hn' b hb
                have : n = id := by simpa using hn'
                subst this; exact absurd hb (hne b)
            | false =>
              simp only [Bool.false_eq_true, if_false]
              refine ⟨⟨[id], by simp, ?_, by simp [hpg], ?_⟩, hself _ rfl⟩
              · intro h; exact List.nodup_cons.mpr ⟨hid, h⟩
              · intro _ n hn' b hb
                have : n = id := by simpa using hn'
                subst this; exact absurd hb (hne b)

/-! ### Termination -/

theorem walkKids_fuel (g : Store) (nodes : List Nat) (F : Nat) (visitOne : Elem → Dict → List Nat → Walk)
    (hinv : ∀ k P vis, VisitInv g (visitOne k P vis) vis k)
    (hfuel : ∀ k P vis, unvisited nodes vis < F → (visitOne k P vis).err ≠ some .fuel) :
    ∀ ks P vis, unvisited nodes vis < F → (walkKids visitOne ks P vis).err ≠ some .fuel := by
  intro ks
  induction ks with
  | nil => intro P vis _; simp [walkKids]
  | cons k ks ih =>
    intro P vis hlt
    simp only [walkKids]
    cases he : (visitOne k P vis).err with
    | some e =>
      simp only
      rw [he]
      have := hfuel k P vis hlt
      rw [he] at this
      exact this
    | none =>
      simp only
      obtain ⟨⟨new1, hv1, _, _, _⟩, _⟩ := hinv k P vis
      apply ih
      rw [hv1]
      exact Nat.lt_of_le_of_lt (unvisited_mono nodes new1 vis) hlt

theorem nodeDict_nonempty (g : Store) (id : Nat) (hne : nodeDict g id ≠ []) : g.get id ≠ none := by
  intro hg
  apply hne
  simp [nodeDict, dictValue, resolve, resolveAux, hg]

theorem isPagesNode_nonempty (g : Store) (id : Nat) (h : isPagesNode g id = true) : nodeDict g id ≠ [] := by
  intro hnil
  simp [isPagesNode, hnil, nodeType, dget, isName] at h

theorem visit_fuel (g : Store) :
    ∀ fuel kid P vis, unvisited (g.map Prod.fst) vis < fuel → (visit g fuel kid P vis).err ≠ some .fuel := by
  intro fuel
  induction fuel with
  | zero => intro kid P vis h; omega
  | succ f ih =>
    intro kid P vis hlt
    simp only [visit]
    cases hn : nodeOf g kid with
    | error e =>
      simp only
      intro h
      exact nodeOf_err g kid e hn (by simpa using h)
    | ok r =>
      obtain ⟨oid, props0⟩ := r
      obtain ⟨hkid, hprops⟩ := nodeOf_ok g kid oid props0 hn
      cases oid with
      | none =>
        simp only [Bool.false_eq_true, if_false]
        split
        · simp
        · split <;> simp
      | some id =>
        have hp0 : props0 = nodeDict g id := hprops id rfl
        subst hp0
        simp only
        by_cases hid : id ∈ vis
        · simp [hid]
        · have hc : vis.contains id = false := by simpa using hid
          simp only [hc, Bool.false_eq_true, if_false]
          rw [isPagesNode_overlay]
          cases hpn : isPagesNode g id with
          | true =>
            simp only [if_true]
            have hin : id ∈ g.map Prod.fst :=
              get_some_mem_keys g id (nodeDict_nonempty g id (isPagesNode_nonempty g id hpn))
            apply walkKids_fuel g (g.map Prod.fst) f (visit g f) (visit_inv g f) ih
            have := unvisited_cons_lt (g.map Prod.fst) vis id hin hid
            omega
          | false =>
            simp only [Bool.false_eq_true, if_false]
            split <;> simp

/-! ### Completeness -/

/-- After a walk from `r` with an empty visited set that ended normally, everything reachable from
`r` along Kids has been visited. -/
theorem reach_visited (g : Store) (fuel : Nat) (r : Nat) (P : Dict)
    (herr : (visit g fuel (.atom (.ref r)) P []).err = none) :
    ∀ n, Reach g r n → n ∈ (visit g fuel (.atom (.ref r)) P []).visited := by
  obtain ⟨⟨new, h1, _, _, h4⟩, h5⟩ := visit_inv g fuel (.atom (.ref r)) P []
  intro n hr
  induction hr with
  | refl => exact h5 herr r rfl
  | @step b c _ hedge ih =>
    exact h4 herr b (by simpa [h1] using ih) c hedge

/-! ### Inheritance along the path of the first visit -/

/-- Object numbers from a node up towards the root, each one a Kids entry of the next. -/
def IsChain (g : Store) : List Nat → Prop
  | [] => True
  | [_] => True
  | a :: b :: rest => Edge g b a ∧ IsChain g (b :: rest)

theorem append_singleton_append (path : List Nat) (id : Nat) (anc : List Nat) :
    (path ++ [id]) ++ anc = path ++ (id :: anc) := by simp

/-- A yielded page that is an indirect object was reached along a chain of Kids entries from the
entry the walk started at, and its inheritable attributes are its own or those of the nearest
node on that chain (continued by the ancestors `anc` of the entry) that defines them. -/
def PageOK (g : Store) (kid : Elem) (anc : List Nat) (rp : RawPage) : Prop :=
  ∀ p, rp.id = some p → ∃ id path, kidId kid = some id ∧ path.head? = some p ∧ path.getLast? = some id ∧
    IsChain g (path ++ anc) ∧
    ∀ k ∈ INHERITABLE_ATTRS, dget rp.attrs k = inherited ((path ++ anc).map (nodeDict g)) k

theorem walkKids_pages_forall (visitOne : Elem → Dict → List Nat → Walk) (Q : RawPage → Prop) (P : Dict) :
    ∀ ks, (∀ k ∈ ks, ∀ vis, ∀ rp ∈ (visitOne k P vis).pages, Q rp) →
      ∀ vis, ∀ rp ∈ (walkKids visitOne ks P vis).pages, Q rp := by
  intro ks
  induction ks with
  | nil => intro _ vis rp h; simp [walkKids] at h
  | cons k ks ih =>
    intro hv vis rp h
    simp only [walkKids] at h
    cases he : (visitOne k P vis).err with
    | some e =>
      simp only [he] at h
      exact hv k (by simp) vis rp h
    | none =>
      simp only [he] at h
      rcases List.mem_append.mp h with h1 | h2
      · exact hv k (by simp) vis rp h1
      · exact ih (fun k' hk' => hv k' (List.mem_cons_of_mem _ hk')) _ rp h2

theorem visit_attrs (g : Store) : ∀ fuel kid P anc vis,
    (∀ k ∈ INHERITABLE_ATTRS, dget P k = inherited (anc.map (nodeDict g)) k) →
    (∀ id, kidId kid = some id → IsChain g (id :: anc)) →
    ∀ rp ∈ (visit g fuel kid P vis).pages, PageOK g kid anc rp := by
  intro fuel
  induction fuel with
  | zero => intro kid P anc vis _ _ rp h; simp [visit] at h
  | succ f ih =>
    intro kid P anc vis hP hch rp hrp
    simp only [visit] at hrp
    cases hn : nodeOf g kid with
    | error e => simp [hn] at hrp
    | ok r =>
      obtain ⟨oid, props0⟩ := r
      obtain ⟨hkid, hprops⟩ := nodeOf_ok g kid oid props0 hn
      simp only [hn] at hrp
      cases oid with
      | none =>
        simp only [Bool.false_eq_true, if_false] at hrp
        intro p hp
        split at hrp
        · simp at hrp
        · split at hrp
          · have : rp = ⟨none, overlay P props0⟩ := by simpa using hrp
            subst this; cases hp
          · simp at hrp
      | some id =>
        have hp0 : props0 = nodeDict g id := hprops id rfl
        subst hp0
        simp only at hrp
        by_cases hid : id ∈ vis
        · simp [hid] at hrp
        · have hc : vis.contains id = false := by simpa using hid
          simp only [hc, Bool.false_eq_true, if_false] at hrp
          rw [isPagesNode_overlay] at hrp
          have hP' := overlay_inherits P (nodeDict g id) (anc.map (nodeDict g)) hP
          have hchain : IsChain g (id :: anc) := hch id hkid
          cases hpn : isPagesNode g id with
          | true =>
            simp only [hpn, if_true] at hrp
            have hkids : listValue g ((dget (overlay P (nodeDict g id)) "Kids").getD (.atom .null)) = kidsOf g id := by
              rw [dget_overlay_other P _ "Kids" (by decide)]
              simp [kidsOf, hpn]
            rw [hkids] at hrp
            have key := walkKids_pages_forall (visit g f)
              (fun rp => ∀ p, rp.id = some p → ∃ path, path.head? = some p ∧ path.getLast? = some id ∧
                IsChain g (path ++ anc) ∧
                ∀ k ∈ INHERITABLE_ATTRS, dget rp.attrs k = inherited ((path ++ anc).map (nodeDict g)) k)
              (overlay P (nodeDict g id)) (kidsOf g id) (by
                intro k hk vis' rp' hrp' p hp
                have hch' : ∀ b, kidId k = some b → IsChain g (b :: id :: anc) := by
                  intro b hb
                  exact ⟨⟨k, hk, hb⟩, hchain⟩
                obtain ⟨b, path, _, hh, hl, hc', ha⟩ :=
                  ih k (overlay P (nodeDict g id)) (id :: anc) vis' (by simpa using hP') hch' rp' hrp' p hp
                refine ⟨path ++ [id], ?_, by simp, ?_, ?_⟩
                · cases path with
                  | nil => simp at hh
                  | cons x xs => simpa using hh
                · rw [append_singleton_append]; exact hc'
                · intro k' hk'
                  rw [append_singleton_append]; exact ha k' hk')
              (id :: vis) rp hrp
            intro p hp
            obtain ⟨path, h1, h2, h3, h4⟩ := key p hp
            exact ⟨id, path, hkid, h1, h2, h3, h4⟩
          | false =>
            simp only [hpn, Bool.false_eq_true, if_false] at hrp
            split at hrp
            · have : rp = ⟨some id, overlay P (nodeDict g id)⟩ := by simpa using hrp
              subst this
              intro p hp
              have : id = p := by simpa using hp
              subst this
              refine ⟨id, [id], hkid, rfl, rfl, by simpa using hchain, ?_⟩
              intro k hk
              simpa using hP' k hk
            · simp at hrp

end PdfVerif.PageTree
