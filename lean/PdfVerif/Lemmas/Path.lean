/-
Lemmas about the lexical path algebra (Model/Path.lean): joining a plain file name onto a
directory and normalising gives exactly "normalised directory / file name".
-/
import PdfVerif.Model.Path
import PdfVerif.Model.Image

namespace PdfVerif.PathLemmas
open PdfVerif PdfVerif.Path PdfVerif.ImageName

/-- A plain path component: no `/`, and none of ``, `.`, `..`. -/
def PlainComp (f : Bytes) : Prop := (¬ 47 ∈ f) ∧ f ≠ [] ∧ f ≠ [46] ∧ f ≠ [46, 46]

theorem splitSlash_ne_nil : ∀ (p : Bytes), splitSlash p ≠ []
  | [] => by simp [splitSlash]
  | c :: cs => by
    unfold splitSlash
    split
    · simp
    · split <;> simp

theorem splitSlash_plain : ∀ (f : Bytes), ¬ 47 ∈ f → splitSlash f = [f]
  | [], _ => rfl
  | c :: cs, h => by
    have hc : c ≠ 47 := fun e => h (by simp [e])
    have hcs : ¬ 47 ∈ cs := fun e => h (by simp [e])
    unfold splitSlash
    rw [if_neg hc, splitSlash_plain cs hcs]

theorem splitSlash_append : ∀ (a b : Bytes), splitSlash (a ++ 47 :: b) = splitSlash a ++ splitSlash b
  | [], b => by simp [splitSlash]
  | c :: a, b => by
    have ih := splitSlash_append a b
    by_cases hc : c = 47
    · simp only [List.cons_append, splitSlash, hc, if_true, ih, List.cons_append]
    · simp only [List.cons_append, splitSlash, hc, if_false, ih]
      cases hsa : splitSlash a with
      | nil => exact absurd hsa (splitSlash_ne_nil a)
      | cons h t => simp

theorem foldl_normStep_plain (abs : Bool) (xs : List Bytes) (f : Bytes) (hf : PlainComp f) (s : List Bytes) :
    (xs ++ [f]).foldl (normStep abs) s = f :: xs.foldl (normStep abs) s := by
  rw [List.foldl_append]
  simp only [List.foldl_cons, List.foldl_nil, normStep]
  rw [if_neg (by intro h; rcases h with h | h; exact hf.2.1 h; exact hf.2.2.1 h), if_neg hf.2.2.2]

theorem foldl_normStep_empty (abs : Bool) (xs : List Bytes) (s : List Bytes) :
    (xs ++ [[]]).foldl (normStep abs) s = xs.foldl (normStep abs) s := by
  rw [List.foldl_append]
  simp [normStep]

theorem isAbs_plain (f : Bytes) (hf : PlainComp f) : isAbs f = false := by
  unfold isAbs
  cases f with
  | nil => rfl
  | cons c cs =>
    have : c ≠ 47 := fun e => hf.1 (by simp [e])
    simp [this]

theorem isAbs_append (d t : Bytes) (hd : d ≠ []) : isAbs (d ++ t) = isAbs d := by
  cases d with
  | nil => exact absurd rfl hd
  | cons c cs => rfl

/-- Joining a plain file name onto a directory stays directly inside that directory. -/
theorem norm_join_plain (d f : Bytes) (hf : PlainComp f) :
    norm (join d f) = ((norm d).1, (norm d).2 ++ [f]) := by
  unfold join
  rw [isAbs_plain f hf]
  simp only [Bool.false_eq_true, if_false]
  by_cases hd : d = []
  · subst hd
    simp only [List.isEmpty_nil, Bool.true_or, if_true, List.nil_append, norm, isAbs_plain f hf,
      splitSlash_plain f hf.1]
    have : isAbs [] = false := rfl
    simp [this, splitSlash, normStep, hf.2.1, hf.2.2.1, hf.2.2.2]
  · have hne : d.isEmpty = false := by cases d <;> simp_all
    by_cases hlast : d.getLast? = some 47
    · -- d = d' ++ "/" : the empty last component of d is dropped by normpath
      obtain ⟨d', rfl⟩ : ∃ d', d = d' ++ [47] := by
        have := List.getLast?_eq_some_iff.mp hlast
        obtain ⟨ys, hys⟩ := this
        exact ⟨ys, hys⟩
      simp only [hne, hlast, beq_self_eq_true, Bool.or_true, if_true, norm]
      have h1 : d' ++ [47] ++ f = d' ++ 47 :: f := by simp
      have h2 : d' ++ [47] = d' ++ 47 :: [] := rfl
      rw [h1]
      have habs : isAbs (d' ++ 47 :: f) = isAbs (d' ++ [47]) := by
        cases d' <;> rfl
      rw [habs, splitSlash_append, splitSlash_plain f hf.1, foldl_normStep_plain _ _ _ hf, h2, splitSlash_append]
      have : splitSlash ([] : Bytes) = [[]] := rfl
      rw [this, foldl_normStep_empty]
      simp
    · have hl : (d.getLast? == some 47) = false := by simpa using hlast
      simp only [hne, hl, Bool.or_self, Bool.false_eq_true, if_false, norm]
      rw [isAbs_append _ _ hd, splitSlash_append, splitSlash_plain f hf.1, foldl_normStep_plain _ _ _ hf]
      simp

/-- The regenerated format literal keeps every name a non-trivial file name: it adds at least three
    characters (so the result is never ``, `.` or `..`). -/
theorem cmapFormat_ok : 3 ≤ Gen.PathGen.cmapPrefix.length + Gen.PathGen.cmapSuffix.length := by decide

theorem cmapFilename_plain (name : Bytes) (h : plainFile (cmapFilename name) = true) :
    PlainComp (cmapFilename name) := by
  have hlen : 3 ≤ (cmapFilename name).length := by
    have := cmapFormat_ok
    simp only [cmapFilename, List.length_append]
    omega
  refine ⟨by simpa [plainFile] using h, ?_, ?_, ?_⟩ <;>
  · intro he
    rw [he] at hlen
    simp at hlen

/-- Extensions the writer uses: no separator, at least 3 bytes (`.bmp`, `.jpg`, `.jp2`, `.N.WxH.img`). -/
def ValidExt (ext : Bytes) : Prop := (¬ 47 ∈ ext) ∧ 3 ≤ ext.length

/-- What the (regenerated) set of replaced characters and the replacement must satisfy for the
    sanitiser to do its job: separator and NUL are replaced, by something that is neither. -/
theorem imageReplaced_ok : (47 : UInt8) ∈ Gen.PathGen.imageReplacedChars ∧ (0 : UInt8) ∈ Gen.PathGen.imageReplacedChars ∧
    Gen.PathGen.imageReplacement ∉ Gen.PathGen.imageReplacedChars := by decide

theorem safeName_not_replaced (name : Bytes) (c : UInt8) (hc : c ∈ Gen.PathGen.imageReplacedChars) :
    c ∉ safeName name := by
  unfold safeName
  intro h
  obtain ⟨x, _, hx⟩ := List.mem_map.mp h
  split at hx
  · exact imageReplaced_ok.2.2 (hx ▸ hc)
  · rename_i hne
    rw [hx] at hne
    exact hne (by simpa using hc)

theorem safeName_no_slash (name : Bytes) : ¬ 47 ∈ safeName name :=
  safeName_not_replaced name 47 imageReplaced_ok.1

theorem safeName_no_nul (name : Bytes) : ¬ 0 ∈ safeName name :=
  safeName_not_replaced name 0 imageReplaced_ok.2.1

theorem safeName_length (name : Bytes) : (safeName name).length = name.length := by
  simp [safeName]

/-- Names without a replaced character are kept as they are. -/
theorem safeName_id (name : Bytes) (h : ∀ c ∈ name, c ∉ Gen.PathGen.imageReplacedChars) : safeName name = name := by
  unfold safeName
  conv => rhs; rw [← List.map_id name]
  apply List.map_congr_left
  intro c hc
  have := h c hc
  simp [this]

theorem safeName_idem (name : Bytes) : safeName (safeName name) = safeName name :=
  safeName_id _ (fun c hc hr => safeName_not_replaced name c hr hc)

/-- Byte by byte: position `i` holds the replacement when the source byte is NUL or `/`, else the source byte. -/
theorem safeName_getElem (name : Bytes) (i : Nat) :
    (safeName name)[i]? = (name[i]?).map (fun c => if c = 0 ∨ c = 47 then Gen.PathGen.imageReplacement else c) := by
  unfold safeName
  rw [List.getElem?_map]
  congr 1
  funext c
  have : Gen.PathGen.imageReplacedChars.contains c = decide (c = 0 ∨ c = 47) := by
    simp [Gen.PathGen.imageReplacedChars]
  rw [this]
  simp

/-! ### `os.path.basename` and the translated guard -/

theorem splitSlash_no_slash : ∀ (p c : Bytes), c ∈ splitSlash p → ¬ 47 ∈ c
  | [], c, h => by
    simp only [splitSlash, List.mem_singleton] at h
    subst h
    simp
  | x :: xs, c, h => by
    unfold splitSlash at h
    split at h
    · rcases List.mem_cons.mp h with rfl | h
      · simp
      · exact splitSlash_no_slash xs c h
    · rename_i hx
      split at h
      · rename_i hd tl heq
        rcases List.mem_cons.mp h with rfl | h
        · have := splitSlash_no_slash xs hd (by rw [heq]; simp)
          simp only [List.mem_cons, not_or]
          exact ⟨fun e => hx e.symm, this⟩
        · exact splitSlash_no_slash xs c (by rw [heq]; simp [h])
      · rename_i heq
        exact absurd heq (splitSlash_ne_nil xs)

theorem basename_no_slash (p : Bytes) : ¬ 47 ∈ basename p := by
  unfold basename
  have hne := splitSlash_ne_nil p
  have : (splitSlash p).getLastD [] ∈ splitSlash p := by
    rw [List.getLastD_eq_getLast?]
    cases h : (splitSlash p).getLast? with
    | none => simp [List.getLast?_eq_none_iff] at h; exact absurd h hne
    | some x => exact List.mem_of_getLast? h
  exact splitSlash_no_slash p _ this

/-- `os.path.basename(f) == f` exactly when `f` contains no separator. -/
theorem basename_eq_self_iff (f : Bytes) : basename f = f ↔ ¬ 47 ∈ f := by
  constructor
  · intro h
    rw [← h]
    exact basename_no_slash f
  · intro h
    simp [basename, splitSlash_plain f h]

/-- The translated guard of `_load_data` is the test "the file name contains a separator". -/
theorem cmapGuard_eq (name f : Bytes) : Gen.PathGen.cmapGuardRejects basename name f = !plainFile f := by
  unfold Gen.PathGen.cmapGuardRejects plainFile
  by_cases h : (47 : UInt8) ∈ f
  · have : basename f ≠ f := fun e => (basename_eq_self_iff f).mp e h
    simp [h, this]
  · have : basename f = f := (basename_eq_self_iff f).mpr h
    simp [h, this]

theorem cmapProbes_eq (dirs : List Bytes) (name : Bytes) :
    cmapProbes dirs name = if plainFile (cmapFilename name) then dirs.map (fun d => join d (cmapFilename name)) else [] := by
  unfold cmapProbes
  rw [cmapGuard_eq]
  cases plainFile (cmapFilename name) <;> simp

/-! ### `normpath` yields canonical components (round 6) -/

/-- A canonical component: not empty, not `.`, no separator; `..` only in relative paths. -/
def CanonComp (abs : Bool) (c : Bytes) : Prop :=
  c ≠ [] ∧ c ≠ [46] ∧ (¬ 47 ∈ c) ∧ (abs = true → c ≠ [46, 46])

theorem normStep_canon (abs : Bool) (stack : List Bytes) (c : Bytes) (hc : ¬ 47 ∈ c)
    (hs : ∀ x ∈ stack, CanonComp abs x) : ∀ x ∈ normStep abs stack c, CanonComp abs x := by
  unfold normStep
  split
  · exact hs
  · rename_i h1
    split
    · rename_i h2
      subst h2
      match stack, hs with
      | [], _ =>
        by_cases ha : abs = true
        · simp [ha]
        · simp only [ha, Bool.false_eq_true, if_false, List.mem_singleton]
          rintro x rfl
          exact ⟨by decide, by decide, by decide, fun h => absurd h (by decide)⟩
      | t :: rest, hs =>
        simp only
        split
        · rename_i ht
          intro x hx
          rcases List.mem_cons.mp hx with rfl | hx
          · refine ⟨by decide, by decide, by decide, fun ha => ?_⟩
            exact absurd ht ((hs t (by simp)).2.2.2 ha)
          · exact hs x hx
        · intro x hx
          exact hs x (by simp [hx])
    · rename_i h2
      intro x hx
      rcases List.mem_cons.mp hx with rfl | hx
      · exact ⟨fun h => h1 (Or.inl h), fun h => h1 (Or.inr h), hc, fun _ => h2⟩
      · exact hs x hx

theorem foldl_normStep_canon (abs : Bool) : ∀ (cs : List Bytes) (stack : List Bytes), (∀ c ∈ cs, ¬ 47 ∈ c) →
    (∀ x ∈ stack, CanonComp abs x) → ∀ x ∈ cs.foldl (normStep abs) stack, CanonComp abs x
  | [], stack, _, hs => by simpa using hs
  | c :: cs, stack, hcs, hs => by
    simp only [List.foldl_cons]
    exact foldl_normStep_canon abs cs _ (fun c' hc' => hcs c' (by simp [hc']))
      (normStep_canon abs stack c (hcs c (by simp)) hs)

/-- Every component of a normalised path is canonical — for every byte string `p`. -/
theorem norm_canon (p : Bytes) : ∀ c ∈ (norm p).2, CanonComp (isAbs p) c := by
  intro c hc
  simp only [norm, List.mem_reverse] at hc
  exact foldl_normStep_canon (isAbs p) (splitSlash p) [] (fun c' hc' => splitSlash_no_slash p c' hc')
    (by simp) c hc

/-- Joining a non-absolute name onto a fixed directory is injective. -/
theorem join_right_injective (d a b : Bytes) (ha : isAbs a = false) (hb : isAbs b = false)
    (h : join d a = join d b) : a = b := by
  unfold join at h
  simp only [ha, hb, Bool.false_eq_true, if_false] at h
  split at h
  · exact List.append_cancel_left h
  · have := List.append_cancel_left h
    simpa using this

theorem decRev_digits : ∀ (fuel n : Nat) (c : UInt8), c ∈ decRev fuel n → c ≠ 47
  | 0, _, _, h => by simp [decRev] at h
  | fuel + 1, n, c, h => by
    unfold decRev at h
    rcases List.mem_cons.mp h with rfl | h
    · intro he
      have := congrArg UInt8.toNat he
      simp only [UInt8.toNat_ofNat'] at this
      have : (48 + n % 10) % 256 = 47 := this
      omega
    · split at h
      · simp at h
      · exact decRev_digits fuel (n / 10) c h

theorem dec_no_slash (n : Nat) : ¬ 47 ∈ dec n := by
  unfold dec
  intro h
  exact decRev_digits _ _ _ (List.mem_reverse.mp h) rfl

theorem candidate_plain (name ext : Bytes) (hext : ValidExt ext) (k : Nat) :
    PlainComp (candidate (safeName name) ext k) := by
  have hlen : 3 ≤ (candidate (safeName name) ext k).length := by
    cases k <;> simp [candidate] <;> have := hext.2 <;> omega
  refine ⟨?_, ?_, ?_, ?_⟩
  · cases k with
    | zero =>
      simp only [candidate, List.mem_append, not_or]
      exact ⟨safeName_no_slash name, hext.1⟩
    | succ k =>
      simp only [candidate, List.mem_append, not_or, List.mem_singleton]
      exact ⟨⟨⟨safeName_no_slash name, by decide⟩, dec_no_slash k⟩, hext.1⟩
  all_goals
    intro he
    rw [he] at hlen
    simp at hlen

end PdfVerif.PathLemmas
