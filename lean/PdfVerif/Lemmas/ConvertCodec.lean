/- C11 helper lemmas: the `utf-32` state machine (pending byte-order mark) and its decoder. -/
import PdfVerif.Lemmas.Convert
import PdfVerif.Model.ConvertCodec

namespace PdfVerif.Convert

/-- a codec whose `step` never fails can encode every piece, from every state -/
theorem encodePiece_total {σ : Type} (c : Codec σ) (htot : ∀ st ch, (c.step st ch).isSome) (ignore : Bool) :
    ∀ (s : Str) (st : σ), (c.encodePiece ignore st s).isSome := by
  intro s
  induction s with
  | nil => intro st; simp [Codec.encodePiece]
  | cons ch rest ih =>
    intro st
    obtain ⟨⟨st', bs⟩, h1⟩ := Option.isSome_iff_exists.mp (htot st ch)
    obtain ⟨⟨st'', bs'⟩, h2⟩ := Option.isSome_iff_exists.mp (ih st')
    simp [Codec.encodePiece, h1, h2]

theorem b8_toNat (n : Nat) : (b8 n).toNat = n % 256 := by
  simp [b8, UInt8.toNat_ofNat']

theorem char_lt (c : Char) : c.toNat < 1114112 := by
  have h := c.valid
  simp only [UInt32.isValidChar, Nat.isValidChar] at h
  simp only [Char.toNat]
  omega

theorem utf32_word (c : Char) (rest : Bytes) :
    utf32Body (b8 c.toNat :: b8 (c.toNat / 256) :: b8 (c.toNat / 65536) :: b8 (c.toNat / 16777216) :: rest) =
      match utf32Body rest with
      | some s => some (c :: s)
      | none => none := by
  have hlt := char_lt c
  have hn : (b8 c.toNat).toNat + 256 * (b8 (c.toNat / 256)).toNat + 65536 * (b8 (c.toNat / 65536)).toNat +
      16777216 * (b8 (c.toNat / 16777216)).toNat = c.toNat := by
    simp only [b8_toNat]; omega
  rw [utf32Body]
  simp only [hn, Char.ofNat_toNat, if_true]
  cases utf32Body rest <;> rfl

theorem utf32_started (s : Str) : ∀ st bs, utf32Codec.encodePiece false true s = some (st, bs) →
    utf32Body bs = some s := by
  induction s with
  | nil => intro st bs h; simp [Codec.encodePiece] at h; obtain ⟨-, h2⟩ := h; subst h2; simp [utf32Body]
  | cons ch rest ih =>
    intro st bs h
    simp only [Codec.encodePiece, utf32Codec, if_true, List.nil_append] at h
    split at h
    · rename_i st'' bs' h2
      simp only [Option.some.injEq, Prod.mk.injEq] at h
      have := ih st'' bs' h2
      rw [← h.2]
      simp only [List.cons_append, List.nil_append, utf32_word, this]
    · simp at h

/-- whole-stream encoding with `utf-32` (byte-order mark, then the code points) is inverted by `utf32Decode` -/
theorem utf32_inv (s : Str) : ∀ st bs, utf32Codec.encodePiece false utf32Codec.init s = some (st, bs) →
    utf32Decode bs = some s := by
  intro st bs h
  cases s with
  | nil => simp [Codec.encodePiece] at h; obtain ⟨-, h2⟩ := h; subst h2; simp [utf32Decode]
  | cons ch rest =>
    simp only [Codec.encodePiece, utf32Codec, Bool.false_eq_true, if_false] at h
    split at h
    · rename_i st'' bs' h2
      simp only [Option.some.injEq, Prod.mk.injEq] at h
      have := utf32_started rest st'' bs' h2
      rw [← h.2]
      simp only [List.cons_append, List.nil_append, utf32Decode, utf32_word, this]
    · simp at h

/-! ### `utf-16` (byte-order mark, little-endian code units, surrogate pairs) -/

theorem char_valid (c : Char) : c.toNat < 0xD800 ∨ (0xDFFF < c.toNat ∧ c.toNat < 0x110000) := by
  have h := c.valid
  simp only [UInt32.isValidChar, Nat.isValidChar] at h
  simp only [Char.toNat]
  omega

def le16 (u : Nat) : Bytes := [b8 u, b8 (u / 256)]

theorem utf16_word (c : Char) (rest : Bytes) :
    utf16Body ((utf16Units c.toNat).flatMap le16 ++ rest) =
      match utf16Body rest with
      | some s => some (c :: s)
      | none => none := by
  have hv := char_valid c
  by_cases h : c.toNat < 0x10000
  · have hu : (b8 c.toNat).toNat + 256 * (b8 (c.toNat / 256)).toNat = c.toNat := by
      simp only [b8_toNat]; omega
    have hcond : c.toNat < 0xD800 ∨ 0xE000 ≤ c.toNat := by omega
    simp only [utf16Units, h, if_true, List.flatMap_cons, List.flatMap_nil, le16, List.append_nil,
      List.cons_append, List.nil_append]
    rw [utf16Body.eq_def]
    simp only [hu, hcond, if_true, Char.ofNat_toNat]
    cases utf16Body rest <;> rfl
  · have hhi : (b8 (0xD800 + (c.toNat - 0x10000) / 1024)).toNat +
        256 * (b8 ((0xD800 + (c.toNat - 0x10000) / 1024) / 256)).toNat = 0xD800 + (c.toNat - 0x10000) / 1024 := by
      simp only [b8_toNat]; omega
    have hlo : (b8 (0xDC00 + (c.toNat - 0x10000) % 1024)).toNat +
        256 * (b8 ((0xDC00 + (c.toNat - 0x10000) % 1024) / 256)).toNat = 0xDC00 + (c.toNat - 0x10000) % 1024 := by
      simp only [b8_toNat]; omega
    have h1 : ¬ (0xD800 + (c.toNat - 0x10000) / 1024 < 0xD800 ∨ 0xE000 ≤ 0xD800 + (c.toNat - 0x10000) / 1024) := by
      omega
    have h2 : 0xD800 + (c.toNat - 0x10000) / 1024 < 0xDC00 := by omega
    have h3 : 0xDC00 ≤ 0xDC00 + (c.toNat - 0x10000) % 1024 ∧ 0xDC00 + (c.toNat - 0x10000) % 1024 < 0xE000 := by
      omega
    have h4 : 0x10000 + (0xD800 + (c.toNat - 0x10000) / 1024 - 0xD800) * 1024 +
        (0xDC00 + (c.toNat - 0x10000) % 1024 - 0xDC00) = c.toNat := by omega
    simp only [utf16Units, h, if_false, List.flatMap_cons, List.flatMap_nil, le16, List.append_nil,
      List.cons_append, List.nil_append]
    rw [utf16Body.eq_def]
    simp only [hhi, hlo, h1, h2, h3, h4, if_true, if_false, and_self, Char.ofNat_toNat]
    cases utf16Body rest <;> rfl

theorem utf16_step (st : Bool) (ch : Char) :
    (utf16Codec true false).step st ch =
      some (true, (if st then [] else [0xFF, 0xFE]) ++ (utf16Units ch.toNat).flatMap le16) := by
  simp only [utf16Codec, Bool.false_eq_true, if_false]
  rfl

theorem utf16_started (s : Str) : ∀ st bs, (utf16Codec true false).encodePiece false true s = some (st, bs) →
    utf16Body bs = some s := by
  induction s with
  | nil => intro st bs h; simp [Codec.encodePiece] at h; obtain ⟨-, h2⟩ := h; subst h2; simp [utf16Body]
  | cons ch rest ih =>
    intro st bs h
    simp only [Codec.encodePiece, utf16_step, if_true, List.nil_append] at h
    split at h
    · rename_i st'' bs' h2
      simp only [Option.some.injEq, Prod.mk.injEq] at h
      have := ih st'' bs' h2
      rw [← h.2]
      simp only [utf16_word, this]
    · simp at h

/-- whole-stream encoding with `utf-16` is inverted by `utf16Decode` -/
theorem utf16_inv (s : Str) : ∀ st bs,
    (utf16Codec true false).encodePiece false (utf16Codec true false).init s = some (st, bs) →
    utf16Decode bs = some s := by
  intro st bs h
  have hi : (utf16Codec true false).init = false := rfl
  rw [hi] at h
  cases s with
  | nil => simp [Codec.encodePiece] at h; obtain ⟨-, h2⟩ := h; subst h2; simp [utf16Decode]
  | cons ch rest =>
    simp only [Codec.encodePiece, utf16_step, Bool.false_eq_true, if_false] at h
    split at h
    · rename_i st'' bs' h2
      simp only [Option.some.injEq, Prod.mk.injEq] at h
      have := utf16_started rest st'' bs' h2
      rw [← h.2]
      simp only [List.cons_append, List.nil_append, utf16Decode, utf16_word, this]
    · simp at h

end PdfVerif.Convert
