/-
Lemmas about the stack-parser model: feeding the token serialisation of any object tree
rebuilds the tree (to any nesting depth).
-/
import PdfVerif.Model.StackParser

namespace PdfVerif.StackParser
open PdfVerif PdfVerif.Lexer

/-! ### token serialisation of an object tree -/

/-- An object as WRITTEN: like `SObj`, but an indirect reference still has its generation number
    (which `PDFObjRef` does not keep). -/
inductive PObj where
  | null
  | bool (b : Bool)
  | int (v : Int)
  | real (text : Bytes)
  | str (s : Bytes)
  | lit (name : Bytes)
  | kwd (name : Bytes)
  | arr (items : List PObj)
  | dict (entries : List (Bytes × PObj))
  | ref (objid gen : Int)
  deriving Repr, Inhabited

mutual
/-- The token sequence every conformant spelling of the tree lexes to (`n g R` for a reference). -/
def ser : PObj → List Token
  | .null => [.kwd kwNull]
  | .bool b => [.bool b]
  | .int v => [.int v]
  | .real t => [.real t]
  | .str s => [.str s]
  | .lit n => [.lit n]
  | .kwd n => [.kwd n]
  | .arr items => Token.kwd [91] :: (serList items ++ [Token.kwd [93]])
  | .dict es => Token.kwd [60, 60] :: (serEntries es ++ [Token.kwd [62, 62]])
  | .ref n g => [.int n, .int g, .kwd kwR]
def serList : List PObj → List Token
  | [] => []
  | o :: r => ser o ++ serList r
def serEntries : List (Bytes × PObj) → List Token
  | [] => []
  | (k, v) :: r => Token.lit k :: (ser v ++ serEntries r)
end

def isNullP : PObj → Bool
  | .null => true
  | _ => false

mutual
/-- The value read back: a dictionary entry whose value is null is absent (ISO 32000-1 7.3.7); a
    reference keeps its object number. -/
def norm : PObj → SObj
  | .arr items => .arr (normList items)
  | .dict es => .dict (normEntries es)
  | .null => .null
  | .bool b => .bool b
  | .int v => .int v
  | .real t => .real t
  | .str s => .str s
  | .lit n => .lit n
  | .kwd n => .kwd n
  | .ref n _ => .ref n
def normList : List PObj → List SObj
  | [] => []
  | o :: r => norm o :: normList r
def normEntries : List (Bytes × PObj) → List (Bytes × SObj)
  | [] => []
  | (k, v) :: r => if isNullP v then normEntries r else (k, norm v) :: normEntries r
end

def keysOf : List (Bytes × PObj) → List Bytes
  | [] => []
  | (k, _) :: r => k :: keysOf r

mutual
/-- Trees in the domain: no bare keywords, dictionary keys distinct and UTF-8. -/
def clean : PObj → Prop
  | .kwd _ => False
  | .arr items => cleanList items
  | .dict es => cleanEntries es ∧ (keysOf es).Nodup ∧ ∀ k ∈ keysOf es, utf8Valid k = true
  | _ => True
def cleanList : List PObj → Prop
  | [] => True
  | o :: r => clean o ∧ cleanList r
def cleanEntries : List (Bytes × PObj) → Prop
  | [] => True
  | (_, v) :: r => clean v ∧ cleanEntries r
end

/-- the operand stack holding the entries of a dictionary being read -/
def pairsOf : List (Bytes × PObj) → List SObj
  | [] => []
  | (k, v) :: r => .lit k :: norm v :: pairsOf r

/-- inside an open array / dictionary, no error so far -/
def Inside (st : PState) : Prop := st.error = none ∧ st.context ≠ []

theorem feedAll_append (st : PState) (a b : List Token) : feedAll st (a ++ b) = feedAll (feedAll st a) b := by
  simp [feedAll, List.foldl_append]

theorem feedAll_cons (st : PState) (t : Token) (r : List Token) : feedAll st (t :: r) = feedAll (feed st t) r := rfl

theorem feedAll_nil (st : PState) : feedAll st [] = st := rfl

theorem inside_push (st : PState) (o : SObj) (h : Inside st) : Inside (push st o) := by
  simpa [Inside, push] using h

theorem isEmpty_false_of_ne {α} {l : List α} (h : l ≠ []) : l.isEmpty = false := by
  cases l with
  | nil => exact absurd rfl h
  | cons _ _ => rfl

theorem feed_int (st : PState) (v : Int) (h : Inside st) : feed st (.int v) = push st (.int v) := by
  simp [feed, h.1, push, isEmpty_false_of_ne h.2]
theorem feed_real (st : PState) (t : Bytes) (h : Inside st) : feed st (.real t) = push st (.real t) := by
  simp [feed, h.1, push, isEmpty_false_of_ne h.2]
theorem feed_bool (st : PState) (b : Bool) (h : Inside st) : feed st (.bool b) = push st (.bool b) := by
  simp [feed, h.1, push, isEmpty_false_of_ne h.2]
theorem feed_str (st : PState) (s : Bytes) (h : Inside st) : feed st (.str s) = push st (.str s) := by
  simp [feed, h.1, push, isEmpty_false_of_ne h.2]
theorem feed_lit (st : PState) (n : Bytes) (h : Inside st) : feed st (.lit n) = push st (.lit n) := by
  simp [feed, h.1, push, isEmpty_false_of_ne h.2]

theorem feed_null (st : PState) (h : Inside st) : feed st (.kwd kwNull) = push st .null := by
  have e1 : (kwNull == [91]) = false := by decide
  have e2 : (kwNull == [93]) = false := by decide
  have e3 : (kwNull == [60, 60]) = false := by decide
  have e4 : (kwNull == [62, 62]) = false := by decide
  have e5 : (kwNull == [123]) = false := by decide
  have e6 : (kwNull == [125]) = false := by decide
  have e7 : (kwNull == kwR) = false := by decide
  simp [feed, h.1, e1, e2, e3, e4, e5, e6, doKeyword, e7, push, isEmpty_false_of_ne h.2]

theorem feed_ref (st : PState) (n g : Int) (h : Inside st) :
    feedAll st [.int n, .int g, .kwd kwR] = push st (.ref n) := by
  have h1 := inside_push st (.int n) h
  have h2 := inside_push (push st (.int n)) (.int g) h1
  simp only [feedAll_cons, feedAll_nil, feed_int st n h, feed_int _ g h1]
  have e1 : (kwR == [91]) = false := by decide
  have e2 : (kwR == [93]) = false := by decide
  have e3 : (kwR == [60, 60]) = false := by decide
  have e4 : (kwR == [62, 62]) = false := by decide
  have e5 : (kwR == [123]) = false := by decide
  have e6 : (kwR == [125]) = false := by decide
  have hlen : (st.curstack ++ [SObj.int n] ++ [SObj.int g]).length - 2 = st.curstack.length := by simp
  have hd : (st.curstack ++ [SObj.int n] ++ [SObj.int g]).drop st.curstack.length = [SObj.int n, SObj.int g] := by
    rw [List.append_assoc, List.drop_left]; rfl
  have ht : (st.curstack ++ [SObj.int n] ++ [SObj.int g]).take st.curstack.length = st.curstack := by
    rw [List.append_assoc, List.take_left]
  simp only [feed, h2.1, push, Option.isSome_none, Bool.false_eq_true, if_false, e1, e2, e3, e4, e5, e6, doKeyword,
    beq_self_eq_true, if_true, hlen, hd, ht]
  have h3 : ¬ (st.curstack.length + 2 < 2) := by omega
  have hc : st.context ≠ [] := h.2
  simp [h3, h.1, hc]

theorem feed_open (st : PState) (h : Inside st ∨ (st.error = none ∧ st.context = [])) (name : Bytes) (t : Ctx)
    (hn : (name = [91] ∧ t = .a) ∨ (name = [60, 60] ∧ t = .d)) :
    feed st (.kwd name) = startType st t ∧ Inside (startType st t) := by
  have herr : st.error = none := by rcases h with h | h <;> exact h.1
  refine ⟨?_, by simp [Inside, startType, herr]⟩
  rcases hn with ⟨rfl, rfl⟩ | ⟨rfl, rfl⟩
  · simp [feed, herr, startType]
  · have e1 : (([60, 60] : Bytes) == [91]) = false := by decide
    have e2 : (([60, 60] : Bytes) == [93]) = false := by decide
    simp [feed, herr, startType, e1, e2]

/-- what the end of one loop iteration does with a completed object `o` -/
def closed (st : PState) (o : SObj) : PState :=
  if st.context.isEmpty then { st with results := st.results ++ (st.curstack ++ [o]), curstack := [] }
  else push st o

theorem closed_inside (st : PState) (o : SObj) (h : Inside st) : closed st o = push st o := by
  simp [closed, isEmpty_false_of_ne h.2]

theorem isNullS_norm (v : PObj) : isNullS (norm v) = isNullP v := by
  cases v <;> simp [norm, isNullS, isNullP]

theorem dictSet_fresh (k : Bytes) (v : SObj) : ∀ (acc : List (Bytes × SObj)), k ∉ acc.map (·.1) →
    dictSet k v acc = acc ++ [(k, v)]
  | [], _ => rfl
  | (k', v') :: r, h => by
    have hne : (k' == k) = false := by
      simp only [List.map_cons, List.mem_cons, not_or] at h
      simpa using fun e => h.1 e.symm
    simp only [dictSet, hne, Bool.false_eq_true, if_false, List.cons_append]
    rw [dictSet_fresh k v r (by simp only [List.map_cons, List.mem_cons, not_or] at h; exact h.2)]

theorem keys_normEntries (es : List (Bytes × PObj)) : ∀ k ∈ (normEntries es).map (·.1), k ∈ keysOf es := by
  induction es with
  | nil => simp [normEntries]
  | cons e r ih =>
    obtain ⟨k0, v0⟩ := e
    intro k hk
    simp only [normEntries] at hk
    split at hk
    · simp [keysOf, ih k hk]
    · simp only [List.map_cons, List.mem_cons] at hk
      rcases hk with rfl | hk
      · simp [keysOf]
      · simp [keysOf, ih k hk]

theorem buildDict_pairs : ∀ (es : List (Bytes × PObj)) (acc : List (Bytes × SObj)),
    (keysOf es).Nodup → (∀ k ∈ keysOf es, utf8Valid k = true) → (∀ k ∈ keysOf es, k ∉ acc.map (·.1)) →
    buildDict (pairsOf es) acc = some (acc ++ normEntries es)
  | [], acc, _, _, _ => by simp [pairsOf, buildDict, normEntries]
  | (k, v) :: r, acc, hnd, hu, hf => by
    simp only [keysOf, List.nodup_cons] at hnd
    have hk : utf8Valid k = true := hu k (by simp [keysOf])
    have hfr : k ∉ acc.map (·.1) := hf k (by simp [keysOf])
    simp only [pairsOf, buildDict, hk, if_true, isNullS_norm, normEntries]
    by_cases hn : isNullP v = true
    · simp only [hn, if_true]
      exact buildDict_pairs r acc hnd.2 (fun k' h' => hu k' (by simp [keysOf, h'])) (fun k' h' => hf k' (by simp [keysOf, h']))
    · simp only [hn, Bool.false_eq_true, if_false]
      rw [dictSet_fresh k (norm v) acc hfr]
      rw [buildDict_pairs r (acc ++ [(k, norm v)]) hnd.2 (fun k' h' => hu k' (by simp [keysOf, h']))]
      · simp
      · intro k' h'
        simp only [List.map_append, List.map_cons, List.map_nil, List.mem_append, List.mem_singleton, not_or]
        exact ⟨hf k' (by simp [keysOf, h']), fun e => hnd.1 (e ▸ h')⟩

theorem pairsOf_even (es : List (Bytes × PObj)) : (pairsOf es).length % 2 = 0 := by
  induction es with
  | nil => rfl
  | cons e r ih => obtain ⟨k, v⟩ := e; simp only [pairsOf, List.length_cons]; omega

theorem feed_close_arr (st : PState) (objs : List SObj) (herr : st.error = none) :
    feed { startType st .a with curstack := objs } (.kwd [93]) = closed st (.arr objs) := by
  have e1 : (([93] : Bytes) == [91]) = false := by decide
  simp only [feed, startType, herr, Option.isSome_none, Bool.false_eq_true, if_false, e1, beq_self_eq_true, if_true,
    endType, bne_self_eq_false, push, closed]

theorem feed_close_dict (st : PState) (es : List (Bytes × PObj)) (herr : st.error = none)
    (hnd : (keysOf es).Nodup) (hu : ∀ k ∈ keysOf es, utf8Valid k = true) :
    feed { startType st .d with curstack := pairsOf es } (.kwd [62, 62]) = closed st (.dict (normEntries es)) := by
  have e1 : (([62, 62] : Bytes) == [91]) = false := by decide
  have e2 : (([62, 62] : Bytes) == [93]) = false := by decide
  have e3 : (([62, 62] : Bytes) == [60, 60]) = false := by decide
  have hb := buildDict_pairs es [] hnd hu (by simp)
  have hev := pairsOf_even es
  simp only [List.nil_append] at hb
  simp only [feed, startType, herr, Option.isSome_none, Bool.false_eq_true, if_false, e1, e2, e3, beq_self_eq_true,
    if_true, endType, bne_self_eq_false, push, closed, hev, hb]

theorem inside_curstack (st : PState) (cs : List SObj) (h : Inside st) : Inside { st with curstack := cs } := by
  simpa [Inside] using h

mutual
/-- Inside an open container, the tokens of any clean tree push exactly its value. -/
theorem feed_ser : ∀ (v : PObj) (st : PState), Inside st → clean v → feedAll st (ser v) = push st (norm v)
  | .null, st, h, _ => by simp [ser, feedAll_cons, feedAll_nil, feed_null st h, norm]
  | .bool b, st, h, _ => by simp [ser, feedAll_cons, feedAll_nil, feed_bool st b h, norm]
  | .int v, st, h, _ => by simp [ser, feedAll_cons, feedAll_nil, feed_int st v h, norm]
  | .real t, st, h, _ => by simp [ser, feedAll_cons, feedAll_nil, feed_real st t h, norm]
  | .str s, st, h, _ => by simp [ser, feedAll_cons, feedAll_nil, feed_str st s h, norm]
  | .lit n, st, h, _ => by simp [ser, feedAll_cons, feedAll_nil, feed_lit st n h, norm]
  | .kwd _, _, _, hc => by simp [clean] at hc
  | .ref n g, st, h, _ => by simp only [ser, norm]; exact feed_ref st n g h
  | .arr items, st, h, hc => by
    have ho := feed_open st (Or.inl h) [91] .a (Or.inl ⟨rfl, rfl⟩)
    simp only [clean] at hc
    simp only [ser, feedAll_cons, ho.1, feedAll_append]
    rw [feed_serList items (startType st .a) ho.2 hc]
    simp only [feedAll_cons, feedAll_nil]
    have e : ({ startType st .a with curstack := (startType st .a).curstack ++ normList items } : PState)
        = { startType st .a with curstack := normList items } := by simp [startType]
    rw [e, feed_close_arr st (normList items) h.1, closed_inside st _ h, norm]
  | .dict es, st, h, hc => by
    have ho := feed_open st (Or.inl h) [60, 60] .d (Or.inr ⟨rfl, rfl⟩)
    simp only [clean] at hc
    simp only [ser, feedAll_cons, ho.1, feedAll_append]
    rw [feed_serEntries es (startType st .d) ho.2 hc.1]
    simp only [feedAll_cons, feedAll_nil]
    have e : ({ startType st .d with curstack := (startType st .d).curstack ++ pairsOf es } : PState)
        = { startType st .d with curstack := pairsOf es } := by simp [startType]
    rw [e, feed_close_dict st es h.1 hc.2.1 hc.2.2, closed_inside st _ h, norm]
theorem feed_serList : ∀ (vs : List PObj) (st : PState), Inside st → cleanList vs →
    feedAll st (serList vs) = { st with curstack := st.curstack ++ normList vs }
  | [], st, _, _ => by simp [serList, feedAll_nil, normList]
  | o :: r, st, h, hc => by
    simp only [cleanList] at hc
    simp only [serList, feedAll_append]
    rw [feed_ser o st h hc.1, feed_serList r (push st (norm o)) (inside_push st _ h) hc.2]
    simp [push, normList]
theorem feed_serEntries : ∀ (es : List (Bytes × PObj)) (st : PState), Inside st → cleanEntries es →
    feedAll st (serEntries es) = { st with curstack := st.curstack ++ pairsOf es }
  | [], st, _, _ => by simp [serEntries, feedAll_nil, pairsOf]
  | (k, v) :: r, st, h, hc => by
    simp only [cleanEntries] at hc
    simp only [serEntries, feedAll_cons, feedAll_append, feed_lit st k h]
    have h1 := inside_push st (.lit k) h
    rw [feed_ser v (push st (.lit k)) h1 hc.1,
        feed_serEntries r (push (push st (.lit k)) (norm v)) (inside_push _ _ h1) hc.2]
    simp [push, pairsOf]
end

end PdfVerif.StackParser
