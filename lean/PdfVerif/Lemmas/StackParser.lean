/-
Lemmas about the stack-parser model: feeding the token serialisation of any object tree
rebuilds the tree (to any nesting depth).
-/
import PdfVerif.Model.StackParser

namespace PdfVerif.StackParser
open PdfVerif PdfVerif.Lexer

/-! ### token serialisation of an object tree -/

/-- An object as WRITTEN: like `SObj`, but an indirect reference still has its generation number
    (which `PDFObjRef` does not keep). -/
inductive PObj where
  | null
  | bool (b : Bool)
  | int (v : Int)
  | real (text : Bytes)
  | str (s : Bytes)
  | lit (name : Bytes)
  | kwd (name : Bytes)
  | arr (items : List PObj)
  | dict (entries : List (Bytes × PObj))
  | ref (objid gen : Int)
  deriving Repr, Inhabited

mutual
/-- The token sequence every conformant spelling of the tree lexes to (`n g R` for a reference). -/
def ser : PObj → List Token
  | .null => [.kwd kwNull]
  | .bool b => [.bool b]
  | .int v => [.int v]
  | .real t => [.real t]
  | .str s => [.str s]
  | .lit n => [.lit n]
  | .kwd n => [.kwd n]
  | .arr items => Token.kwd [91] :: (serList items ++ [Token.kwd [93]])
  | .dict es => Token.kwd [60, 60] :: (serEntries es ++ [Token.kwd [62, 62]])
  | .ref n g => [.int n, .int g, .kwd kwR]
def serList : List PObj → List Token
  | [] => []
  | o :: r => ser o ++ serList r
def serEntries : List (Bytes × PObj) → List Token
  | [] => []
  | (k, v) :: r => Token.lit k :: (ser v ++ serEntries r)
end

def isNullP : PObj → Bool
  | .null => true
  | _ => false

mutual
/-- The value read back: a dictionary entry whose value is null is absent (ISO 32000-1 7.3.7); a
    reference keeps its object number. -/
def norm : PObj → SObj
  | .arr items => .arr (normList items)
  | .dict es => .dict (normEntries es)
  | .null => .null
  | .bool b => .bool b
  | .int v => .int v
  | .real t => .real t
  | .str s => .str s
  | .lit n => .lit n
  | .kwd n => .kwd n
  | .ref n _ => .ref n
def normList : List PObj → List SObj
  | [] => []
  | o :: r => norm o :: normList r
def normEntries : List (Bytes × PObj) → List (Bytes × SObj)
  | [] => []
  | (k, v) :: r => if isNullP v then normEntries r else (k, norm v) :: normEntries r
end

def keysOf : List (Bytes × PObj) → List Bytes
  | [] => []
  | (k, _) :: r => k :: keysOf r

mutual
/-- Trees in the domain: no bare keywords, dictionary keys distinct and UTF-8. -/
def clean : PObj → Prop
  | .kwd _ => False
  | .arr items => cleanList items
  | .dict es => cleanEntries es ∧ (keysOf es).Nodup ∧ ∀ k ∈ keysOf es, utf8Valid k = true
  | _ => True
def cleanList : List PObj → Prop
  | [] => True
  | o :: r => clean o ∧ cleanList r
def cleanEntries : List (Bytes × PObj) → Prop
  | [] => True
  | (_, v) :: r => clean v ∧ cleanEntries r
end

/-- the operand stack holding the entries of a dictionary being read -/
def pairsOf : List (Bytes × PObj) → List SObj
  | [] => []
  | (k, v) :: r => .lit k :: norm v :: pairsOf r

/-- no error so far, and the end of a loop iteration will not flush: a container is open, or the
    dialect never flushes -/
def Quiet (D : Dialect) (st : PState) : Prop := st.error = none ∧ (D.flushes = true → st.context ≠ [])

/-- what the theorems need from a dialect's `do_keyword` -/
structure GoodDialect (D : Dialect) : Prop where
  null : ∀ st, D.doKeyword st kwNull = push st .null
  ref : ∀ (st : PState) (cs : List SObj) (n g : Int), st.curstack = cs ++ [.int n, .int g] →
    D.doKeyword st kwR = push { st with curstack := cs } (.ref n)

theorem ref_drop_take (cs : List SObj) (n g : Int) :
    (cs ++ [SObj.int n, SObj.int g]).length - 2 = cs.length ∧
    (cs ++ [SObj.int n, SObj.int g]).drop cs.length = [SObj.int n, SObj.int g] ∧
    (cs ++ [SObj.int n, SObj.int g]).take cs.length = cs := by
  refine ⟨by simp, by rw [List.drop_left], by rw [List.take_left]⟩

theorem good_stream : GoodDialect streamDialect := by
  constructor
  · intro st
    have e7 : (kwNull == kwR) = false := by decide
    simp [streamDialect, doKeyword, e7]
  · intro st cs n g h
    obtain ⟨h1, h2, h3⟩ := ref_drop_take cs n g
    simp [streamDialect, doKeyword, h, h2, h3, push]
    intro hlt; omega

theorem good_obj : GoodDialect objDialect := by
  constructor
  · intro st
    have e1 : (kwNull == kwXref) = false := by decide
    have e2 : (kwNull == kwStartxref) = false := by decide
    have e3 : (kwNull == kwEndobj) = false := by decide
    simp [objDialect, doKeywordP, e1, e2, e3]
  · intro st cs n g h
    obtain ⟨h1, h2, h3⟩ := ref_drop_take cs n g
    have e1 : (kwR == kwXref) = false := by decide
    have e2 : (kwR == kwStartxref) = false := by decide
    have e3 : (kwR == kwEndobj) = false := by decide
    have e4 : (kwR == kwNull) = false := by decide
    simp [objDialect, doKeywordP, e1, e2, e3, e4, h, h2, h3, push]
    intro hlt; omega

theorem feedAllWith_append (D : Dialect) (st : PState) (a b : List Token) :
    feedAllWith D st (a ++ b) = feedAllWith D (feedAllWith D st a) b := by
  simp [feedAllWith, List.foldl_append]

theorem feedAllWith_cons (D : Dialect) (st : PState) (t : Token) (r : List Token) :
    feedAllWith D st (t :: r) = feedAllWith D (feedWith D st t) r := rfl

theorem feedAllWith_nil (D : Dialect) (st : PState) : feedAllWith D st [] = st := rfl

theorem quiet_push {D : Dialect} (st : PState) (o : SObj) (h : Quiet D st) : Quiet D (push st o) := by
  simpa [Quiet, push] using h

theorem isEmpty_false_of_ne {α} {l : List α} (h : l ≠ []) : l.isEmpty = false := by
  cases l with
  | nil => exact absurd rfl h
  | cons _ _ => rfl

/-- under `Quiet` the flush test at the end of an iteration fails -/
theorem quiet_noflush {D : Dialect} {st : PState} (h : Quiet D st) : (st.context.isEmpty && D.flushes) = false := by
  cases hf : D.flushes with
  | false => simp
  | true => simp [isEmpty_false_of_ne (h.2 hf)]

theorem feed_int {D : Dialect} (st : PState) (v : Int) (h : Quiet D st) : feedWith D st (.int v) = push st (.int v) := by
  have := quiet_noflush h
  simp_all [feedWith, h.1, push]
theorem feed_real {D : Dialect} (st : PState) (t : Bytes) (h : Quiet D st) : feedWith D st (.real t) = push st (.real t) := by
  have := quiet_noflush h
  simp_all [feedWith, h.1, push]
theorem feed_bool {D : Dialect} (st : PState) (b : Bool) (h : Quiet D st) : feedWith D st (.bool b) = push st (.bool b) := by
  have := quiet_noflush h
  simp_all [feedWith, h.1, push]
theorem feed_str {D : Dialect} (st : PState) (s : Bytes) (h : Quiet D st) : feedWith D st (.str s) = push st (.str s) := by
  have := quiet_noflush h
  simp_all [feedWith, h.1, push]
theorem feed_lit {D : Dialect} (st : PState) (n : Bytes) (h : Quiet D st) : feedWith D st (.lit n) = push st (.lit n) := by
  have := quiet_noflush h
  simp_all [feedWith, h.1, push]

theorem feed_null {D : Dialect} (hD : GoodDialect D) (st : PState) (h : Quiet D st) :
    feedWith D st (.kwd kwNull) = push st .null := by
  have e1 : (kwNull == [91]) = false := by decide
  have e2 : (kwNull == [93]) = false := by decide
  have e3 : (kwNull == [60, 60]) = false := by decide
  have e4 : (kwNull == [62, 62]) = false := by decide
  have e5 : (kwNull == [123]) = false := by decide
  have e6 : (kwNull == [125]) = false := by decide
  have hq := quiet_noflush h
  have hq' : ((push st SObj.null).context.isEmpty && D.flushes) = false := by simpa [push] using hq
  simp [feedWith, h.1, e1, e2, e3, e4, e5, e6, hD.null, hq']

theorem feed_ref {D : Dialect} (hD : GoodDialect D) (st : PState) (n g : Int) (h : Quiet D st) :
    feedAllWith D st [.int n, .int g, .kwd kwR] = push st (.ref n) := by
  have h1 := quiet_push st (.int n) h
  have h2 := quiet_push (push st (.int n)) (.int g) h1
  simp only [feedAllWith_cons, feedAllWith_nil, feed_int st n h, feed_int _ g h1]
  have e1 : (kwR == [91]) = false := by decide
  have e2 : (kwR == [93]) = false := by decide
  have e3 : (kwR == [60, 60]) = false := by decide
  have e4 : (kwR == [62, 62]) = false := by decide
  have e5 : (kwR == [123]) = false := by decide
  have e6 : (kwR == [125]) = false := by decide
  have hcs : (push (push st (.int n)) (.int g)).curstack = st.curstack ++ [.int n, .int g] := by simp [push]
  have hk := hD.ref _ _ n g hcs
  have hq := quiet_noflush h
  simp only [feedWith, h2.1, Option.isSome_none, Bool.false_eq_true, if_false, e1, e2, e3, e4, e5, e6, hk]
  simp [push, h.1, hq]

theorem feed_open {D : Dialect} (st : PState) (herr : st.error = none) (name : Bytes) (t : Ctx)
    (hn : (name = [91] ∧ t = .a) ∨ (name = [60, 60] ∧ t = .d)) :
    feedWith D st (.kwd name) = startType st t ∧ Quiet D (startType st t) := by
  refine ⟨?_, by simp [Quiet, startType, herr]⟩
  rcases hn with ⟨rfl, rfl⟩ | ⟨rfl, rfl⟩
  · simp [feedWith, herr, startType]
  · have e1 : (([60, 60] : Bytes) == [91]) = false := by decide
    have e2 : (([60, 60] : Bytes) == [93]) = false := by decide
    simp [feedWith, herr, startType, e1, e2]

/-- what the end of one loop iteration does with a completed object `o` -/
def closed (D : Dialect) (st : PState) (o : SObj) : PState :=
  if st.context.isEmpty && D.flushes then flushHold (push st o)
  else push st o

theorem closed_quiet {D : Dialect} (st : PState) (o : SObj) (h : Quiet D st) : closed D st o = push st o := by
  simp [closed, quiet_noflush h]

theorem isNullS_norm (v : PObj) : isNullS (norm v) = isNullP v := by
  cases v <;> simp [norm, isNullS, isNullP]

theorem dictSet_fresh (k : Bytes) (v : SObj) : ∀ (acc : List (Bytes × SObj)), k ∉ acc.map (·.1) →
    dictSet k v acc = acc ++ [(k, v)]
  | [], _ => rfl
  | (k', v') :: r, h => by
    have hne : (k' == k) = false := by
      simp only [List.map_cons, List.mem_cons, not_or] at h
      simpa using fun e => h.1 e.symm
    simp only [dictSet, hne, Bool.false_eq_true, if_false, List.cons_append]
    rw [dictSet_fresh k v r (by simp only [List.map_cons, List.mem_cons, not_or] at h; exact h.2)]

theorem buildDict_pairs : ∀ (es : List (Bytes × PObj)) (acc : List (Bytes × SObj)),
    (keysOf es).Nodup → (∀ k ∈ keysOf es, utf8Valid k = true) → (∀ k ∈ keysOf es, k ∉ acc.map (·.1)) →
    buildDict (pairsOf es) acc = some (acc ++ normEntries es)
  | [], acc, _, _, _ => by simp [pairsOf, buildDict, normEntries]
  | (k, v) :: r, acc, hnd, hu, hf => by
    simp only [keysOf, List.nodup_cons] at hnd
    have hk : utf8Valid k = true := hu k (by simp [keysOf])
    have hfr : k ∉ acc.map (·.1) := hf k (by simp [keysOf])
    simp only [pairsOf, buildDict, hk, if_true, isNullS_norm, normEntries]
    by_cases hn : isNullP v = true
    · simp only [hn, if_true]
      exact buildDict_pairs r acc hnd.2 (fun k' h' => hu k' (by simp [keysOf, h'])) (fun k' h' => hf k' (by simp [keysOf, h']))
    · simp only [hn, Bool.false_eq_true, if_false]
      rw [dictSet_fresh k (norm v) acc hfr]
      rw [buildDict_pairs r (acc ++ [(k, norm v)]) hnd.2 (fun k' h' => hu k' (by simp [keysOf, h']))]
      · simp
      · intro k' h'
        simp only [List.map_append, List.map_cons, List.map_nil, List.mem_append, List.mem_singleton, not_or]
        exact ⟨hf k' (by simp [keysOf, h']), fun e => hnd.1 (e ▸ h')⟩

theorem pairsOf_even (es : List (Bytes × PObj)) : (pairsOf es).length % 2 = 0 := by
  induction es with
  | nil => rfl
  | cons e r ih => obtain ⟨k, v⟩ := e; simp only [pairsOf, List.length_cons]; omega

theorem feed_close_arr {D : Dialect} (st : PState) (objs : List SObj) (herr : st.error = none) :
    feedWith D { startType st .a with curstack := objs } (.kwd [93]) = closed D st (.arr objs) := by
  have e1 : (([93] : Bytes) == [91]) = false := by decide
  simp only [feedWith, startType, herr, Option.isSome_none, Bool.false_eq_true, if_false, e1, beq_self_eq_true, if_true,
    endType, bne_self_eq_false, push, closed]

theorem feed_close_dict {D : Dialect} (st : PState) (es : List (Bytes × PObj)) (herr : st.error = none)
    (hnd : (keysOf es).Nodup) (hu : ∀ k ∈ keysOf es, utf8Valid k = true) :
    feedWith D { startType st .d with curstack := pairsOf es } (.kwd [62, 62]) = closed D st (.dict (normEntries es)) := by
  have e1 : (([62, 62] : Bytes) == [91]) = false := by decide
  have e2 : (([62, 62] : Bytes) == [93]) = false := by decide
  have e3 : (([62, 62] : Bytes) == [60, 60]) = false := by decide
  have hb := buildDict_pairs es [] hnd hu (by simp)
  have hev := pairsOf_even es
  simp only [List.nil_append] at hb
  simp only [feedWith, startType, herr, Option.isSome_none, Bool.false_eq_true, if_false, e1, e2, e3, beq_self_eq_true,
    if_true, endType, bne_self_eq_false, push, closed, hev, hb]

mutual
/-- While no flush can happen, the tokens of any clean tree push exactly its value. -/
theorem feed_ser {D : Dialect} (hD : GoodDialect D) : ∀ (v : PObj) (st : PState), Quiet D st → clean v →
    feedAllWith D st (ser v) = push st (norm v)
  | .null, st, h, _ => by simp [ser, feedAllWith_cons, feedAllWith_nil, feed_null hD st h, norm]
  | .bool b, st, h, _ => by simp [ser, feedAllWith_cons, feedAllWith_nil, feed_bool st b h, norm]
  | .int v, st, h, _ => by simp [ser, feedAllWith_cons, feedAllWith_nil, feed_int st v h, norm]
  | .real t, st, h, _ => by simp [ser, feedAllWith_cons, feedAllWith_nil, feed_real st t h, norm]
  | .str s, st, h, _ => by simp [ser, feedAllWith_cons, feedAllWith_nil, feed_str st s h, norm]
  | .lit n, st, h, _ => by simp [ser, feedAllWith_cons, feedAllWith_nil, feed_lit st n h, norm]
  | .kwd _, _, _, hc => by simp [clean] at hc
  | .ref n g, st, h, _ => by simp only [ser, norm]; exact feed_ref hD st n g h
  | .arr items, st, h, hc => by
    have ho := feed_open (D := D) st h.1 [91] .a (Or.inl ⟨rfl, rfl⟩)
    simp only [clean] at hc
    simp only [ser, feedAllWith_cons, ho.1, feedAllWith_append]
    rw [feed_serList hD items (startType st .a) ho.2 hc]
    simp only [feedAllWith_cons, feedAllWith_nil]
    have e : ({ startType st .a with curstack := (startType st .a).curstack ++ normList items } : PState)
        = { startType st .a with curstack := normList items } := by simp [startType]
    rw [e, feed_close_arr st (normList items) h.1, closed_quiet st _ h, norm]
  | .dict es, st, h, hc => by
    have ho := feed_open (D := D) st h.1 [60, 60] .d (Or.inr ⟨rfl, rfl⟩)
    simp only [clean] at hc
    simp only [ser, feedAllWith_cons, ho.1, feedAllWith_append]
    rw [feed_serEntries hD es (startType st .d) ho.2 hc.1]
    simp only [feedAllWith_cons, feedAllWith_nil]
    have e : ({ startType st .d with curstack := (startType st .d).curstack ++ pairsOf es } : PState)
        = { startType st .d with curstack := pairsOf es } := by simp [startType]
    rw [e, feed_close_dict st es h.1 hc.2.1 hc.2.2, closed_quiet st _ h, norm]
theorem feed_serList {D : Dialect} (hD : GoodDialect D) : ∀ (vs : List PObj) (st : PState), Quiet D st → cleanList vs →
    feedAllWith D st (serList vs) = { st with curstack := st.curstack ++ normList vs }
  | [], st, _, _ => by simp [serList, feedAllWith_nil, normList]
  | o :: r, st, h, hc => by
    simp only [cleanList] at hc
    simp only [serList, feedAllWith_append]
    rw [feed_ser hD o st h hc.1, feed_serList hD r (push st (norm o)) (quiet_push st _ h) hc.2]
    simp [push, normList]
theorem feed_serEntries {D : Dialect} (hD : GoodDialect D) : ∀ (es : List (Bytes × PObj)) (st : PState), Quiet D st →
    cleanEntries es → feedAllWith D st (serEntries es) = { st with curstack := st.curstack ++ pairsOf es }
  | [], st, _, _ => by simp [serEntries, feedAllWith_nil, pairsOf]
  | (k, v) :: r, st, h, hc => by
    simp only [cleanEntries] at hc
    simp only [serEntries, feedAllWith_cons, feedAllWith_append, feed_lit st k h]
    have h1 := quiet_push st (.lit k) h
    rw [feed_ser hD v (push st (.lit k)) h1 hc.1,
        feed_serEntries hD r (push (push st (.lit k)) (norm v)) (quiet_push _ _ h1) hc.2]
    simp [push, pairsOf]
end

/-! ### PDFParser.nextobject as used by `getobj` -/

theorem doKeywordP_results (st : PState) (name : Bytes) :
    ∃ extra, (doKeywordP st name).results = st.results ++ extra := by
  unfold doKeywordP
  split
  · exact ⟨_, rfl⟩
  split
  · exact ⟨_, rfl⟩
  split
  · exact ⟨[], by simp [push]⟩
  split
  · simp only []
    split
    · exact ⟨[], by simp⟩
    · split <;> exact ⟨[], by simp [push]⟩
  split
  · exact ⟨[], by simp⟩
  · exact ⟨[], by simp [push]⟩

theorem endType_results (st : PState) (t : Ctx) (objs : List SObj) (st' : PState)
    (h : endType st t = some (objs, st')) : st'.results = st.results := by
  unfold endType at h
  split at h
  · simp at h
  · split at h
    · simp at h
    · simp only [Option.some.injEq, Prod.mk.injEq] at h
      rw [← h.2]

/-- the tail of one loop iteration never removes results (objDialect: it never flushes) -/
theorem feedWith_obj_results (st : PState) (t : Token) :
    ∃ extra, (feedWith objDialect st t).results = st.results ++ extra := by
  have tail : ∀ (st1 : PState), (∃ extra, st1.results = st.results ++ extra) →
      ∃ extra, (if st1.error.isSome = true then st1
        else if (st1.context.isEmpty && objDialect.flushes) = true then
          flushHold st1 else st1).results = st.results ++ extra := by
    intro st1 h
    simp only [objDialect, Bool.and_false, Bool.false_eq_true, if_false]
    split <;> exact h
  unfold feedWith
  split
  · exact ⟨[], by simp⟩
  · apply tail
    cases t with
    | int v => exact ⟨[], by simp [push]⟩
    | real v => exact ⟨[], by simp [push]⟩
    | bool v => exact ⟨[], by simp [push]⟩
    | str v => exact ⟨[], by simp [push]⟩
    | lit v => exact ⟨[], by simp [push]⟩
    | err k => exact ⟨[], by simp⟩
    | kwd name =>
      simp only
      split
      · exact ⟨[], by simp [startType]⟩
      split
      · split
        · rename_i h1; exact ⟨[], by simp [push, endType_results _ _ _ _ h1]⟩
        · exact ⟨[], by simp⟩
      split
      · exact ⟨[], by simp [startType]⟩
      split
      · split
        · rename_i h1
          have hr := endType_results _ _ _ _ h1
          split
          · exact ⟨[], by simp [hr]⟩
          · split
            · exact ⟨[], by simp [push, hr]⟩
            · exact ⟨[], by simp [hr]⟩
        · exact ⟨[], by simp⟩
      split
      · exact ⟨[], by simp [startType]⟩
      split
      · split
        · rename_i h1; exact ⟨[], by simp [push, endType_results _ _ _ _ h1]⟩
        · exact ⟨[], by simp⟩
      · exact doKeywordP_results st name

theorem feedWith_obj_mono (st : PState) (t : Token) :
    ((feedWith objDialect st t).results = [] → st.results = []) ∧
    ((feedWith objDialect st t).error = none → st.error = none) := by
  constructor
  · intro h
    obtain ⟨extra, he⟩ := feedWith_obj_results st t
    rw [he] at h
    exact (List.append_eq_nil_iff.mp h).1
  · intro h
    by_cases he : st.error.isSome = true
    · simp only [feedWith, he, if_true] at h
      rw [h] at he; simp at he
    · simpa using he

theorem feedAllWith_obj_mono : ∀ (a : List Token) (st : PState),
    (feedAllWith objDialect st a).results = [] → (feedAllWith objDialect st a).error = none →
    st.results = [] ∧ st.error = none
  | [], st, h1, h2 => ⟨h1, h2⟩
  | t :: r, st, h1, h2 => by
    have ih := feedAllWith_obj_mono r (feedWith objDialect st t) h1 h2
    have hm := feedWith_obj_mono st t
    exact ⟨hm.1 ih.1, hm.2 ih.2⟩

theorem nextobjectP_prefix : ∀ (a b : List Token) (st : PState),
    (feedAllWith objDialect st a).results = [] → (feedAllWith objDialect st a).error = none →
    nextobjectP st (a ++ b) = nextobjectP (feedAllWith objDialect st a) b
  | [], b, st, _, _ => rfl
  | t :: r, b, st, h1, h2 => by
    have hst := feedAllWith_obj_mono (t :: r) st h1 h2
    have ih := nextobjectP_prefix r b (feedWith objDialect st t) h1 h2
    simp only [List.cons_append, nextobjectP, hst.1, hst.2, Option.isSome_none, List.isEmpty_nil, Bool.not_true,
      Bool.or_self, Bool.false_eq_true, if_false]
    exact ih

theorem nextobjectP_done (st : PState) (toks : List Token) (h : st.results ≠ []) : nextobjectP st toks = some st := by
  have : st.results.isEmpty = false := isEmpty_false_of_ne h
  cases toks <;> simp [nextobjectP, this]

/-! ### several top-level objects in a row (PDFStreamParser): state carried from one `nextobject` to the next -/

/-- Between two tokens at top level: no error, no open container, and everything read so far is
    `results ++ curstack` in order (the operand stack holds only what `flush` held back). -/
def Top (L : List SObj) (st : PState) : Prop :=
  st.error = none ∧ st.context = [] ∧ st.results ++ st.curstack = L

theorem flushHold_inv (st : PState) :
    (flushHold st).results ++ (flushHold st).curstack = st.results ++ st.curstack ∧
    (flushHold st).error = st.error ∧ (flushHold st).context = st.context := by
  simp [flushHold, List.append_assoc]

theorem heldCount_snoc_int (xs : List SObj) (a : Int) : 1 ≤ heldCount (xs ++ [.int a]) ∧ heldCount (xs ++ [.int a]) ≤ 2 := by
  unfold heldCount
  simp only [List.reverse_append, List.reverse_cons, List.reverse_nil, List.nil_append, List.cons_append]
  split <;> simp_all

theorem heldCount_snoc_int2 (xs : List SObj) (a b : Int) : heldCount (xs ++ [.int a, .int b]) = 2 := by
  unfold heldCount
  simp

theorem heldCount_snoc_other (xs : List SObj) (o : SObj) (h : ∀ v, o ≠ .int v) : heldCount (xs ++ [o]) = 0 := by
  unfold heldCount
  simp only [List.reverse_append, List.reverse_cons, List.reverse_nil, List.nil_append, List.cons_append]
  split
  · rename_i heq; simp at heq; exact absurd heq.1 (h _)
  · rename_i heq; simp at heq; exact absurd heq.1 (h _)
  · rfl

/-- the end of a loop iteration at top level, for any object pushed -/
theorem top_push (L : List SObj) (st : PState) (o : SObj) (h : Top L st) :
    Top (L ++ [o]) (flushHold (push st o)) := by
  obtain ⟨he, hc, hl⟩ := h
  have hi := flushHold_inv (push st o)
  refine ⟨by rw [hi.2.1]; simpa [push] using he, by rw [hi.2.2]; simpa [push] using hc, ?_⟩
  rw [hi.1]; simp [push, ← hl, List.append_assoc]

theorem top_feed_push (L : List SObj) (st : PState) (tok : Token) (o : SObj) (h : Top L st)
    (hf : feedWith streamDialect st tok = flushHold (push st o)) : Top (L ++ [o]) (feedWith streamDialect st tok) := by
  rw [hf]; exact top_push L st o h

theorem top_scalar (L : List SObj) (st : PState) (h : Top L st) :
    (∀ v, Top (L ++ [.int v]) (feedWith streamDialect st (.int v))) ∧
    (∀ t, Top (L ++ [.real t]) (feedWith streamDialect st (.real t))) ∧
    (∀ b, Top (L ++ [.bool b]) (feedWith streamDialect st (.bool b))) ∧
    (∀ x, Top (L ++ [.str x]) (feedWith streamDialect st (.str x))) ∧
    (∀ n, Top (L ++ [.lit n]) (feedWith streamDialect st (.lit n))) ∧
    Top (L ++ [.null]) (feedWith streamDialect st (.kwd kwNull)) := by
  have he := h.1
  have hc := h.2.1
  refine ⟨fun v => ?_, fun t => ?_, fun b => ?_, fun x => ?_, fun n => ?_, ?_⟩
  · exact top_feed_push L st _ _ h (by simp [feedWith, he, push, hc, streamDialect])
  · exact top_feed_push L st _ _ h (by simp [feedWith, he, push, hc, streamDialect])
  · exact top_feed_push L st _ _ h (by simp [feedWith, he, push, hc, streamDialect])
  · exact top_feed_push L st _ _ h (by simp [feedWith, he, push, hc, streamDialect])
  · exact top_feed_push L st _ _ h (by simp [feedWith, he, push, hc, streamDialect])
  · have e1 : (kwNull == [91]) = false := by decide
    have e2 : (kwNull == [93]) = false := by decide
    have e3 : (kwNull == [60, 60]) = false := by decide
    have e4 : (kwNull == [62, 62]) = false := by decide
    have e5 : (kwNull == [123]) = false := by decide
    have e6 : (kwNull == [125]) = false := by decide
    have hn : doKeyword st kwNull = push st .null := good_stream.null st
    exact top_feed_push L st _ _ h (by simp [feedWith, he, e1, e2, e3, e4, e5, e6, hn, push, hc, streamDialect])

/-- `n g R` at top level: the two integers are still on the operand stack when `R` arrives -/
theorem top_ref (L : List SObj) (st : PState) (n g : Int) (h : Top L st) :
    Top (L ++ [.ref n]) (feedAllWith streamDialect st [.int n, .int g, .kwd kwR]) := by
  have h1 := (top_scalar L st h).1 n
  have f1 : feedWith streamDialect st (.int n) = flushHold (push st (.int n)) := by
    simp [feedWith, h.1, push, h.2.1, streamDialect]
  -- after the first integer the stack ends with it
  obtain ⟨c1, hc1⟩ : ∃ c1, (flushHold (push st (.int n))).curstack = c1 ++ [.int n] := by
    have hh := heldCount_snoc_int st.curstack n
    simp only [flushHold, push]
    generalize heldCount (st.curstack ++ [SObj.int n]) = k at hh
    have hk : k = 1 ∨ k = 2 := by omega
    rcases hk with rfl | rfl
    · exact ⟨[], by simp⟩
    · refine ⟨st.curstack.drop (st.curstack.length + 1 - 2), ?_⟩
      simp only [List.length_append, List.length_cons, List.length_nil]
      rw [List.drop_append_of_le_length (by omega)]
  obtain ⟨s1, hs1⟩ : ∃ s1, s1 = feedWith streamDialect st (.int n) := ⟨_, rfl⟩
  rw [← hs1] at h1
  have hs1c : s1.curstack = c1 ++ [.int n] := by rw [hs1, f1]; exact hc1
  have h2 := (top_scalar (L ++ [.int n]) s1 h1).1 g
  have f2 : feedWith streamDialect s1 (.int g) = flushHold (push s1 (.int g)) := by
    simp [feedWith, h1.1, push, h1.2.1, streamDialect]
  have hc2 : (flushHold (push s1 (.int g))).curstack = [.int n, .int g] := by
    have e : (push s1 (.int g)).curstack = c1 ++ [.int n, .int g] := by simp [push, hs1c]
    simp only [flushHold, e, heldCount_snoc_int2]
    simp
  obtain ⟨s2, hs2⟩ : ∃ s2, s2 = feedWith streamDialect s1 (.int g) := ⟨_, rfl⟩
  rw [← hs2] at h2
  have hs2c : s2.curstack = [] ++ [.int n, .int g] := by rw [hs2, f2]; simpa using hc2
  have hk := good_stream.ref s2 [] n g hs2c
  have e1 : (kwR == [91]) = false := by decide
  have e2 : (kwR == [93]) = false := by decide
  have e3 : (kwR == [60, 60]) = false := by decide
  have e4 : (kwR == [62, 62]) = false := by decide
  have e5 : (kwR == [123]) = false := by decide
  have e6 : (kwR == [125]) = false := by decide
  have f3 : feedWith streamDialect s2 (.kwd kwR) = flushHold (push { s2 with curstack := [] } (.ref n)) := by
    simp only [streamDialect] at hk
    simp [feedWith, h2.1, e1, e2, e3, e4, e5, e6, hk, push, h2.2.1, streamDialect]
  have hres : s2.results = L := by
    have := h2.2.2
    rw [hs2c] at this
    simp only [List.nil_append] at this
    have e : L ++ [SObj.int n] ++ [SObj.int g] = L ++ [SObj.int n, SObj.int g] := by simp
    rw [e] at this
    exact List.append_cancel_right this
  simp only [feedAllWith_cons, feedAllWith_nil]
  rw [← hs1, ← hs2, f3]
  exact top_push L { s2 with curstack := [] } (.ref n) ⟨h2.1, h2.2.1, by simp [hres]⟩

/-- One more top-level object of a stream: whatever is held back, the objects stay in order. -/
theorem top_ser (L : List SObj) (st : PState) (v : PObj) (hc : clean v) (h : Top L st) :
    Top (L ++ [norm v]) (feedAllWith streamDialect st (ser v)) := by
  have hs := top_scalar L st h
  cases v with
  | null => simpa [ser, feedAllWith_cons, feedAllWith_nil, norm] using hs.2.2.2.2.2
  | bool b => simpa [ser, feedAllWith_cons, feedAllWith_nil, norm] using hs.2.2.1 b
  | int i => simpa [ser, feedAllWith_cons, feedAllWith_nil, norm] using hs.1 i
  | real t => simpa [ser, feedAllWith_cons, feedAllWith_nil, norm] using hs.2.1 t
  | str x => simpa [ser, feedAllWith_cons, feedAllWith_nil, norm] using hs.2.2.2.1 x
  | lit n => simpa [ser, feedAllWith_cons, feedAllWith_nil, norm] using hs.2.2.2.2.1 n
  | kwd n => simp [clean] at hc
  | ref n g => simpa [ser, norm] using top_ref L st n g h
  | arr items =>
    have ho := feed_open (D := streamDialect) st h.1 [91] .a (Or.inl ⟨rfl, rfl⟩)
    simp only [clean] at hc
    simp only [ser, feedAllWith_cons, ho.1, feedAllWith_append]
    rw [feed_serList good_stream items (startType st .a) ho.2 hc]
    simp only [feedAllWith_cons, feedAllWith_nil]
    have e : ({ startType st .a with curstack := (startType st .a).curstack ++ normList items } : PState)
        = { startType st .a with curstack := normList items } := by simp [startType]
    rw [e, feed_close_arr st (normList items) h.1, norm]
    have : closed streamDialect st (.arr (normList items)) = flushHold (push st (.arr (normList items))) := by
      simp [closed, h.2.1, streamDialect]
    rw [this]; exact top_push L st _ h
  | dict es =>
    have ho := feed_open (D := streamDialect) st h.1 [60, 60] .d (Or.inr ⟨rfl, rfl⟩)
    simp only [clean] at hc
    simp only [ser, feedAllWith_cons, ho.1, feedAllWith_append]
    rw [feed_serEntries good_stream es (startType st .d) ho.2 hc.1]
    simp only [feedAllWith_cons, feedAllWith_nil]
    have e : ({ startType st .d with curstack := (startType st .d).curstack ++ pairsOf es } : PState)
        = { startType st .d with curstack := pairsOf es } := by simp [startType]
    rw [e, feed_close_dict st es h.1 hc.2.1 hc.2.2, norm]
    have : closed streamDialect st (.dict (normEntries es)) = flushHold (push st (.dict (normEntries es))) := by
      simp [closed, h.2.1, streamDialect]
    rw [this]; exact top_push L st _ h

theorem top_serList : ∀ (vs : List PObj) (L : List SObj) (st : PState), cleanList vs → Top L st →
    Top (L ++ normList vs) (feedAllWith streamDialect st (serList vs))
  | [], L, st, _, h => by simpa [serList, feedAllWith_nil, normList] using h
  | v :: r, L, st, hc, h => by
    simp only [cleanList] at hc
    simp only [serList, feedAllWith_append]
    have h1 := top_ser L st v hc.1 h
    have h2 := top_serList r (L ++ [norm v]) _ hc.2 h1
    simpa [normList, List.append_assoc] using h2

theorem finish_top (L : List SObj) (st : PState) (h : Top L st) : (finish st).results = L ∧ (finish st).error = none := by
  obtain ⟨he, hc, hl⟩ := h
  simp [finish, he, hc, hl]

end PdfVerif.StackParser
