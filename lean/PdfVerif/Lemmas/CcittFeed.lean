/-
C19 helper lemmas, part 2: a flat (bit list) view of `feedbytes`, and what happens when the bits
of one code word are fed to the parser.
-/
import PdfVerif.Lemmas.CcittTables

namespace PdfVerif.Ccitt
open PdfVerif.Gen PdfVerif.Spec

/-- `feedbytes` seen on the flat bit sequence: `pos` = number of bits consumed so far (so that
`pos % 8` is the place in the current byte), `skip` = bits still to be discarded after a
`ByteSkip`. -/
def feedFlat (st : St) : Nat → Nat → List Bool → Except Err St
  | _, _, [] => .ok st
  | pos, skip + 1, _ :: bs => feedFlat st (pos + 1) skip bs
  | pos, 0, b :: bs =>
    match stepBit st b with
    | .error e => .error e
    | .ok (st', .cont) => feedFlat st' (pos + 1) 0 bs
    | .ok (st', .byteSkip) => feedFlat st' (pos + 1) (7 - pos % 8) bs
    | .ok (st', .eofb) => .ok st'

theorem feedFlat_skip : ∀ (bs : List Bool) (st : St) (pos : Nat) (rest : List Bool),
    feedFlat st pos bs.length (bs ++ rest) = feedFlat st (pos + bs.length) 0 rest := by
  intro bs
  induction bs with
  | nil => intro st pos rest; simp
  | cons b bs ih =>
    intro st pos rest
    simp only [List.length_cons, List.cons_append, feedFlat]
    rw [ih]
    congr 1
    omega

theorem feedFlat_skip_all : ∀ (bs : List Bool) (st : St) (pos k : Nat), bs.length ≤ k →
    feedFlat st pos k bs = .ok st := by
  intro bs
  induction bs with
  | nil => intro st pos k _; cases k <;> rfl
  | cons b bs ih =>
    intro st pos k h
    cases k with
    | zero => simp at h
    | succ k => simp only [feedFlat]; apply ih; simp at h; omega

/-- What the rest of `feedFlat` does with the result of an `_accept` call made at the bit before
position `pos`. -/
def afterAccept (r : Except Err (St × Sig)) (pos : Nat) (rest : List Bool) : Except Err St :=
  match r with
  | .error e => .error e
  | .ok (st', .cont) => feedFlat st' pos 0 rest
  | .ok (st', .byteSkip) => feedFlat st' pos (7 - (pos - 1) % 8) rest
  | .ok (st', .eofb) => .ok st'

theorem feedBits_flat : ∀ (bs : List Bool) (st : St) (pos : Nat) (rest : List Bool),
    (pos + bs.length) % 8 = 0 → bs.length + pos % 8 ≤ 8 →
    feedFlat st pos 0 (bs ++ rest) =
      match feedBits st bs with
      | .error e => .error e
      | .ok (st', .eofb) => .ok st'
      | .ok (st', _) => feedFlat st' (pos + bs.length) 0 rest := by
  intro bs
  induction bs with
  | nil => intro st pos rest _ _; simp [feedBits]
  | cons b bs ih =>
    intro st pos rest h1 h2
    simp only [List.length_cons] at h1 h2
    simp only [List.cons_append, feedFlat, feedBits]
    cases hs : stepBit st b with
    | error e => simp
    | ok r =>
      obtain ⟨st', sg⟩ := r
      cases sg with
      | cont =>
        simp only []
        rw [ih st' (pos + 1) rest (by omega) (by omega)]
        simp only [List.length_cons]
        have : pos + 1 + bs.length = pos + (bs.length + 1) := by omega
        rw [this]
      | byteSkip =>
        simp only []
        have hk : 7 - pos % 8 = bs.length := by omega
        rw [hk, feedFlat_skip]
        simp only [List.length_cons]
        have : pos + 1 + bs.length = pos + (bs.length + 1) := by omega
        rw [this]
      | eofb => simp

theorem bitsOfByte_length (b : UInt8) : (bitsOfByte b).length = 8 := by simp [bitsOfByte, CcittCode.feedMasks]

/-- The byte loop of `feedbytes` is the flat semantics on the concatenated bits. -/
theorem feedBytes_flat : ∀ (bytes : List UInt8) (st : St) (pos : Nat), pos % 8 = 0 →
    feedBytes st bytes = feedFlat st pos 0 (bytes.flatMap bitsOfByte) := by
  intro bytes
  induction bytes with
  | nil => intro st pos _; simp [feedBytes, feedFlat]
  | cons b bs ih =>
    intro st pos hp
    simp only [List.flatMap_cons, feedBytes]
    rw [feedBits_flat (bitsOfByte b) st pos _ (by rw [bitsOfByte_length]; omega)
      (by rw [bitsOfByte_length]; omega)]
    cases hf : feedBits st (bitsOfByte b) with
    | error e => simp
    | ok r =>
      obtain ⟨st', sg⟩ := r
      cases sg <;> simp only [] <;> first | rfl | (apply ih; rw [bitsOfByte_length]; omega)

/-! ### feeding one code word -/

theorem follow_cons_node {t t' : Trie} {b : Bool} {bs : List Bool}
    (h : Trie.follow t (b :: bs) = some t') :
    ∃ l r, t = .node l r ∧ Trie.follow (if b then r else l) bs = some t' := by
  cases t with
  | empty => simp [Trie.follow] at h
  | leaf s => simp [Trie.follow] at h
  | node l r => exact ⟨l, r, rfl, by simpa [Trie.follow] using h⟩

/-- Bits that lead from the current node to an inner node are consumed silently. -/
theorem feed_follow_node : ∀ (code : List Bool) (st : St) (pos : Nat) (rest : List Bool) (a c : Trie),
    Trie.follow st.node code = some (.node a c) →
    feedFlat st pos 0 (code ++ rest) = feedFlat { st with node := .node a c } (pos + code.length) 0 rest := by
  intro code
  induction code with
  | nil =>
    intro st pos rest a c h
    simp only [Trie.follow, Option.some.injEq] at h
    simp only [List.nil_append, List.length_nil, Nat.add_zero]
    rw [← h]
  | cons b bs ih =>
    intro st pos rest a c h
    obtain ⟨l, r, hn, hf⟩ := follow_cons_node h
    simp only [List.cons_append, feedFlat, stepBit, hn]
    cases hc : (if b then r else l) with
    | empty =>
      rw [hc] at hf
      cases bs <;> simp [Trie.follow] at hf
    | leaf s =>
      rw [hc] at hf
      cases bs <;> simp [Trie.follow] at hf
    | node a' c' =>
      simp only []
      rw [hc] at hf
      rw [ih { st with node := .node a' c' } (pos + 1) rest a c hf]
      simp only [List.length_cons]
      have : pos + 1 + bs.length = pos + (bs.length + 1) := by omega
      rw [this]

/-- Bits that lead from the current (inner) node to a leaf end in a call of `_accept`. -/
theorem feed_follow_leaf : ∀ (code : List Bool) (st : St) (pos : Nat) (rest : List Bool) (s : Sym),
    code ≠ [] → Trie.follow st.node code = some (.leaf s) →
    feedFlat st pos 0 (code ++ rest) =
      afterAccept (accept { st with node := .empty } (some s)) (pos + code.length) rest := by
  intro code
  induction code with
  | nil => intro st pos rest s h; exact absurd rfl h
  | cons b bs ih =>
    intro st pos rest s _ h
    obtain ⟨l, r, hn, hf⟩ := follow_cons_node h
    simp only [List.cons_append, feedFlat, stepBit, hn]
    cases hc : (if b then r else l) with
    | empty =>
      rw [hc] at hf
      cases bs <;> simp [Trie.follow] at hf
    | leaf s' =>
      rw [hc] at hf
      cases bs with
      | cons b' bs' => simp [Trie.follow] at hf
      | nil =>
        simp only [Trie.follow, Option.some.injEq, Trie.leaf.injEq] at hf
        subst hf
        simp only [List.length_cons, List.length_nil, afterAccept]
        cases accept { st with node := .empty } (some s') with
        | error e => rfl
        | ok r =>
          obtain ⟨st', sg⟩ := r
          cases sg <;> simp
    | node a' c' =>
      simp only []
      rw [hc] at hf
      have hne : bs ≠ [] := by
        intro hb; subst hb; simp [Trie.follow] at hf
      rw [ih { st with node := .node a' c' } (pos + 1) rest s hne hf]
      simp only [List.length_cons]
      have : pos + 1 + bs.length = pos + (bs.length + 1) := by omega
      rw [this]

end PdfVerif.Ccitt
