/-
C19 helper lemmas, part 1: facts about the regenerated code tables and the tries built from them,
all by kernel evaluation (`decide +kernel`), and the generic "follow a code word" function.
-/
import PdfVerif.Model.Ccitt
import PdfVerif.Spec.T6

namespace PdfVerif.Ccitt
open PdfVerif.Gen PdfVerif.Spec

/-- Descend from a trie node along a bit string through inner nodes only. -/
def Trie.follow : Trie → List Bool → Option Trie
  | t, [] => some t
  | .node l r, b :: bs => Trie.follow (if b then r else l) bs
  | _, _ :: _ => none

def isPrefix : List Bool → List Bool → Bool
  | [], _ => true
  | _ :: _, [] => false
  | a :: as, b :: bs => a == b && isPrefix as bs

/-- No code word is a prefix of (or equal to) another one. -/
def prefixFree : List (List Bool) → Bool
  | [] => true
  | c :: cs => cs.all (fun d => !isPrefix c d && !isPrefix d c) && prefixFree cs

/-- All (value, path) pairs stored in a trie. -/
def Trie.leaves : Trie → List (Sym × List Bool)
  | .empty => []
  | .leaf s => [(s, [])]
  | .node l r => (Trie.leaves l).map (fun e => (e.1, false :: e.2)) ++ (Trie.leaves r).map (fun e => (e.1, true :: e.2))

def sameEntries (a b : List (Sym × List Bool)) : Bool :=
  a.all (fun e => b.contains e) && b.all (fun e => a.contains e)

def modeTbl : List (Sym × List Bool) := CcittTables.MODE.map fun e => (Sym.mode e.1, e.2)
def whiteTbl : List (Sym × List Bool) := CcittTables.WHITE.map fun e => (Sym.run e.1, e.2)
def blackTbl : List (Sym × List Bool) := CcittTables.BLACK.map fun e => (Sym.run e.1, e.2)
def uncTbl : List (Sym × List Bool) := CcittTables.UNCOMPRESSED.map fun e => (Sym.unc e.1, e.2)

theorem mode_prefixFree : prefixFree (modeTbl.map (·.2)) = true := by decide +kernel
theorem white_prefixFree : prefixFree (whiteTbl.map (·.2)) = true := by decide +kernel
theorem black_prefixFree : prefixFree (blackTbl.map (·.2)) = true := by decide +kernel
theorem unc_prefixFree : prefixFree (uncTbl.map (·.2)) = true := by decide +kernel

theorem mode_build : buildTrie modeTbl = some modeTrie := by decide +kernel
theorem white_build : buildTrie whiteTbl = some whiteTrie := by decide +kernel
theorem black_build : buildTrie blackTbl = some blackTrie := by decide +kernel
theorem unc_build : buildTrie uncTbl = some uncTrie := by decide +kernel

theorem mode_leaves : sameEntries modeTrie.leaves modeTbl = true := by decide +kernel
theorem white_leaves : sameEntries whiteTrie.leaves whiteTbl = true := by decide +kernel
theorem black_leaves : sameEntries blackTrie.leaves blackTbl = true := by decide +kernel
theorem unc_leaves : sameEntries uncTrie.leaves uncTbl = true := by decide +kernel

/-- Two run-length tables list the same (length, code) pairs. -/
def sameRuns (a b : List (Nat × List Bool)) : Bool :=
  a.all (fun e => b.contains e) && b.all (fun e => a.contains e)

/-- The T.6 mode codes of the specification, as table entries. -/
def modeSpec : List (Mode × List Bool) :=
  [(.p, T6.codeP), (.h, T6.codeH), (.e, T6.codeEOFB), (.v 0, T6.codeV 0), (.v 1, T6.codeV 1),
   (.v (-1), T6.codeV (-1)), (.v 2, T6.codeV 2), (.v (-2), T6.codeV (-2)), (.v 3, T6.codeV 3),
   (.v (-3), T6.codeV (-3))]

theorem white_is_T4 : sameRuns CcittTables.WHITE T6.white = true := by decide +kernel
theorem black_is_T4 : sameRuns CcittTables.BLACK T6.black = true := by decide +kernel
theorem mode_is_T6 : modeSpec.all (fun e => CcittTables.MODE.contains e) = true := by decide +kernel

/-- The code word of the extension `x<n>` in pdfminer's regenerated MODE table (`[]` if there is none). -/
def extCode (n : Nat) : List Bool := (CcittTables.MODE.lookup (.x n)).getD []

end PdfVerif.Ccitt
