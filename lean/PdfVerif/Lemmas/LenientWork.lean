/-
Helper lemmas for C13 (round 6): total-work statements (number of cross-reference sections loaded).
-/
import PdfVerif.Lemmas.Lenient

namespace PdfVerif.Lenient
open PdfVerif

/-- `next` adds exactly the positions it loads to the visited set. -/
def XCount (next : Int → List Int → Except Err (List Int × List Int)) : Prop :=
  ∀ pos visited l v', next pos visited = .ok (l, v') → l.length + visited.length = v'.length

theorem followRef_count (strict : Bool) (g : Graph) (next : Int → List Int → Except Err (List Int × List Int))
    (hnext : XCount next) (v : Option Obj) (visited : List Int) (l v' : List Int)
    (h : followRef strict g next v visited = .ok (l, v')) : l.length + visited.length = v'.length := by
  unfold followRef at h
  cases v with
  | none =>
    simp only [Except.ok.injEq, Prod.mk.injEq] at h
    obtain ⟨rfl, rfl⟩ := h
    simp
  | some o =>
    simp only at h
    cases hi : intValue strict g o with
    | error e => rw [hi] at h; cases h
    | ok i => rw [hi] at h; exact hnext _ _ _ _ h

/-- Every section loaded is recorded in the visited set, once. -/
theorem readXrefFuel_count (strict : Bool) (g : Graph) (t : XrefTable) : ∀ f, XCount (readXrefFuel strict g t f) := by
  intro f
  induction f with
  | zero => intro pos visited l v' h; simp [readXrefFuel] at h
  | succ f ih =>
    intro pos visited l v' h
    simp only [readXrefFuel] at h
    split at h
    · simp only [Except.ok.injEq, Prod.mk.injEq] at h
      obtain ⟨rfl, rfl⟩ := h
      simp
    · split at h
      · cases h
      · split at h
        · cases h
        · rename_i sec hsec
          split at h
          · cases h
          · rename_i l1 v1 h1
            split at h
            · cases h
            · rename_i l2 v2 h2
              simp only [Except.ok.injEq, Prod.mk.injEq] at h
              obtain ⟨rfl, rfl⟩ := h
              have c1 := followRef_count strict g _ ih _ _ _ _ h1
              have c2 := followRef_count strict g _ ih _ _ _ _ h2
              simp only [List.length_cons, List.length_append] at c1 ⊢
              omega

end PdfVerif.Lenient
