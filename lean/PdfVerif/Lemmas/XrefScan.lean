/-
C02 — fuel sufficiency of the table and body-scan loops, and the body-scan theorem
(`PDFXRefFallback.load`): headers at line starts ⇒ the offsets found are the true offsets.
-/
import PdfVerif.Lemmas.XrefTable

namespace PdfVerif.Xref

open PdfVerif.Gen.Xref

/-! ### Fuel -/

theorem takeLine_bounds {r l : Bytes} {k : Nat} (h : takeLine r = some (l, k)) : 1 ≤ k ∧ k ≤ r.length := by
  induction r generalizing l k with
  | nil => simp [takeLine] at h
  | cons b rest ih =>
    simp only [takeLine] at h
    split at h
    · simp only [Option.some.injEq, Prod.mk.injEq] at h
      simp [← h.2]
    · split at h
      · cases rest with
        | nil => simp at h
        | cons c t =>
          simp only at h
          split at h <;> (simp only [Option.some.injEq, Prod.mk.injEq] at h; simp [← h.2])
      · cases hr : takeLine rest with
        | none => rw [hr] at h; simp at h
        | some lk =>
          obtain ⟨l', k'⟩ := lk
          rw [hr] at h
          simp only [Option.some.injEq, Prod.mk.injEq] at h
          have := ih hr
          simp only [List.length_cons, ← h.2]
          omega

theorem tableEntries_sound {cnt : Nat} {objid : Int} {rest : Bytes} {pos : Nat} {offs : List (Int × Entry)} :
    (∀ o r p, tableEntries cnt objid rest pos offs = .ok (o, r, p) → r.length ≤ rest.length) ∧
    tableEntries cnt objid rest pos offs ≠ .error .recursion := by
  induction cnt generalizing objid rest pos offs with
  | zero =>
    constructor
    · intro o r p h
      simp only [tableEntries, Except.ok.injEq, Prod.mk.injEq] at h
      rw [← h.2.1]; exact Nat.le_refl _
    · simp [tableEntries]
  | succ cnt ih =>
    simp only [tableEntries]
    cases htl : takeLine rest with
    | none => exact ⟨by intro o r p h; simp at h, by simp⟩
    | some lk =>
      obtain ⟨line, k⟩ := lk
      have hb := takeLine_bounds htl
      simp only
      split
      · exact ⟨by intro o r p h; simp at h, by simp⟩
      · split
        · rename_i p g u _
          constructor
          · intro o r pp h
            have := (ih (objid := objid + 1) (rest := rest.drop k) (pos := pos + k)).1 o r pp h
            simp only [List.length_drop] at this
            omega
          · exact (ih (objid := objid + 1) (rest := rest.drop k) (pos := pos + k)).2
        · exact ⟨by intro o r p h; simp at h, by simp⟩

/-- The fuel handed to `tableLoop` by `tableLoad` (`length + 1`) is never exhausted: every
iteration consumes at least one byte.  (`PDFXRef.load` terminates, in at most one iteration per byte.) -/
theorem tableLoop_fuel (fuel : Nat) (rest : Bytes) (pos : Nat) (offs : List (Int × Entry))
    (h : rest.length < fuel) : tableLoop fuel rest pos offs ≠ .error .recursion := by
  induction fuel generalizing rest pos offs with
  | zero => omega
  | succ fuel ih =>
    simp only [tableLoop, subCount_eq, subsectionFirst_eq]
    cases htl : takeLine rest with
    | none => simp
    | some lk =>
      obtain ⟨line, k⟩ := lk
      have hb := takeLine_bounds htl
      have hdrop : (rest.drop k).length < fuel := by simp only [List.length_drop]; omega
      simp only
      split
      · exact ih _ _ _ hdrop
      · split
        · simp
        · split
          · simp
          · split
            · rename_i a b _
              split
              · rename_i start nobjs _ _
                have hs := tableEntries_sound (cnt := nobjs.toNat) (objid := start) (rest := rest.drop k)
                  (pos := pos + k) (offs := offs)
                cases hte : tableEntries nobjs.toNat start (rest.drop k) (pos + k) offs with
                | error e =>
                  simp only
                  intro hc
                  apply hs.2
                  have he : e = .recursion := by injection hc
                  rw [hte, he]
                | ok v =>
                  obtain ⟨o, r, p⟩ := v
                  simp only
                  apply ih
                  have := hs.1 o r p hte
                  omega
              · simp
            · simp

theorem tableLoad_fuel (data : Bytes) (afterKw : Nat) : tableLoad data afterKw ≠ .error .recursion := by
  unfold tableLoad
  cases htl : takeLine (data.drop afterKw) with
  | none => simp [htl]
  | some lk =>
    obtain ⟨l, k⟩ := lk
    have hb := takeLine_bounds htl
    simp only [htl]
    apply tableLoop_fuel
    simp only [List.length_drop] at hb ⊢
    omega

/-- More fuel does not change the body scan once the fuel exceeds the bytes left: the fuel
`length + 1` of `fallbackLoad` is never the reason the scan stops. -/
theorem fallbackLoop_fuel (data : Bytes) (ends : List (Nat × Nat × Val)) (fuel pos : Nat)
    (offs : List (Int × Entry)) (h : data.length < pos + fuel) :
    fallbackLoop data ends (fuel + 1) pos offs = fallbackLoop data ends fuel pos offs := by
  induction fuel generalizing pos offs with
  | zero =>
    have : data.drop pos = [] := List.drop_eq_nil_of_le (by omega)
    simp [fallbackLoop, this, takeLine]
  | succ fuel ih =>
    rw [fallbackLoop, fallbackLoop]
    cases htl : takeLine (data.drop pos) with
    | none => rfl
    | some lk =>
      obtain ⟨line, k⟩ := lk
      have hb := takeLine_bounds htl
      simp only
      split
      · rfl
      · split
        · exact ih _ _ (by omega)
        · split
          · rfl
          · rename_i endpos v _
            split
            · rfl
            · exact ih _ _ (by omega)

/-! ### The body scan -/

theorem fallbackLoop_items (ends : List (Nat × Nat × Val)) (items : List Item) (pre tail : Bytes) (fuel : Nat)
    (offs : List (Int × Entry)) (hfuel : items.length < fuel)
    (hok : ItemsOK ends pre.length items tail)
    (htail : ∃ l k, takeLine tail = some (l, k) ∧ startsWith l kwTrailer = true) :
    fallbackLoop (pre ++ (itemsBytes items ++ tail)) ends fuel pre.length offs =
      .ok (scanSpec pre.length items offs, some (pre.length + (itemsBytes items).length)) := by
  induction items generalizing pre fuel offs with
  | nil =>
    obtain ⟨fuel', rfl⟩ : ∃ f, fuel = f + 1 := ⟨fuel - 1, by simp at hfuel; omega⟩
    obtain ⟨l, k, h1, h2⟩ := htail
    have hd : (pre ++ (itemsBytes [] ++ tail)).drop pre.length = tail := by
      simpa [itemsBytes] using drop_len_append' pre tail pre.length rfl
    simp [fallbackLoop, hd, h1, h2, scanSpec, itemsBytes]
  | cons i r ih =>
    obtain ⟨fuel', rfl⟩ : ∃ f, fuel = f + 1 := ⟨fuel - 1, by simp at hfuel; omega⟩
    have hfuel' : r.length < fuel' := by simp at hfuel; omega
    cases i with
    | line l =>
      obtain ⟨htl, hsw, hcue, hrest⟩ := hok
      have hd : (pre ++ (itemsBytes (.line l :: r) ++ tail)).drop pre.length = l ++ (itemsBytes r ++ tail) := by
        simpa [itemsBytes, Item.bytes] using drop_len_append' pre (l ++ (itemsBytes r ++ tail)) pre.length rfl
      have hdata : pre ++ (itemsBytes (.line l :: r) ++ tail) = (pre ++ l) ++ (itemsBytes r ++ tail) := by
        simp [itemsBytes, Item.bytes]
      have hlen : (pre ++ l).length = pre.length + l.length := by simp
      rw [fallbackLoop]
      simp only [hd, htl, hsw, hcue, Bool.false_eq_true, ↓reduceIte]
      rw [hdata, ← hlen, ih (pre ++ l) fuel' offs hfuel' (by rw [hlen]; exact hrest)]
      simp only [scanSpec, itemsBytes, Item.bytes, List.length_append]
      congr 3
      omega
    | obj n g text =>
      obtain ⟨⟨l, k, htl, hsw, hcue⟩, hne, ⟨v, hends, hv⟩, hrest⟩ := hok
      have hk : 0 < text.length := by
        cases text with
        | nil => exact absurd rfl hne
        | cons _ _ => simp
      have hd : (pre ++ (itemsBytes (.obj n g text :: r) ++ tail)).drop pre.length =
          text ++ (itemsBytes r ++ tail) := by
        simpa [itemsBytes, Item.bytes] using
          drop_len_append' pre (text ++ (itemsBytes r ++ tail)) pre.length rfl
      have hdata : pre ++ (itemsBytes (.obj n g text :: r) ++ tail) =
          (pre ++ text) ++ (itemsBytes r ++ tail) := by
        simp [itemsBytes, Item.bytes]
      have hlen : (pre ++ text).length = pre.length + text.length := by simp
      have hgt : ¬ (pre.length + text.length ≤ pre.length) := by omega
      rw [fallbackLoop]
      simp only [hd, htl, hsw, hcue, hends, Bool.false_eq_true, ↓reduceIte, hgt]
      rw [hdata, ← hlen, ih (pre ++ text) fuel' _ hfuel' (by rw [hlen]; exact hrest)]
      simp only [scanSpec, itemsBytes, Item.bytes, hlen]
      congr 3
      simp only [List.length_append]
      omega

/-! ### The cue on a rendered object header, and plain EOL lines -/

theorem takeWhile_stop {p : UInt8 → Bool} (a : Bytes) (c : UInt8) (y : Bytes) (ha : ∀ b ∈ a, p b = true)
    (hc : p c = false) : (a ++ c :: y).takeWhile p = a ∧ (a ++ c :: y).dropWhile p = c :: y := by
  induction a with
  | nil => simp [List.takeWhile, List.dropWhile, hc]
  | cons x a ih =>
    have hx := ha x List.mem_cons_self
    have := ih (fun b hb => ha b (List.mem_cons_of_mem _ hb))
    simp [List.takeWhile, List.dropWhile, hx, this.1, this.2]

theorem digit_not_respace (c : UInt8) : isDigit c = true → isReSpace c = false :=
  u8_all (fun c => isDigit c = true → isReSpace c = false) (by decide +kernel) c

theorem sep_then (y : Bytes) (a : UInt8) (y' : Bytes) (hy : y = a :: y') (ha : isReSpace a = false) :
    (32 :: y).takeWhile isReSpace = [32] ∧ (32 :: y).dropWhile isReSpace = y := by
  subst hy
  have h32 : isReSpace 32 = true := by decide
  simp [List.takeWhile, List.dropWhile, ha, h32]

/-- `PDFOBJ_CUE` matches a header `n g obj` (any digit widths) followed by an EOL byte and yields
its two numbers. -/
theorem matchCue_header (w1 w2 n g : Nat) (hw1 : 0 < w1) (hw2 : 0 < w2) (hn : n < 10 ^ w1) (hg : g < 10 ^ w2)
    (c : UInt8) (t : Bytes) (hc : isWordByte c = false) :
    matchCue (renderDec w1 n ++ 32 :: (renderDec w2 g ++ 32 :: 111 :: 98 :: 106 :: c :: t)) = some (n, g) := by
  obtain ⟨w1', rfl⟩ : ∃ w, w1 = w + 1 := ⟨w1 - 1, by omega⟩
  obtain ⟨w2', rfl⟩ : ∃ w, w2 = w + 1 := ⟨w2 - 1, by omega⟩
  obtain ⟨a1, as1, h1, hd1⟩ := renderDec_succ_shape w1' n
  obtain ⟨a2, as2, h2, hd2⟩ := renderDec_succ_shape w2' g
  have hD1 := renderDec_digits (w1' + 1) n
  have hD2 := renderDec_digits (w2' + 1) g
  have hr1 := takeWhile_stop (p := isDigit) (renderDec (w1' + 1) n) 32
    (renderDec (w2' + 1) g ++ 32 :: 111 :: 98 :: 106 :: c :: t) hD1 (by decide)
  have hs1 := sep_then (renderDec (w2' + 1) g ++ 32 :: 111 :: 98 :: 106 :: c :: t) a2
    (as2 ++ 32 :: 111 :: 98 :: 106 :: c :: t) (by rw [h2]; rfl) (digit_not_respace a2 hd2)
  have hr3 := takeWhile_stop (p := isDigit) (renderDec (w2' + 1) g) 32 (111 :: 98 :: 106 :: c :: t) hD2 (by decide)
  have hs2 := sep_then (111 :: 98 :: 106 :: c :: t) 111 (98 :: 106 :: c :: t) rfl (by decide)
  have hne1 : (renderDec (w1' + 1) n).isEmpty = false := by rw [h1]; rfl
  have hne2 : (renderDec (w2' + 1) g).isEmpty = false := by rw [h2]; rfl
  unfold matchCue
  simp only [hr1.1, hr1.2, hs1.1, hs1.2, hr3.1, hr3.2, hs2.1, hs2.2, hne1, hne2]
  simp [hc, decNat_renderDec _ _ hn, decNat_renderDec _ _ hg]

/-- A line consisting of the EOL bytes only (what separates objects) is a plain line. -/
theorem eol_line_plain (eol : LineEol) (y : Bytes) (hy : StartsNonLF y) :
    takeLine (eol.bytes ++ y) = some (eol.bytes, eol.bytes.length) ∧ startsWith eol.bytes kwTrailer = false ∧
    matchCue eol.bytes = none := by
  have h := takeLine_eol [] eol y noEol_nil hy
  simp only [List.nil_append, List.length_nil, Nat.zero_add] at h
  refine ⟨h, ?_, ?_⟩ <;> cases eol <;> decide

theorem items_length_le (ends : List (Nat × Nat × Val)) (items : List Item) (pos : Nat) (after : Bytes)
    (h : ItemsOK ends pos items after) : items.length ≤ (itemsBytes items).length := by
  induction items generalizing pos with
  | nil => simp
  | cons i r ih =>
    cases i with
    | line l =>
      obtain ⟨htl, _, _, hr⟩ := h
      have := (takeLine_bounds htl).1
      have := ih _ hr
      simp only [itemsBytes, Item.bytes, List.length_cons, List.length_append]
      omega
    | obj n g text =>
      obtain ⟨_, hne, _, hr⟩ := h
      have : 0 < text.length := by
        cases text with
        | nil => exact absurd rfl hne
        | cons _ _ => simp
      have := ih _ hr
      simp only [itemsBytes, Item.bytes, List.length_cons, List.length_append]
      omega

/-- `PDFXRefFallback.load` on a whole file: the offsets found are the true offsets. -/
theorem fallbackLoad_items (ends : List (Nat × Nat × Val)) (items : List Item) (tail : Bytes)
    (hok : ItemsOK ends 0 items tail)
    (htail : ∃ l k, takeLine tail = some (l, k) ∧ startsWith l kwTrailer = true) :
    fallbackLoad (itemsBytes items ++ tail) ends = .ok (scanSpec 0 items [], some (itemsBytes items).length) := by
  unfold fallbackLoad
  have h := fallbackLoop_items ends items [] tail ((itemsBytes items ++ tail).length + 1) []
    (by have := items_length_le ends items 0 tail hok; simp only [List.length_append]; omega)
    (by simpa using hok) htail
  simpa using h

theorem itemsOK_of_itemsOKb (ends : List (Nat × Nat × Val)) (items : List Item) (pos : Nat) (after : Bytes)
    (h : itemsOKb ends pos items after = true) : ItemsOK ends pos items after := by
  induction items generalizing pos with
  | nil => trivial
  | cons i r ih =>
    cases i with
    | line l =>
      simp only [itemsOKb, Bool.and_eq_true, beq_iff_eq, Bool.not_eq_true'] at h
      exact ⟨h.1.1.1, h.1.1.2, h.1.2, ih _ h.2⟩
    | obj n g text =>
      simp only [itemsOKb, Bool.and_eq_true, Bool.not_eq_true'] at h
      obtain ⟨⟨⟨h1, h2⟩, h4⟩, h5⟩ := h
      refine ⟨?_, ?_, ?_, ih _ h5⟩
      · cases htl : takeLine (text ++ (itemsBytes r ++ after)) with
        | none => rw [htl] at h1; simp at h1
        | some lk =>
          obtain ⟨l, k⟩ := lk
          rw [htl] at h1
          simp only [Bool.and_eq_true, Bool.not_eq_true', beq_iff_eq] at h1
          exact ⟨l, k, rfl, h1.1, h1.2⟩
      · intro hnil
        rw [hnil] at h2
        simp at h2
      · cases hl' : lookupNat ends pos with
        | none => rw [hl'] at h4; simp at h4
        | some ev =>
          obtain ⟨e, v⟩ := ev
          rw [hl'] at h4
          simp only [Bool.and_eq_true, beq_iff_eq, Bool.not_eq_true'] at h4
          refine ⟨v, by rw [h4.1], ?_⟩
          intro id k t hv
          rw [hv] at h4
          simp [Val.isObjstm] at h4

end PdfVerif.Xref
