/-
Helper lemmas for C17 (outline traversal).
-/
import PdfVerif.Lemmas.Labels
import PdfVerif.Spec.Outline

namespace PdfVerif.Lemmas.Outline
open PdfVerif PdfVerif.Labels PdfVerif.Outline PdfVerif.Spec.Outline PdfVerif.Lemmas.Labels

/-- An item of the domain is yielded, with its title decoded as the specification says. -/
theorem visible_of_item (lvl : Nat) (i : Info) (it : Item) (h : item lvl i = some it) :
    visible lvl i = [it] := by
  unfold item at h
  unfold visible
  cases ht : i.title with
  | none => simp [ht] at h
  | some t =>
    simp only [ht] at h ⊢
    split at h
    · rename_i hc
      simp only [Option.map_eq_some_iff] at h
      obtain ⟨s, hs, rfl⟩ := h
      simp [hc, decodeText_of_spec t s hs]
    · simp at h

theorem search_nil (lvl : Nat) : search .nil lvl = [] := by simp [search]

mutual
theorem search_encTree (t : OTree) (next : Entry) (lvl : Nat)
    (hdom : ∀ o ∈ preTree lvl t, o.isSome = true) :
    (search (encTree t next) lvl).map some = preTree lvl t ++ (search next lvl).map some :=
  match t with
  | .mk info ch => by
    have hitem : (item lvl info).isSome = true := hdom _ (by simp [preTree])
    obtain ⟨it, hit⟩ := Option.isSome_iff_exists.mp hitem
    have hch : ∀ o ∈ preForest (lvl + 1) ch, o.isSome = true := fun o ho => hdom o (by simp [preTree, ho])
    have ih := search_encForest ch (lvl + 1) hch
    have hfirst : (if (!ch.isEmpty) = true then search (encForest ch) (lvl + 1) else []) =
        search (encForest ch) (lvl + 1) := by
      cases ch with
      | nil => simp [encForest, search]
      | cons c cs => simp
    simp only [encTree, search, hfirst, visible_of_item lvl info it hit, preTree, hit, List.map_append,
      List.map_cons, ih, List.cons_append, List.nil_append]
theorem search_encForest (f : List OTree) (lvl : Nat)
    (hdom : ∀ o ∈ preForest lvl f, o.isSome = true) :
    (search (encForest f) lvl).map some = preForest lvl f :=
  match f with
  | [] => by simp [encForest, search, preForest]
  | t :: ts => by
    have h1 : ∀ o ∈ preTree lvl t, o.isSome = true := fun o ho => hdom o (by simp [preForest, ho])
    have h2 : ∀ o ∈ preForest lvl ts, o.isSome = true := fun o ho => hdom o (by simp [preForest, ho])
    simp only [encForest, preForest]
    rw [search_encTree t (encForest ts) lvl h1, search_encForest ts lvl h2]
end

theorem mapM_id_some : ∀ (l : List (Option Item)) (r : List Item), l.mapM id = some r → l = r.map some
  | [], r, h => by simp at h; simp [h]
  | none :: _, r, h => by simp [List.mapM_cons] at h
  | some x :: xs, r, h => by
    simp only [List.mapM_cons, id, Option.pure_def, Option.bind_eq_bind, Option.bind_some,
      Option.bind_eq_some_iff] at h
    obtain ⟨ys, hys, h⟩ := h
    simp at h
    subst h
    simp [mapM_id_some xs ys hys]

theorem map_some_inj {α : Type} : ∀ (l r : List α), l.map some = r.map some → l = r
  | [], [], _ => rfl
  | [], _ :: _, h => by simp at h
  | _ :: _, [], h => by simp at h
  | a :: l, b :: r, h => by
    simp only [List.map_cons, List.cons.injEq, Option.some.injEq] at h
    rw [h.1, map_some_inj l r h.2]

end PdfVerif.Lemmas.Outline
