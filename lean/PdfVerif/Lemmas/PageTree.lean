/- Helper lemmas for C04 (page tree). -/
import PdfVerif.Spec.PageTree

namespace PdfVerif.PageTree
open PdfVerif PdfVerif.Gen.PageTree

/-! ### Selection -/

theorem filter_zipIdx_beyond {α : Type} (sel : List Nat) (mp : Nat) (hmp : mp ≠ 0) :
    ∀ (ps : List α) (k : Nat), mp ≤ k →
      (ps.zipIdx k).filter
        (fun pi => (sel.isEmpty || sel.contains pi.2) && (mp == 0 || pi.2 < mp)) = [] := by
  intro ps
  induction ps with
  | nil => intro k _; simp
  | cons p ps ih =>
    intro k hk
    rw [List.zipIdx_cons, List.filter_cons]
    have : ((mp == 0 || decide (k < mp)) = false) := by simp; omega
    simp only [this, Bool.and_false]
    exact ih (k+1) (by omega)

/-- The regenerated tests of the `get_pages` loop say what the property says. -/
theorem select_yield_eq (sel : List Nat) (i : Nat) :
    select_yield (!sel.isEmpty) (sel.contains i) = (sel.isEmpty || sel.contains i) := by
  simp [select_yield]

theorem select_break_eq (mp i : Nat) :
    select_break (mp : Int) (i : Int) = (mp != 0 && decide (mp ≤ i + 1)) := by
  simp only [select_break]
  have h1 : ((mp : Int) != 0) = (mp != 0) := by
    cases mp with
    | zero => simp
    | succ n => simp; omega
  have h2 : decide ((mp : Int) ≤ (i : Int) + (1 : Int)) = decide (mp ≤ i + 1) := by
    apply decide_eq_decide.mpr; omega
  rw [h1, h2]

/-- Whether the loop asks the generator for a page beyond its last one. -/
def pastEnd (mp i n : Nat) : Prop := mp = 0 ∨ i + n < mp
instance (mp i n : Nat) : Decidable (pastEnd mp i n) := by unfold pastEnd; infer_instance

theorem select_stream {α : Type} (sel : List Nat) (mp : Nat) (pages : List α) (e : Option Err) (i : Nat)
    (hinv : mp = 0 ∨ i < mp) :
    getPagesS sel mp i pages e =
      (specSelect sel mp i pages, if pastEnd mp i pages.length then e else none) := by
  induction pages generalizing i with
  | nil =>
    have : pastEnd mp i 0 := by unfold pastEnd; omega
    simp [getPagesS, specSelect, this]
  | cons p ps ih =>
    unfold getPagesS specSelect
    simp only [select_yield_eq, select_break_eq]
    rw [List.zipIdx_cons, List.filter_cons]
    have hin : (mp == 0 || decide (i < mp)) = true := by
      rcases hinv with h | h <;> simp [h]
    by_cases hbrk : (mp != 0 && decide (mp ≤ i + 1)) = true
    · simp only [hbrk, if_true]
      simp only [Bool.and_eq_true, bne_iff_ne, ne_eq, decide_eq_true_eq] at hbrk
      rw [filter_zipIdx_beyond sel mp hbrk.1 ps (i+1) hbrk.2]
      have hp : ¬ pastEnd mp i (p :: ps).length := by
        unfold pastEnd; simp only [List.length_cons]; omega
      simp only [hp, if_false]
      by_cases hs : (sel.isEmpty || sel.contains i) = true
      · simp only [hs, hin, Bool.and_self, if_true, List.map_cons, List.map_nil]
      · simp only [hs, Bool.false_and]; simp
    · simp only [hbrk]
      have hnext : mp = 0 ∨ i + 1 < mp := by
        simp only [Bool.and_eq_true, bne_iff_ne, ne_eq, decide_eq_true_eq, not_and, Nat.not_le] at hbrk
        by_cases h0 : mp = 0
        · exact Or.inl h0
        · exact Or.inr (hbrk h0)
      have ih' := ih (i+1) hnext
      unfold specSelect at ih'
      have hpe : pastEnd mp (i + 1) ps.length ↔ pastEnd mp i (p :: ps).length := by
        unfold pastEnd; simp only [List.length_cons]; omega
      rw [ih']
      by_cases hq : pastEnd mp i (p :: ps).length
      · have hq' := hpe.mpr hq
        by_cases hs : (sel.isEmpty || sel.contains i) = true
        · simp only [hs, hin, Bool.and_self, if_true, List.map_cons, hq, hq', List.cons_append, List.nil_append,
            Bool.false_eq_true, ↓reduceIte]
        · simp only [hs, Bool.false_and, hq, hq', List.nil_append, Bool.false_eq_true, ↓reduceIte]
      · have hq' : ¬ pastEnd mp (i + 1) ps.length := fun h => hq (hpe.mp h)
        by_cases hs : (sel.isEmpty || sel.contains i) = true
        · simp only [hs, hin, Bool.and_self, if_true, List.map_cons, hq, hq', List.cons_append, List.nil_append,
            Bool.false_eq_true, ↓reduceIte]
        · simp only [hs, Bool.false_and, hq, hq', List.nil_append, Bool.false_eq_true, ↓reduceIte]

theorem select_from {α : Type} (sel : List Nat) (mp : Nat) (pages : List α) (i : Nat)
    (hinv : mp = 0 ∨ i < mp) :
    getPages sel mp i pages = specSelect sel mp i pages := by
  unfold getPages
  rw [select_stream sel mp pages none i hinv]

/-! ### Overlay of inheritable attributes -/

theorem lookup_filter_key {β : Type} (f : String → Bool) (P : List (String × β)) (k : String) :
    (P.filter (fun kv => f kv.1)).lookup k = if f k then P.lookup k else none := by
  induction P with
  | nil => simp
  | cons kv P ih =>
    obtain ⟨k', v⟩ := kv
    by_cases hf : f k' = true
    · simp only [List.filter_cons, hf, if_true, List.lookup_cons]
      by_cases hk : (k == k') = true
      · have : k = k' := by simpa using hk
        subst this
        simp [hf]
      · simp only [hk]
        exact ih
    · simp only [List.filter_cons, hf, List.lookup_cons]
      by_cases hk : (k == k') = true
      · have : k = k' := by simpa using hk
        subst this
        simp [hf, ih]
      · simp only [hk]
        exact ih

theorem dget_overlay (P d : Dict) (k : String) :
    dget (overlay P d) k =
      (dget d k).or (if INHERITABLE_ATTRS.contains k then dget P k else none) := by
  unfold overlay dget
  rw [List.lookup_append]
  have := lookup_filter_key (fun k' => overlay_cond (INHERITABLE_ATTRS.contains k') (List.lookup k' d).isSome) P k
  rw [this]
  cases h : List.lookup k d <;> simp [overlay_cond]


theorem dget_overlay_inh (P d : Dict) (k : String) (hk : k ∈ INHERITABLE_ATTRS) :
    dget (overlay P d) k = (dget d k).or (dget P k) := by
  rw [dget_overlay]
  simp [hk]

theorem dget_overlay_other (P d : Dict) (k : String) (hk : k ∉ INHERITABLE_ATTRS) :
    dget (overlay P d) k = dget d k := by
  rw [dget_overlay]
  simp [hk]

theorem nodeType_overlay (P d : Dict) : nodeType (overlay P d) = nodeType d := by
  unfold nodeType
  rw [dget_overlay_other P d "Type" (by decide), dget_overlay_other P d "type" (by decide)]

theorem inherited_cons (d : Dict) (anc : List Dict) (k : String) :
    inherited (d :: anc) k = (dget d k).or (inherited anc k) := by
  unfold inherited
  rw [List.findSome?_cons]
  cases dget d k <;> rfl

/-! ### The walk on an embedded tree -/

/-- What is compared between a model page and a specification leaf: the object number and the
values of the inheritable attributes. -/
def rawKey (rp : RawPage) : Option Nat × List (Option Val) := (rp.id, INHERITABLE_ATTRS.map (dget rp.attrs))
def specKey (sp : Nat × List Dict) : Option Nat × List (Option Val) :=
  (some sp.1, INHERITABLE_ATTRS.map (inherited sp.2))

structure TreeWalkOK (w : Walk) (ids vis : List Nat) (leaves : List (Nat × List Dict)) : Prop where
  err : w.err = none
  visited : w.visited = ids.reverse ++ vis
  pages : w.pages.map rawKey = leaves.map specKey

theorem overlay_inherits (P d : Dict) (anc : List Dict)
    (hP : ∀ k ∈ INHERITABLE_ATTRS, dget P k = inherited anc k) :
    ∀ k ∈ INHERITABLE_ATTRS, dget (overlay P d) k = inherited (d :: anc) k := by
  intro k hk
  rw [dget_overlay_inh P d k hk, inherited_cons, hP k hk]

theorem isName_page_not_pages (v : Option Val) (h : isName v "Page" = true) : isName v "Pages" = false := by
  unfold isName at *
  have : v = some (.atom (.name "Page")) := by simpa using h
  subst this
  decide

/-- `visit` on a reference that has not been visited. -/
theorem visit_succ_ref (g : Store) (f n : Nat) (P : Dict) (vis : List Nat) (h : n ∉ vis) :
    visit g (f + 1) (.atom (.ref n)) P vis =
      (let props := overlay P (dictValue g (.atom (.ref n)))
       if isName (nodeType props) "Pages" && (dget props "Kids").isSome then
         walkKids (visit g f) (listValue g ((dget props "Kids").getD (.atom .null))) props (n :: vis)
       else if isName (nodeType props) "Page" then ⟨[⟨some n, props⟩], n :: vis, none⟩
       else ⟨[], n :: vis, none⟩) := by
  have : vis.contains n = false := by simpa using h
  simp only [visit, nodeOf, this, Bool.false_eq_true, if_false]

mutual
theorem visit_tree (g : Store) : ∀ (t : PTree) (fuel : Nat) (P : Dict) (anc : List Dict) (vis : List Nat),
    Embeds g t → t.depth ≤ fuel → (∀ k ∈ INHERITABLE_ATTRS, dget P k = inherited anc k) →
    t.ids.Nodup → (∀ j ∈ t.ids, j ∉ vis) →
    TreeWalkOK (visit g fuel (.atom (.ref t.id)) P vis) t.ids vis (specLeaves t anc)
  | .page i d, fuel, P, anc, vis, hE, hf, hP, hnd, hdis => by
    obtain ⟨hd, hty⟩ := hE
    cases fuel with
    | zero => simp [PTree.depth] at hf
    | succ f =>
      have hi : i ∉ vis := hdis i (by simp [PTree.ids])
      have hty' : isName (nodeType (overlay P d)) "Page" = true := by rw [nodeType_overlay]; exact hty
      have hty'' : isName (nodeType (overlay P d)) "Pages" = false := isName_page_not_pages _ hty'
      simp only [PTree.id, visit_succ_ref g f i P vis hi, hd, hty', hty'', Bool.false_and, Bool.false_eq_true, ↓reduceIte]
      refine ⟨rfl, by simp [PTree.ids], ?_⟩
      simp only [specLeaves, List.map_cons, List.map_nil, rawKey, specKey, List.cons.injEq, Prod.mk.injEq,
        true_and, and_true]
      apply List.map_congr_left
      intro k hk
      exact overlay_inherits P d anc hP k hk
  | .pages i d kids, fuel, P, anc, vis, hE, hf, hP, hnd, hdis => by
    obtain ⟨hd, hty, ⟨kv, hkv, hlv⟩, hEk⟩ := hE
    cases fuel with
    | zero => simp [PTree.depth] at hf
    | succ f =>
      have hi : i ∉ vis := hdis i (by simp [PTree.ids])
      have hty' : isName (nodeType (overlay P d)) "Pages" = true := by rw [nodeType_overlay]; exact hty
      have hk' : dget (overlay P d) "Kids" = some kv := by
        rw [dget_overlay_other P d "Kids" (by decide)]; exact hkv
      simp only [PTree.ids, List.nodup_cons] at hnd
      have hdis' : ∀ j ∈ idsL kids, j ∉ i :: vis := by
        intro j hj hmem
        rcases List.mem_cons.mp hmem with h | h
        · subst h; exact hnd.1 hj
        · exact hdis j (by simp [PTree.ids, hj]) h
      have hf' : depthL kids ≤ f := by simp only [PTree.depth] at hf; omega
      have ih := walk_trees g kids f (overlay P d) (d :: anc) (i :: vis) hEk hf'
        (overlay_inherits P d anc hP) hnd.2 hdis'
      simp only [PTree.id, visit_succ_ref g f i P vis hi, hd, hty', hk', Option.isSome_some, Bool.and_self,
        if_true, Option.getD_some, hlv, ↓reduceIte]
      refine ⟨ih.err, ?_, ?_⟩
      · rw [ih.visited]; simp [PTree.ids]
      · rw [ih.pages]; simp [specLeaves]
theorem walk_trees (g : Store) : ∀ (ts : List PTree) (fuel : Nat) (P : Dict) (anc : List Dict) (vis : List Nat),
    EmbedsL g ts → depthL ts ≤ fuel → (∀ k ∈ INHERITABLE_ATTRS, dget P k = inherited anc k) →
    (idsL ts).Nodup → (∀ j ∈ idsL ts, j ∉ vis) →
    TreeWalkOK (walkKids (visit g fuel) (kidRefs ts) P vis) (idsL ts) vis (specLeavesL ts anc)
  | [], fuel, P, anc, vis, _, _, _, _, _ => by
    simp only [kidRefs, List.map_nil, walkKids, idsL, specLeavesL]
    exact ⟨rfl, by simp, by simp⟩
  | t :: ts, fuel, P, anc, vis, hE, hf, hP, hnd, hdis => by
    obtain ⟨hEt, hEts⟩ := hE
    simp only [idsL, List.nodup_append] at hnd
    obtain ⟨hnd1, hnd2, hdisj⟩ := hnd
    simp only [depthL] at hf
    have h1 := visit_tree g t fuel P anc vis hEt (by omega) hP hnd1
      (fun j hj => hdis j (by simp [idsL, hj]))
    have hdis2 : ∀ j ∈ idsL ts, j ∉ t.ids.reverse ++ vis := by
      intro j hj hmem
      rcases List.mem_append.mp hmem with h | h
      · exact hdisj j (List.mem_reverse.mp h) j hj rfl
      · exact hdis j (by simp [idsL, hj]) h
    have h2 := walk_trees g ts fuel P anc (t.ids.reverse ++ vis) hEts (by omega) hP hnd2 hdis2
    simp only [kidRefs, List.map_cons, walkKids, h1.err]
    rw [h1.visited]
    refine ⟨h2.err, ?_, ?_⟩
    · show (walkKids (visit g fuel) (kidRefs ts) P (t.ids.reverse ++ vis)).visited = _
      rw [h2.visited]; simp [idsL]
    · show List.map rawKey ((visit g fuel (Val.atom (Atom.ref t.id)) P vis).pages ++
          (walkKids (visit g fuel) (kidRefs ts) P (t.ids.reverse ++ vis)).pages) = _
      rw [List.map_append, h1.pages, h2.pages]; simp [specLeavesL]
end

/-! ### From raw pages to PDFPage objects -/

theorem finish_map {α β : Type} (a : α → β) (F : β → Except Err Page) (mk : α → Except Err Page)
    (h : ∀ x, mk x = F (a x)) : ∀ (l : List α) (e : Option Err), finish mk l e = finish F (l.map a) e := by
  intro l e
  induction l with
  | nil => simp [finish]
  | cons x xs ih =>
    simp only [finish, List.map_cons, h x]
    cases F (a x) with
    | error e' => rfl
    | ok pg => simp only [ih]

theorem lookup_zip_map {β : Type} (f : String → β) (k : String) :
    ∀ (l : List String), k ∈ l → (l.zip (l.map f)).lookup k = some (f k) := by
  intro l
  induction l with
  | nil => intro h; simp at h
  | cons x xs ih =>
    intro h
    simp only [List.map_cons, List.zip_cons_cons, List.lookup_cons]
    by_cases hk : (k == x) = true
    · have : k = x := by simpa using hk
      subst this; simp
    · simp only [hk]
      have : k ≠ x := by simpa using hk
      exact ih (by simpa [this] using h)

/-- `PDFPage.__init__` from the object number and the values of the inheritable attributes. -/
def keyPage (g : Store) (key : Option Nat × List (Option Val)) : Except Err Page :=
  let look := fun k => ((INHERITABLE_ATTRS.zip key.2).lookup k).join
  .ok (mkPage g key.1 (look "Resources") (look "MediaBox") (look "CropBox") (look "Rotate"))

theorem pageOfRaw_eq (g : Store) (rp : RawPage) : pageOfRaw g rp = keyPage g (rawKey rp) := by
  unfold pageOfRaw keyPage rawKey KEY_RESOURCES KEY_MEDIABOX KEY_CROPBOX KEY_ROTATE
  simp only [lookup_zip_map (dget rp.attrs) "Resources" INHERITABLE_ATTRS (by decide),
    lookup_zip_map (dget rp.attrs) "MediaBox" INHERITABLE_ATTRS (by decide),
    lookup_zip_map (dget rp.attrs) "CropBox" INHERITABLE_ATTRS (by decide),
    lookup_zip_map (dget rp.attrs) "Rotate" INHERITABLE_ATTRS (by decide), Option.join_some]

theorem specPage_eq (g : Store) (sp : Nat × List Dict) : specPage g sp = keyPage g (specKey sp) := by
  unfold specPage keyPage specKey
  simp only [lookup_zip_map (inherited sp.2) "Resources" INHERITABLE_ATTRS (by decide),
    lookup_zip_map (inherited sp.2) "MediaBox" INHERITABLE_ATTRS (by decide),
    lookup_zip_map (inherited sp.2) "CropBox" INHERITABLE_ATTRS (by decide),
    lookup_zip_map (inherited sp.2) "Rotate" INHERITABLE_ATTRS (by decide), Option.join_some]

theorem finish_of_keys (g : Store) (raw : List RawPage) (leaves : List (Nat × List Dict)) (e : Option Err)
    (h : raw.map rawKey = leaves.map specKey) :
    finish (pageOfRaw g) raw e = finish (specPage g) leaves e := by
  rw [finish_map rawKey (keyPage g) (pageOfRaw g) (pageOfRaw_eq g),
    finish_map specKey (keyPage g) (specPage g) (specPage_eq g), h]

/-! ### Whole documents -/

mutual
theorem depth_le_size : ∀ t : PTree, t.depth ≤ t.ids.length
  | .page _ _ => by simp [PTree.depth, PTree.ids]
  | .pages _ _ kids => by
    have := depthL_le_size kids
    simp only [PTree.depth, PTree.ids, List.length_cons]; omega
theorem depthL_le_size : ∀ ts : List PTree, depthL ts ≤ (idsL ts).length
  | [] => by simp [depthL, idsL]
  | t :: ts => by
    have h1 := depth_le_size t
    have h2 := depthL_le_size ts
    simp only [depthL, idsL, List.length_append]; omega
end

theorem inherited_nil (k : String) : inherited [] k = none := by simp [inherited]

theorem treeWalk_tree (g : Store) (t : PTree) (catalog : Dict) (fuel : Nat)
    (hE : Embeds g t) (hroot : dget catalog "Pages" = some (.atom (.ref t.id)))
    (hcat : ∀ k ∈ INHERITABLE_ATTRS, dget catalog k = none)
    (hnd : t.ids.Nodup) (hf : t.ids.length ≤ fuel) :
    TreeWalkOK (treeWalk g fuel catalog) t.ids [] (specLeaves t []) := by
  unfold treeWalk
  rw [hroot]
  exact visit_tree g t fuel catalog [] [] hE (Nat.le_trans (depth_le_size t) hf)
    (fun k hk => by rw [hcat k hk, inherited_nil]) hnd (by simp)

/-- `toTree` only returns trees that the graph contains. -/
theorem mapKids_embeds (g : Store) (F : Elem → Option PTree)
    (hF : ∀ k t, F k = some t → Embeds g t ∧ k = .atom (.ref t.id)) :
    ∀ ks ts, mapKids F ks = some ts → EmbedsL g ts ∧ ks = kidRefs ts := by
  intro ks
  induction ks with
  | nil => intro ts h; simp [mapKids] at h; subst h; simp [EmbedsL, kidRefs]
  | cons k ks ih =>
    intro ts h
    simp only [mapKids] at h
    cases h1 : F k with
    | none => simp [h1] at h
    | some t =>
      cases h2 : mapKids F ks with
      | none => simp [h1, h2] at h
      | some ts' =>
        simp only [h1, h2, Option.some.injEq] at h
        subst h
        obtain ⟨hE, hk⟩ := hF k t h1
        obtain ⟨hEs, hks⟩ := ih ts' h2
        exact ⟨⟨hE, hEs⟩, by simp [kidRefs, hk, hks]⟩

theorem toTree_embeds (g : Store) : ∀ fuel a t, toTree g fuel a = some t → Embeds g t ∧ a = .atom (.ref t.id) := by
  intro fuel
  induction fuel with
  | zero => intro a t h; simp [toTree] at h
  | succ f ih =>
    intro a t h
    cases a with
    | dict kvs => simp [toTree] at h
    | arr xs => simp [toTree] at h
    | atom a =>
    cases a with
    | ref n =>
      simp only [toTree] at h
      split at h
      · rename_i hpage
        cases h
        exact ⟨⟨rfl, hpage⟩, rfl⟩
      · split at h
        · rename_i hpages
          split at h
          · rename_i kv hkv
            cases hm : mapKids (toTree g f) (listValue g kv) with
            | none => simp [hm] at h
            | some ks =>
              simp only [hm, Option.map_eq_map, Option.map_some, Option.some.injEq] at h
              subst h
              obtain ⟨hEs, hks⟩ := mapKids_embeds g (toTree g f) ih _ _ hm
              exact ⟨⟨rfl, hpages, ⟨kv, hkv, hks⟩, hEs⟩, rfl⟩
          · cases h
        · cases h
    | int i => simp [toTree] at h
    | real q => simp [toTree] at h
    | name s => simp [toTree] at h
    | null => simp [toTree] at h

theorem nodupNat_sound : ∀ l : List Nat, nodupNat l = true → l.Nodup := by
  intro l
  induction l with
  | nil => intro _; exact List.nodup_nil
  | cons x xs ih =>
    intro h
    simp only [nodupNat, Bool.and_eq_true, Bool.not_eq_true', List.contains_eq_mem, decide_eq_false_iff_not] at h
    exact List.nodup_cons.mpr ⟨h.1, ih h.2⟩

/-- What the driver's domain test `docTree` guarantees. -/
theorem docTree_sound (g : Store) (fuel : Nat) (catalog : Dict) (t : PTree)
    (h : docTree g fuel catalog = some t) :
    Embeds g t ∧ dget catalog "Pages" = some (.atom (.ref t.id)) ∧
      (∀ k ∈ INHERITABLE_ATTRS, dget catalog k = none) ∧ t.ids.Nodup := by
  unfold docTree at h
  split at h
  · cases h
  · rename_i hany
    split at h
    · rename_i a ha
      split at h
      · rename_i t' ht
        split at h
        · rename_i hnd
          cases h
          obtain ⟨hE, hid⟩ := toTree_embeds g fuel (.atom a) t ht
          refine ⟨hE, by rw [ha]; cases hid; rfl, ?_, nodupNat_sound _ hnd⟩
          intro k hk
          simp only [List.any_eq_true, not_exists, not_and, Bool.not_eq_true, Option.isSome_eq_false_iff,
            Option.isNone_iff_eq_none] at hany
          exact hany k hk
        · cases h
      · cases h
    · cases h

/-! ### Boxes -/

theorem normalize_rect_normalised (r : Rect) : Normalised (normalize_rect r) := by
  obtain ⟨x0, y0, x1, y1⟩ := r
  simp only [normalize_rect, Normalised]
  constructor <;> grind

theorem parseBox_normalised (g : Store) (v : Val) (r : Rect) (h : parseBox g v = some r) : Normalised r := by
  unfold parseBox at h
  split at h
  · split at h
    · simp only [Option.some.injEq] at h
      subst h
      exact normalize_rect_normalised _
    · cases h
  · cases h

theorem box_default (g : Store) (v : Val) (dflt : Rect) (hd : Normalised dflt) :
    Normalised ((parseBox g v).getD dflt) := by
  cases hpb : parseBox g v with
  | none => exact hd
  | some r => exact parseBox_normalised g v r hpb

theorem us_letter_normalised : Normalised US_LETTER := by
  simp only [Normalised, US_LETTER]; constructor <;> decide

end PdfVerif.PageTree
