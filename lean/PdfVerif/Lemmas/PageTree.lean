/- Helper lemmas for C04 (page tree). -/
import PdfVerif.Spec.PageTree

namespace PdfVerif.PageTree
open PdfVerif PdfVerif.Gen.PageTree

/-! ### Selection -/

theorem filter_zipIdx_beyond {α : Type} (sel : List Nat) (mp : Nat) (hmp : mp ≠ 0) :
    ∀ (ps : List α) (k : Nat), mp ≤ k →
      (ps.zipIdx k).filter
        (fun pi => (sel.isEmpty || sel.contains pi.2) && (mp == 0 || pi.2 < mp)) = [] := by
  intro ps
  induction ps with
  | nil => intro k _; simp
  | cons p ps ih =>
    intro k hk
    rw [List.zipIdx_cons, List.filter_cons]
    have : ((mp == 0 || decide (k < mp)) = false) := by simp; omega
    simp only [this, Bool.and_false]
    exact ih (k+1) (by omega)

theorem select_from {α : Type} (sel : List Nat) (mp : Nat) (pages : List α) (i : Nat)
    (hinv : mp = 0 ∨ i < mp) :
    getPages sel mp i pages = specSelect sel mp i pages := by
  induction pages generalizing i with
  | nil => simp [getPages, specSelect]
  | cons p ps ih =>
    unfold getPages specSelect
    rw [List.zipIdx_cons, List.filter_cons]
    have hin : (mp == 0 || decide (i < mp)) = true := by
      rcases hinv with h | h <;> simp [h]
    by_cases hbrk : (mp != 0 && decide (mp ≤ i + 1)) = true
    · simp only [hbrk, if_true]
      simp only [Bool.and_eq_true, bne_iff_ne, ne_eq, decide_eq_true_eq] at hbrk
      rw [filter_zipIdx_beyond sel mp hbrk.1 ps (i+1) hbrk.2]
      by_cases hs : (sel.isEmpty || sel.contains i) = true
      · simp only [hs, hin, Bool.and_self, if_true, List.map_cons, List.map_nil]
      · simp only [hs, Bool.false_and]; simp
    · simp only [hbrk]
      have hnext : mp = 0 ∨ i + 1 < mp := by
        simp only [Bool.and_eq_true, bne_iff_ne, ne_eq, decide_eq_true_eq, not_and, Nat.not_le] at hbrk
        by_cases h0 : mp = 0
        · exact Or.inl h0
        · exact Or.inr (hbrk h0)
      have ih' := ih (i+1) hnext
      unfold specSelect at ih'
      by_cases hs : (sel.isEmpty || sel.contains i) = true
      · simp only [hs, hin, Bool.and_self, if_true, List.map_cons, ih']; simp
      · simp only [hs, Bool.false_and, ih']; simp

end PdfVerif.PageTree
