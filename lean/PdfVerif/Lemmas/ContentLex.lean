/-
C05 — lemmas about the byte-level front end (`Model/ContentLex.lean`) over the lexer model of C14.
-/
import PdfVerif.Model.ContentLex
import PdfVerif.Lemmas.Lexer
set_option linter.unusedSimpArgs false

namespace PdfVerif.ContentLex
open PdfVerif PdfVerif.Lexer PdfVerif.Gen.LexTables

def isStringMode : Mode → Bool
  | .string | .string1 | .string2 => true
  | _ => false

/-- Two scanner states agree on everything the scanners will still read: the mode; the token being
collected unless between tokens; the parenthesis depth inside a string; the octal / hex digits while
an escape is being read. (Stale `_curtoken`, `paren`, `oct`, `hex`, and the position, are dead.) -/
def Live (s1 s2 : St) : Prop :=
  s1.mode = s2.mode ∧ (s1.mode ≠ .main → s1.cur = s2.cur) ∧ (isStringMode s1.mode = true → s1.paren = s2.paren) ∧
    (s1.mode = .string1 → s1.oct = s2.oct) ∧ (s1.mode = .literalHex → s1.hex = s2.hex)

theorem atHit_live (st1 st2 : St) (c : UInt8) (j1 j2 : Nat) (h : Live st1 st2) :
    Live (atHit st1 c j1).st (atHit st2 c j2).st ∧ (atHit st1 c j1).consumed = (atHit st2 c j2).consumed ∧
      vals (atHit st1 c j1).toks = vals (atHit st2 c j2).toks := by
  obtain ⟨m1, c1, t1, p1, o1, h1⟩ := st1
  obtain ⟨m2, c2, t2, p2, o2, h2⟩ := st2
  obtain ⟨hm, hc, hp, ho, hh⟩ := h
  simp only at hm hc hp ho hh
  subst hm
  cases m1 <;> simp only [ne_eq, reduceCtorEq, not_true_eq_false, not_false_eq_true, isStringMode, Bool.false_eq_true,
      forall_const, false_imp_iff, true_imp_iff] at hc hp ho hh <;> (try subst hc) <;> (try subst hp) <;> (try subst ho) <;>
    (try subst hh) <;>
    simp only [atHit, parseMainHit, parseCommentHit, parseLiteralHit, parseLiteralHexHit, parseNumberHit, parseFloatHit,
      parseKeywordHit, parseStringHit, parseString1Hit, parseString2Hit, parseWopenHit, parseWcloseHit,
      parseHexstringHit, emit, raise, Live, vals, isStringMode] <;>
    (repeat' split) <;> simp_all [Live, vals, isStringMode]


theorem Live.refl (st : St) : Live st st := ⟨rfl, fun _ => rfl, fun _ => rfl, fun _ => rfl, fun _ => rfl⟩

theorem accum_live (st1 st2 : St) (pre : Bytes) (h : Live st1 st2) : Live (accum st1 pre) (accum st2 pre) := by
  obtain ⟨m1, c1, t1, p1, o1, h1⟩ := st1
  obtain ⟨m2, c2, t2, p2, o2, h2⟩ := st2
  obtain ⟨hm, hc, hp, ho, hh⟩ := h
  simp only at hm hc hp ho hh
  subst hm
  unfold accum
  by_cases hmain : m1 = .main
  · subst hmain
    simp only [beq_self_eq_true, if_true]
    exact ⟨rfl, hc, hp, ho, hh⟩
  · have : (m1 == Mode.main) = false := by simpa using hmain
    simp only [this, Bool.false_eq_true, if_false]
    exact ⟨rfl, fun _ => by simp [hc hmain], hp, ho, hh⟩

theorem vals_append (a b : List PTok) : vals (a ++ b) = vals a ++ vals b := by simp [vals]

/-- Token values and the live part of the scanner state do not depend on where the byte sits nor on
dead attributes. -/
theorem stepN_live : ∀ (n : Nat) (st1 st2 : St) (c : UInt8) (p1 p2 : Nat), Live st1 st2 →
    Live (stepN n st1 c p1).1 (stepN n st2 c p2).1 ∧ vals (stepN n st1 c p1).2 = vals (stepN n st2 c p2).2
  | 0, st1, st2, c, p1, p2, h => by simp [stepN, h, vals]
  | n + 1, st1, st2, c, p1, p2, h => by
    have hm : st1.mode = st2.mode := h.1
    obtain ⟨ha1, ha2, ha3⟩ := atHit_live st1 st2 c p1 p2 h
    simp only [stepN, hm]
    cases hs : searchClass st2.mode with
    | some p =>
      simp only
      by_cases hp : p c = true
      · simp only [hp, if_true, ha2]
        by_cases hc : (atHit st2 c p2).consumed = true
        · simp only [hc, if_true]; exact ⟨ha1, ha3⟩
        · simp only [hc, Bool.false_eq_true, if_false]
          obtain ⟨ih1, ih2⟩ := stepN_live n _ _ c p1 p2 ha1
          exact ⟨ih1, by rw [vals_append, vals_append, ha3, ih2]⟩
      · simp only [hp, Bool.false_eq_true, if_false]
        exact ⟨accum_live st1 st2 [c] h, by first | rfl | trivial⟩
    | none =>
      simp only [ha2]
      by_cases hc : (atHit st2 c p2).consumed = true
      · simp only [hc, if_true]; exact ⟨ha1, ha3⟩
      · simp only [hc, Bool.false_eq_true, if_false]
        obtain ⟨ih1, ih2⟩ := stepN_live n _ _ c p1 p2 ha1
        exact ⟨ih1, by rw [vals_append, vals_append, ha3, ih2]⟩

theorem foldBytes_live : ∀ (bs : Bytes) (st1 st2 : St) (p1 p2 : Nat), Live st1 st2 →
    Live (foldBytes st1 bs p1).1 (foldBytes st2 bs p2).1 ∧
      vals (foldBytes st1 bs p1).2 = vals (foldBytes st2 bs p2).2
  | [], st1, st2, p1, p2, h => by simp [foldBytes, h, vals]
  | c :: t, st1, st2, p1, p2, h => by
    simp only [foldBytes, stepByte]
    obtain ⟨h1, h2⟩ := stepN_live 3 st1 st2 c p1 p2 h
    obtain ⟨h3, h4⟩ := foldBytes_live t _ _ (p1 + 1) (p2 + 1) h1
    exact ⟨h3, by rw [vals_append, vals_append, h2, h4]⟩

/-- Running the automaton stream by stream (positions restarting) is running it over the
concatenation of the streams. -/
theorem lexChunks_flatten : ∀ (chunks : List Bytes) (st1 st2 : St) (p : Nat), Live st1 st2 →
    Live (lexChunks st1 chunks).1 (foldBytes st2 chunks.flatten p).1 ∧
      (lexChunks st1 chunks).2 = vals (foldBytes st2 chunks.flatten p).2
  | [], st1, st2, p, h => by simp [lexChunks, foldBytes, h, vals]
  | b :: rest, st1, st2, p, h => by
    simp only [lexChunks, List.flatten_cons]
    rw [foldBytes_append]
    obtain ⟨h1, h2⟩ := foldBytes_live b st1 st2 0 p h
    obtain ⟨h3, h4⟩ := lexChunks_flatten rest _ _ (p + b.length) h1
    exact ⟨h3, by rw [vals_append, h2, h4]⟩

/-- `PDFContentParser` over a `Contents` array delivers the tokens of the concatenated data. -/
theorem lexStreams_eq (streams : List Bytes) : lexStreams streams = vals (specLex streams.flatten) := by
  unfold lexStreams specLex
  rw [foldBytes_append]
  obtain ⟨h1, h2⟩ := lexChunks_flatten streams St.init St.init 0 (Live.refl _)
  simp only [foldBytes]
  obtain ⟨h3, h4⟩ := stepN_live 3 (lexChunks St.init streams).1 (foldBytes St.init streams.flatten 0).1 10 0
    (0 + streams.flatten.length) h1
  simp only [stepByte, List.append_nil] at *
  rw [vals_append, h2, h4]

/-- The scanner is between two tokens (`_parse1 = _parse_main`): nothing pending that the next
byte could extend. White space after a complete token puts it there. -/
def Between (st : St) : Prop := st.mode = .main

theorem between_live (st : St) (h : Between st) : Live st St.init := by
  unfold Between at h
  refine ⟨h, ?_, ?_, ?_, ?_⟩ <;> simp [h, isStringMode]

/-- ISO 32000-1 7.8.2 lets a `Contents` array be divided only at token boundaries and reads each
stream on its own. When the cut is at such a boundary (the scanner is between tokens after `a`),
lexing `a` and `b` independently gives what pdfminer's single scanner over `a ++ b` gives. -/
theorem lex_cut_between (a b : Bytes) (h : Between (foldBytes St.init a 0).1) :
    vals (foldBytes St.init (a ++ b) 0).2 = vals (foldBytes St.init a 0).2 ++ vals (foldBytes St.init b 0).2 ∧
    Live (foldBytes St.init (a ++ b) 0).1 (foldBytes St.init b 0).1 := by
  rw [foldBytes_append]
  obtain ⟨h1, h2⟩ := foldBytes_live b (foldBytes St.init a 0).1 St.init (0 + a.length) 0 (between_live _ h)
  exact ⟨by rw [vals_append, h2], h1⟩

theorem cls32 : isNONSPC 32 = false ∧ isEND_KEYWORD 32 = true ∧ isEND_NUMBER 32 = true ∧ isEND_LITERAL 32 = true := by decide +kernel
theorem cls10 : isNONSPC 10 = false ∧ isEND_KEYWORD 10 = true ∧ isEND_NUMBER 10 = true ∧ isEND_LITERAL 10 = true := by decide +kernel

theorem between_after_space (st : St) (c : UInt8) (pos : Nat) (hc : c = 32 ∨ c = 10)
    (hm : st.mode = .main ∨ st.mode = .keyword ∨ st.mode = .number ∨ st.mode = .literal ∨ st.mode = .wclose) :
    Between (stepByte st c pos).1 := by
  obtain ⟨m, cur, t, p, o, h⟩ := st
  simp only at hm
  rcases hc with rfl | rfl <;> rcases hm with rfl | rfl | rfl | rfl | rfl <;>
    simp [Between, stepByte, stepN, searchClass, atHit, parseMainHit, parseKeywordHit, parseNumberHit, parseLiteralHit,
      parseWcloseHit, accum, emit, cls32.1, cls32.2.1, cls32.2.2.1, cls32.2.2.2, cls10.1, cls10.2.1, cls10.2.2.1, cls10.2.2.2]


end PdfVerif.ContentLex
