/-
C06: `name2unicode` on EVERY glyph name = `pdfminerAgl` (AGL section 2 with the deviations D1 lower-case
hexadecimal digits and D2 unknown component => undefined name).  Helper lemmas for `Props.C06.name2unicode_exact`.
-/
import PdfVerif.Lemmas.Agl

namespace PdfVerif.SimpleFont
open PdfVerif PdfVerif.SimpleFont.Spec PdfVerif.Gen.FontCode

theorem hexDigitVal_eq_any (c : Char) : hexDigitVal c = anyHexVal c := by
  unfold hexDigitVal anyHexVal upperHexVal
  generalize c.toNat = n
  by_cases h1 : 48 ≤ n ∧ n ≤ 57
  · simp [h1]
  · by_cases h2 : 97 ≤ n ∧ n ≤ 102
    · have h3 : ¬ (65 ≤ n ∧ n ≤ 70) := by omega
      simp [h1, h2, h3]
    · by_cases h3 : 65 ≤ n ∧ n ≤ 70
      · simp [h1, h2, h3]
      · simp [h1, h2, h3]

theorem isHexDigit_eq_any : isHexDigit = isAnyHex := by
  funext c; simp [isHexDigit, isAnyHex, hexDigitVal_eq_any]

theorem hexValAux_eq_any : ∀ (r : List Char) (acc : Nat),
    hexValAux acc r = r.foldl (fun acc c => acc * 16 + (anyHexVal c).getD 0) acc
  | [], _ => rfl
  | c :: cs, acc => by
    simp only [hexValAux, List.foldl_cons, hexDigitVal_eq_any]
    exact hexValAux_eq_any cs _

theorem hexVal_eq_any (r : List Char) : hexVal r = anyHexNum r := hexValAux_eq_any r 0

theorem groups4_eq_any : ∀ (r : List Char), groups4 r = (fours r).map anyHexNum
  | a :: b :: c :: d :: rest => by
    simp only [groups4, fours, List.map_cons, hexVal_eq_any, groups4_eq_any rest]
  | [] => rfl
  | [_] => rfl
  | [_, _] => rfl
  | [_, _, _] => rfl

theorem isAnyHex_n : isAnyHex 'n' = false := by decide

/-- One component, every component: pdfminer's value is the (D1) value, `none` when that is empty. -/
theorem comp_exact {gl : GlyphList} (hgl : GlyphListOK gl) (c : Name) :
    comp gl c = textOpt (aglCompL gl c) := by
  unfold comp aglCompL
  cases hlook : glLookup gl c with
  | some t =>
    have := glLookup_ne_nil hgl hlook
    simp only [textOpt]
    cases t with
    | nil => exact absurd rfl this
    | cons a b => simp
  | none =>
    have e3 : UNI_PREFIX.length = 3 := rfl
    have e1 : U_PREFIX.length = 1 := rfl
    simp only [isPrefixOf_uni, isPrefixOf_u, e3, e1, UNI_GROUP, U_MIN, U_MAX]
    by_cases huni : c.take 3 = ['u', 'n', 'i']
    · have huform : uFormL c = none := by
        simp [uFormL, take1_of_uni huni, drop1_of_uni huni, isAnyHex_n]
      simp only [huni, decide_true, if_true, uniFormL, huform]
      generalize c.drop 3 = r
      simp only [allHex, isHexDigit_eq_any, groups4_eq_any]
      by_cases hne : r = []
      · subst hne
        simp [fours, textOpt]
      · have hie : r.isEmpty = false := by cases r <;> simp_all
        simp only [hie, Bool.not_false, Bool.true_and]
        by_cases hah : r.all isAnyHex = true
        · by_cases hlen : r.length % 4 = 0
          · have hgn := groups4_ne_nil r hne hlen
            rw [groups4_eq_any] at hgn
            simp only [hah, hlen, Bool.true_and, beq_self_eq_true, if_true]
            have hall : ((fours r).map anyHexNum).all validUnicode = ((fours r).map anyHexNum).all isScalar := by
              congr 1; funext v; exact validUnicode_eq_isScalar v
            rw [hall]
            cases hs : ((fours r).map anyHexNum).all isScalar
            · simp [textOpt]
            · simp only [if_true, textOpt]
              cases hv : (fours r).map anyHexNum with
              | nil => exact absurd hv hgn
              | cons a b => simp
          · have : (r.length % 4 == 0) = false := by simp [hlen]
            simp [this, textOpt]
        · have hah' : r.all isAnyHex = false := by simpa using hah
          simp [hah', textOpt]
    · by_cases hu : c.take 1 = ['u']
      · simp only [huni, decide_false, Bool.false_eq_true, if_false, hu, decide_true, if_true, uniFormL, uFormL]
        generalize c.drop 1 = r
        simp only [allHex, isHexDigit_eq_any, hexVal_eq_any, validUnicode_eq_isScalar]
        by_cases hah : r.all isAnyHex = true
        · by_cases hlen : 4 ≤ r.length ∧ r.length ≤ 6
          · have hne : r ≠ [] := by
              intro h; subst h; simp at hlen
            have hie : r.isEmpty = false := by cases r <;> simp_all
            simp only [hie, hah, hlen.1, hlen.2, decide_true, Bool.not_false, Bool.true_and, Bool.and_self, if_true]
            cases hs : isScalar (anyHexNum r) <;> simp [textOpt]
          · have : (decide (4 ≤ r.length) && decide (r.length ≤ 6)) = false := by
              by_cases h4 : 4 ≤ r.length
              · have : ¬ r.length ≤ 6 := fun h => hlen ⟨h4, h⟩
                simp [h4, this]
              · simp [h4]
            simp [Bool.and_assoc, this, textOpt]
        · have hah' : r.all isAnyHex = false := by simpa using hah
          simp [hah', textOpt]
      · simp [huni, hu, uniFormL, uFormL, textOpt]

theorem joinAll_exact {gl : GlyphList} (hgl : GlyphListOK gl) : ∀ (cs : List Name),
    joinAll gl cs = if (cs.map (aglCompL gl)).all (fun t => !t.isEmpty) then some ((cs.map (aglCompL gl)).flatten) else none
  | [] => by simp [joinAll]
  | c :: cs => by
    have hc := comp_exact hgl c
    have ih := joinAll_exact hgl cs
    simp only [joinAll, hc, ih, List.all_cons, List.map_cons, List.flatten_cons, textOpt]
    cases he : (aglCompL gl c).isEmpty
    · cases ha : (cs.map (aglCompL gl)).all (fun t => !t.isEmpty) <;> simp
    · simp

/-- `name2unicode` on every name. -/
theorem name2unicode_eq_pdfminerAgl {gl : GlyphList} (hgl : GlyphListOK gl) (nm : Option Name) :
    name2unicode gl nm = pdfminerAgl gl nm := by
  cases nm with
  | none => rfl
  | some n =>
    have key : ∀ cs, cs = splitOn '_' (dropSuffix n) → name2unicode gl (some n) =
        (if ((cs.map (aglCompL gl)).all fun t => !t.isEmpty) then some (cs.map (aglCompL gl)).flatten else none) := by
      intro cs hcs
      simp only [name2unicode, beforeDot_eq_dropSuffix, COMPONENT_SEP, ← hcs]
      by_cases hlen : cs.length > 1
      · simp only [hlen, if_true, joinAll_exact hgl]
      · simp only [hlen, if_false]
        have hs : cs = [dropSuffix n] := by
          rw [hcs]; exact splitOn_single '_' (dropSuffix n) (by rw [← hcs]; omega)
        rw [hs, comp_exact hgl]
        simp only [List.map_cons, List.map_nil, List.all_cons, List.all_nil, Bool.and_true, List.flatten_cons,
          List.flatten_nil, List.append_nil, textOpt]
        cases (aglCompL gl (dropSuffix n)).isEmpty <;> simp
    exact key _ rfl

end PdfVerif.SimpleFont
