/-
Every hand-written scanner body `parse*Hit` of `Model/Lexer.lean` equals the interpretation of the body
regenerated from psparser.py (`Gen/LexScan.lean`), for every parser state, byte and position.
-/
import PdfVerif.Model.LexScan

namespace PdfVerif.Lexer
open PdfVerif PdfVerif.Gen.LexTables PdfVerif.Gen.LexScan

theorem neg1 (x : Int) : x + -1 = x - 1 := by omega

theorem and255 (d : Nat) : d &&& 255 = d % 256 := Nat.and_two_pow_sub_one_eq_mod d 8

theorem mod256 (d : Nat) : d % 256 < 256 := Nat.mod_lt _ (by decide)

theorem tie_main (st : St) (c : UInt8) (j : Nat) : parseMainHit st c j = genHit .main st c j := by
  simp only [genHit, progOf, P_main, interp, exec, evalCond, parseMainHit]
  repeat' split
  all_goals simp_all [interp, exec, evalCond, withTok, modeOfScn, emit]

theorem tie_comment (st : St) (c : UInt8) (j : Nat) : parseCommentHit st = genHit .comment st c j := by
  simp [genHit, progOf, P_comment, interp, exec, parseCommentHit, modeOfScn]

theorem tie_literal (st : St) (c : UInt8) (j : Nat) : parseLiteralHit st c = genHit .literal st c j := by
  simp only [genHit, progOf, P_literal, interp, exec, evalCond, parseLiteralHit]
  repeat' split
  all_goals simp_all [interp, exec, evalCond, withTok, modeOfScn, emit, setFld]

theorem tie_literalHex (st : St) (c : UInt8) (j : Nat) : parseLiteralHexHit st c = genHit .literal_hex st c j := by
  simp only [genHit, progOf, P_literal_hex, interp, exec, evalCond, withTok, parseLiteralHexHit, raise, raiseIS, clsFn,
    getFld, setFld, modeOfScn, constBytes, neg1, and255]
  by_cases h1 : isHEX c = true <;> by_cases h2 : st.hex.length < 2 <;> by_cases hE : st.hex = [] <;>
    simp [emit, h1, h2, hE]
  all_goals (repeat' split)
  all_goals (try simp_all)
  all_goals omega
  all_goals omega

theorem tie_number (st : St) (c : UInt8) (j : Nat) : parseNumberHit st c = genHit .number st c j := by
  simp only [genHit, progOf, P_number, interp, exec, evalCond, withTok, parseNumberHit, raise, raiseIS, clsFn, getFld, setFld,
    modeOfScn, constBytes, neg1, and255]
  repeat' split
  all_goals simp_all [interp, exec, evalCond, withTok, modeOfScn, emit, setFld, getFld, raise, raiseIS, constBytes, neg1, and255,
    mod256]

theorem tie_float (st : St) (c : UInt8) (j : Nat) : parseFloatHit st = genHit .float st c j := by
  simp only [genHit, progOf, P_float, interp, exec, evalCond, withTok, parseFloatHit, raise, raiseIS, clsFn, getFld, setFld,
    modeOfScn, constBytes, neg1, and255]
  repeat' split
  all_goals simp_all [interp, exec, evalCond, withTok, modeOfScn, emit, setFld, getFld, raise, raiseIS, constBytes, neg1, and255,
    mod256]

theorem tie_keyword (st : St) (c : UInt8) (j : Nat) : parseKeywordHit st = genHit .keyword st c j := by
  simp only [genHit, progOf, P_keyword, interp, exec, evalCond, withTok, parseKeywordHit, raise, raiseIS, clsFn, getFld, setFld,
    modeOfScn, constBytes, neg1, and255]
  repeat' split
  all_goals simp_all [interp, exec, evalCond, withTok, modeOfScn, emit, setFld, getFld, raise, raiseIS, constBytes, neg1, and255,
    mod256, kwTrue, kwFalse]

theorem tie_string (st : St) (c : UInt8) (j : Nat) : parseStringHit st c = genHit .string st c j := by
  simp only [genHit, progOf, P_string, interp, exec, evalCond, withTok, parseStringHit, raise, raiseIS, clsFn, getFld, setFld,
    modeOfScn, constBytes, neg1, and255]
  repeat' split
  all_goals simp_all [interp, exec, evalCond, withTok, modeOfScn, emit, setFld, getFld, raise, raiseIS, constBytes, neg1, and255,
    mod256]

theorem tie_string1 (st : St) (c : UInt8) (j : Nat) : parseString1Hit st c = genHit .string_1 st c j := by
  simp only [genHit, progOf, P_string_1, interp, exec, evalCond, withTok, parseString1Hit, raise, raiseIS, clsFn, getFld,
    setFld, modeOfScn, constBytes, neg1, and255]
  by_cases h1 : isOCT_STRING c = true <;> by_cases h2 : st.oct.length < 3 <;> by_cases hE : st.oct = [] <;>
    simp [emit, mod256, h1, h2, hE]
  all_goals (repeat' split)
  all_goals (try simp_all)
  all_goals omega

theorem tie_string2 (st : St) (c : UInt8) (j : Nat) : parseString2Hit st c = genHit .string_2 st c j := by
  by_cases h : c = 10 <;> simp [genHit, progOf, P_string_2, interp, exec, evalCond, parseString2Hit, modeOfScn, h]

theorem tie_wopen (st : St) (c : UInt8) (j : Nat) : parseWopenHit st c = genHit .wopen st c j := by
  simp only [genHit, progOf, P_wopen, interp, exec, evalCond, withTok, parseWopenHit, raise, raiseIS, clsFn, getFld, setFld,
    modeOfScn, constBytes, neg1, and255]
  repeat' split
  all_goals simp_all [interp, exec, evalCond, withTok, modeOfScn, emit, setFld, getFld, raise, raiseIS, constBytes, neg1, and255,
    mod256, kwDictBegin, KEYWORD_DICT_BEGIN]

theorem tie_wclose (st : St) (c : UInt8) (j : Nat) : parseWcloseHit st c = genHit .wclose st c j := by
  simp only [genHit, progOf, P_wclose, interp, exec, evalCond, withTok, parseWcloseHit, raise, raiseIS, clsFn, getFld, setFld,
    modeOfScn, constBytes, neg1, and255]
  repeat' split
  all_goals simp_all [interp, exec, evalCond, withTok, modeOfScn, emit, setFld, getFld, raise, raiseIS, constBytes, neg1, and255,
    mod256, kwDictEnd, KEYWORD_DICT_END]

theorem tie_hexstring (st : St) (c : UInt8) (j : Nat) : parseHexstringHit st = genHit .hexstring st c j := by
  simp only [genHit, progOf, P_hexstring, interp, exec, evalCond, withTok, parseHexstringHit, raise, raiseIS, clsFn, getFld, setFld,
    modeOfScn, constBytes, neg1, and255]
  repeat' split
  all_goals simp_all [interp, exec, evalCond, withTok, modeOfScn, emit, setFld, getFld, raise, raiseIS, constBytes, neg1, and255,
    mod256]

/-- Every scanner body of the hand model is the regenerated one. -/
theorem atHit_eq_gen (st : St) (c : UInt8) (j : Nat) : atHit st c j = genAtHit st c j := by
  unfold atHit genAtHit
  cases hm : st.mode <;> simp only [scnOfMode]
  · exact tie_main st c j
  · exact tie_comment st c j
  · exact tie_literal st c j
  · exact tie_literalHex st c j
  · exact tie_number st c j
  · exact tie_float st c j
  · exact tie_keyword st c j
  · exact tie_string st c j
  · exact tie_string1 st c j
  · exact tie_string2 st c j
  · exact tie_wopen st c j
  · exact tie_wclose st c j
  · exact tie_hexstring st c j

/-- The regex each scanner searches with, and whether the skipped bytes go to `_curtoken`, are the
    regenerated ones. -/
theorem searchClass_eq_gen (m : Mode) :
    searchClass m = ((scnOfMode m).bind searchRe).map clsFn := by
  cases m <;> rfl

theorem accum_eq_gen (st : St) (pre : Bytes) (m : Scn) (hm : scnOfMode st.mode = some m) (hs : (searchRe m).isSome) :
    accum st pre = if searchAccum m then { st with cur := st.cur ++ pre } else st := by
  unfold accum
  cases hmode : st.mode <;> simp [hmode, scnOfMode] at hm <;> subst hm <;> simp [searchAccum, searchRe] at hs ⊢

/-- One scanner call of the hand model = the call assembled from regenerated parts. -/
theorem call_eq_gen (st : St) (rest : Bytes) (pos : Nat) : call st rest pos = genCall st rest pos := by
  cases rest with
  | nil => unfold call genCall; cases hm : scnOfMode st.mode <;> simp [call]
  | cons c0 tl0 =>
    cases hm : scnOfMode st.mode with
    | none => simp [genCall, hm]
    | some m =>
      have hsc := searchClass_eq_gen st.mode
      have hat : ∀ s' : St, s'.mode = st.mode → ∀ c j, atHit s' c j = genHit m s' c j := by
        intro s' hs' c j
        rw [atHit_eq_gen, genAtHit, hs', hm]
      simp only [call, genCall, hm, hsc, Option.bind_some]
      cases hr : searchRe m with
      | none => simp [hat st rfl]
      | some r =>
        have hacc := accum_eq_gen st (search (clsFn r) (c0 :: tl0)).1 m hm (by simp [hr])
        have hmode : (accum st (search (clsFn r) (c0 :: tl0)).1).mode = st.mode := by
          unfold accum; split <;> rfl
        simp only [Option.map_some]
        rw [← hacc]
        cases h2 : (search (clsFn r) (c0 :: tl0)).2 with
        | nil => simp
        | cons c tl => simp [hat _ hmode]

end PdfVerif.Lexer
