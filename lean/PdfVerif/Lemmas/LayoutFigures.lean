/-
Nested figures: the recursive structure of LTLayoutContainer.analyze / LTFigure.analyze over a page with
figures inside figures, and helper lemmas for the tree-wide conservation theorem of Props/C08.lean.
-/
import PdfVerif.Lemmas.LayoutResult
namespace PdfVerif.Layout
open PdfVerif PdfVerif.Gen.Layout

/-! ## nested figures -/

/-- A page item with nested figures (`LTFigure` is itself a layout container). -/
inductive FItem where
  | ch (g : Glyph)
  | other (id : Nat)
  | fig (id : Nat) (bb : BB) (children : List FItem)

/-- The analysed tree: an analysed container with its analysed figures, or an untouched figure. -/
inductive FOut where
  | node (id : Nat) (r : Result) (figs : List FOut)
  | raw (id : Nat) (items : List FItem)

/-- What the container itself sees: a figure is an opaque item. -/
def FItem.flat : FItem → Item
  | .ch g => .ch g
  | .other i => .other i
  | .fig i _ _ => .other i

mutual
def FItem.glyphs : FItem → List Glyph
  | .ch g => [g]
  | .other _ => []
  | .fig _ _ ch => glyphsL ch
def glyphsL : List FItem → List Glyph
  | [] => []
  | it :: rest => it.glyphs ++ glyphsL rest
end

/-- `obj.analyze(laparams)` for the figures among the items of a container that is being analysed
(`LTFigure.analyze`: nothing happens unless `all_texts`; otherwise `LTLayoutContainer.analyze`, which first
analyses the figure's own figures). -/
def analyzeFigs (le : Cmp) (allTexts : Bool) (p : LAParams) : List FItem → List FOut
  | [] => []
  | .fig id bb ch :: rest =>
    (if allTexts then FOut.node id (analyze le p bb (ch.map FItem.flat)) (analyzeFigs le allTexts p ch)
     else FOut.raw id ch) :: analyzeFigs le allTexts p rest
  | _ :: rest => analyzeFigs le allTexts p rest

/-- `LTPage.analyze(laparams)` with everything below it. -/
def analyzePage (le : Cmp) (allTexts : Bool) (p : LAParams) (bb : BB) (items : List FItem) : FOut :=
  .node 0 (analyze le p bb (items.map FItem.flat)) (analyzeFigs le allTexts p items)

mutual
def FOut.glyphs : FOut → List Glyph
  | .node _ r figs => r.children.flatMap Child.glyphs ++ outGlyphsL figs
  | .raw _ items => glyphsL items
def outGlyphsL : List FOut → List Glyph
  | [] => []
  | o :: rest => o.glyphs ++ outGlyphsL rest
end

mutual
def FItem.WfFigs : FItem → Prop
  | .ch _ => True
  | .other _ => True
  | .fig _ bb ch => WfPage bb ∧ wfFigsL ch
def wfFigsL : List FItem → Prop
  | [] => True
  | it :: rest => it.WfFigs ∧ wfFigsL rest
end


/-- Glyphs that sit inside the figures among `items` (at any depth). -/
def figGlyphsL : List FItem → List Glyph
  | [] => []
  | .fig _ _ ch :: rest => glyphsL ch ++ figGlyphsL rest
  | _ :: rest => figGlyphsL rest

theorem glyphsL_split : ∀ items : List FItem,
    (glyphsL items).Perm ((items.map FItem.flat).filterMap Item.glyph? ++ figGlyphsL items)
  | [] => by simp [glyphsL, figGlyphsL]
  | .ch g :: rest => by
    simp only [glyphsL, FItem.glyphs, figGlyphsL, List.map_cons, FItem.flat, List.filterMap_cons, Item.glyph?]
    exact List.Perm.cons g (glyphsL_split rest)
  | .other i :: rest => by
    simp only [glyphsL, FItem.glyphs, figGlyphsL, List.map_cons, FItem.flat, List.filterMap_cons, Item.glyph?, List.nil_append]
    exact glyphsL_split rest
  | .fig i bb ch :: rest => by
    simp only [glyphsL, FItem.glyphs, figGlyphsL, List.map_cons, FItem.flat, List.filterMap_cons, Item.glyph?]
    have ih := glyphsL_split rest
    refine (List.Perm.append_left _ ih).trans ?_
    simp only [← List.append_assoc]
    exact List.Perm.append_right _ List.perm_append_comm

end PdfVerif.Layout
