/-
C12 — helper lemmas about the object cache with mutable containers (`Model/ProcObjCache.lean`).
-/
import PdfVerif.Model.ProcObjCache
import PdfVerif.Lemmas.Process

namespace PdfVerif.ObjCache
open PdfVerif.Process (alookup alookup_mem)

/-- every cached reference points at a cell that holds what a fresh parse of its object gives -/
def Inv (parse : Nat → Option (List Nat)) (s : St) : Prop :=
  ∀ k a, (k, a) ∈ s.cache → ∃ v, parse k = some v ∧ s.heap[a]? = some v

theorem inv_init (parse : Nat → Option (List Nat)) : Inv parse St.init := by
  intro k a h; simp [St.init] at h

theorem getElem?_append_some {α : Type} {l : List α} {a : Nat} {v : α} (e : List α) (h : l[a]? = some v) :
    (l ++ e)[a]? = some v := by
  have hlt : a < l.length := by
    rcases Nat.lt_or_ge a l.length with h1 | h1
    · exact h1
    · rw [List.getElem?_eq_none_iff.mpr h1] at h; cases h
  rw [List.getElem?_append_left hlt]; exact h

theorem inv_append {parse : Nat → Option (List Nat)} {s : St} (e : List (List Nat)) (h : Inv parse s) :
    Inv parse { s with heap := s.heap ++ e } := by
  intro k a hm
  obtain ⟨v, h1, h2⟩ := h k a hm
  exact ⟨v, h1, getElem?_append_some e h2⟩

theorem getobj_inv {parse : Nat → Option (List Nat)} (caching : Bool) {s : St} (n : Nat) (h : Inv parse s) :
    Inv parse (getobj parse caching s n).2 := by
  unfold getobj
  cases hc : alookup n s.cache with
  | some a => exact h
  | none =>
    cases hp : parse n with
    | none => exact h
    | some v =>
      intro k a hm
      cases caching with
      | false => exact inv_append [v] h k a hm
      | true =>
        simp only [if_true, List.mem_cons, Prod.mk.injEq] at hm
        rcases hm with ⟨rfl, rfl⟩ | hm
        · exact ⟨v, hp, by simp⟩
        · exact inv_append [v] h k a hm

/-- on a state whose cache is sound, `getobj` hands out a reference to a fresh-parse value -/
theorem getobj_value {parse : Nat → Option (List Nat)} (caching : Bool) {s : St} (n : Nat) (h : Inv parse s) :
    (getobj parse caching s n).1.bind (fun a => (getobj parse caching s n).2.heap[a]?) = parse n := by
  unfold getobj
  cases hc : alookup n s.cache with
  | some a =>
    obtain ⟨v, h1, h2⟩ := h n a (alookup_mem hc)
    simp [h1, h2]
  | none =>
    cases hp : parse n with
    | none => simp
    | some v => simp

theorem step_inv {parse : Nat → Option (List Nat)} (caching : Bool) {s : St} (op : Op) (hop : op.inPlace = false)
    (h : Inv parse s) : Inv parse (step parse caching s op).1 := by
  cases op with
  | get n => exact getobj_inv caching n h
  | mutInPlace n v => simp [Op.inPlace] at hop
  | copyMut n v =>
    have h1 := getobj_inv caching n h
    simp only [step]
    split
    · exact h1
    · exact inv_append _ h1

theorem run_inv {parse : Nat → Option (List Nat)} (caching : Bool) : ∀ (hist : List Op) {s : St},
    (∀ op ∈ hist, op.inPlace = false) → Inv parse s → Inv parse (run parse caching s hist)
  | [], _, _, h => h
  | op :: ops, s, hp, h => by
    simp only [run]
    exact run_inv caching ops (fun o ho => hp o (List.mem_cons_of_mem _ ho))
      (step_inv caching op (hp op List.mem_cons_self) h)

/-! ### without a cache nothing is ever remembered -/

theorem getobj_nocache {parse : Nat → Option (List Nat)} {s : St} (n : Nat) (h : s.cache = []) :
    (getobj parse false s n).2.cache = [] := by
  unfold getobj
  rw [h]
  simp only [alookup]
  cases parse n <;> simp [h]

theorem step_nocache {parse : Nat → Option (List Nat)} {s : St} (op : Op) (h : s.cache = []) :
    (step parse false s op).1.cache = [] := by
  cases op with
  | get n => exact getobj_nocache n h
  | mutInPlace n v =>
    have h1 := getobj_nocache (parse := parse) n h
    simp only [step]
    split
    · exact h1
    · split <;> exact h1
  | copyMut n v =>
    have h1 := getobj_nocache (parse := parse) n h
    simp only [step]
    split <;> exact h1

theorem run_nocache {parse : Nat → Option (List Nat)} : ∀ (hist : List Op) {s : St}, s.cache = [] →
    (run parse false s hist).cache = []
  | [], _, h => h
  | op :: ops, s, h => by
    simp only [run]
    exact run_nocache ops (step_nocache op h)

theorem inv_of_nocache {parse : Nat → Option (List Nat)} {s : St} (h : s.cache = []) : Inv parse s := by
  intro k a hm; rw [h] at hm; cases hm

end PdfVerif.ObjCache
