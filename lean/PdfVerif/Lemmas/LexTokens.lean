/-
Token-level lemmas for C01: how the byte automaton (`Lexer.foldBytes`) reads the conformant
spellings of integers, names, hexadecimal strings and literal strings.  Facts about single
bytes are decided on the regenerated tables.
-/
import PdfVerif.Lemmas.LexerErr

namespace PdfVerif.Lexer
open PdfVerif PdfVerif.Gen.LexTables

/-! ### facts about single bytes (decided on the regenerated tables) -/

theorem digit_facts : ∀ c : UInt8,
    (!isDigit c || (!isEND_NUMBER c && isNONSPC c && c != 37 && c != 47 && c != 46 && digitBelow 10 c)) = true :=
  forall_byte _ (by decide +kernel)

theorem sign_facts : (isNONSPC 43 && isNONSPC 45 && !isDigit 43 && !isDigit 45) = true := by decide +kernel

/-- In the main scanner a digit or sign starts a number token at the current position. -/
theorem main_number_start (st : St) (c : UInt8) (pos : Nat) (hm : st.mode = .main)
    (hc : isDigit c = true ∨ c = 43 ∨ c = 45) :
    stepByte st c pos = ({ st with tpos := pos, cur := [c], mode := .number }, []) := by
  have hns : isNONSPC c = true := by
    rcases hc with h | rfl | rfl
    · have := digit_facts c; simp [h] at this; exact this.1.1.1.1.2
    · have := sign_facts; simp at this; exact this.1.1.1
    · have := sign_facts; simp at this; exact this.1.1.2
  have h37 : (c == 37) = false := by
    rcases hc with h | rfl | rfl
    · have := digit_facts c; simp [h] at this; simpa using this.1.1.1.2
    · decide
    · decide
  have h47 : (c == 47) = false := by
    rcases hc with h | rfl | rfl
    · have := digit_facts c; simp [h] at this; simpa using this.1.1.2
    · decide
    · decide
  have hnum : (c == 45 || c == 43 || isDigit c) = true := by
    rcases hc with h | rfl | rfl <;> simp_all
  rw [step_hit st c pos (Or.inr ⟨isNONSPC, by simp [hm, searchClass], hns⟩)]
  simp [atHit, hm, parseMainHit, h37, h47, hnum]

/-- Digits are appended to a pending number token. -/
theorem number_digits (st : St) (ds : Bytes) (pos : Nat) (hm : st.mode = .number)
    (hd : ∀ c ∈ ds, isDigit c = true) :
    foldBytes st ds pos = ({ st with cur := st.cur ++ ds }, []) := by
  have h := fold_nonmatch isEND_NUMBER ds [] st pos (by simp [hm, searchClass])
    (fun x hx => by have := digit_facts x; simp [hd x hx] at this; exact this.1.1.1.1.1)
  simp only [List.append_nil] at h
  rw [h]
  simp [foldBytes, accum, hm]

/-- decimal value of a digit string (Horner), the value the ISO grammar gives it -/
def decimalNat (ds : Bytes) : Nat := ds.foldl (fun acc c => acc * 10 + (c.toNat - 48)) 0

theorem natOfDigits_decimal : ∀ (ds : Bytes) (acc : Nat), (∀ c ∈ ds, isDigit c = true) →
    natOfDigits 10 ds acc = some (ds.foldl (fun a c => a * 10 + (c.toNat - 48)) acc)
  | [], acc, _ => rfl
  | c :: t, acc, h => by
    have hc := h c (by simp)
    have hv : digitVal c = some (c.toNat - 48) := by
      unfold isDigit at hc
      simp only [digitVal, hc, if_true]
    have hlt : c.toNat - 48 < 10 := by
      unfold isDigit at hc
      simp only [Bool.and_eq_true, decide_eq_true_eq] at hc
      have h2 : c.toNat ≤ 57 := by have := hc.2; exact UInt8.le_iff_toNat_le.mp this
      omega
    simp only [natOfDigits, hv, hlt, if_true, List.foldl_cons]
    exact natOfDigits_decimal t _ (fun x hx => h x (by simp [hx]))

/-- the integer a spelling `sign ++ digits` denotes -/
def intValue (sign : Bytes) (ds : Bytes) : Int :=
  if sign = [45] then -(decimalNat ds : Int) else (decimalNat ds : Int)

theorem pyInt_spelling (sign ds : Bytes) (hs : sign = [] ∨ sign = [43] ∨ sign = [45]) (hne : ds ≠ [])
    (hd : ∀ c ∈ ds, isDigit c = true) (hlen : ds.length ≤ maxStrDigits) :
    pyInt (sign ++ ds) = some (intValue sign ds) := by
  have hnat : pyIntBase 10 ds = some (decimalNat ds) := by
    have : ds.isEmpty = false := by cases ds <;> simp_all
    simp [pyIntBase, this, natOfDigits_decimal ds 0 hd, decimalNat]
  have hnl : ¬ (ds.length > maxStrDigits) := by omega
  rcases hs with rfl | rfl | rfl
  · -- no sign: the first byte is a digit, so neither 45 nor 43
    cases ds with
    | nil => exact absurd rfl hne
    | cons c t =>
      have hc := hd c (by simp)
      have h45 : c ≠ 45 := by intro e; subst e; have := sign_facts; simp at this; simp_all
      have h43 : c ≠ 43 := by intro e; subst e; have := sign_facts; simp at this; simp_all
      simp only [List.nil_append, pyInt]
      split
      · rename_i heq; simp at heq; exact absurd heq.1 h45
      · rename_i heq; simp at heq; exact absurd heq.1 h43
      · have hl : t.length + 1 ≤ maxStrDigits := by simpa using hlen
        simp [hnat, intValue, hl]
  · simp [pyInt, hnl, hnat, intValue]
  · simp [pyInt, hnl, hnat, intValue]

/-- A pending number token ends at any non-digit other than `.`: the integer is emitted and the
    byte is handled by the main scanner. -/
theorem number_end (sp : St) (d : UInt8) (p : Nat) (v : Int) (hm : sp.mode = .number)
    (hd : isEND_NUMBER d = true) (h46 : d ≠ 46) (hv : pyInt sp.cur = some v) :
    stepByte sp d p =
      ((stepByte { sp with mode := .main } d p).1,
       (sp.tpos, Token.int v) :: (stepByte { sp with mode := .main } d p).2) := by
  have h46' : (d == 46) = false := by simpa using h46
  rw [step_hit sp d p (Or.inr ⟨isEND_NUMBER, by simp [hm, searchClass], hd⟩)]
  simp [atHit, hm, parseNumberHit, h46', hv, emit]

/-- The whole spelling `[+-]?d+` is accumulated as one pending number token. -/
theorem int_spelling_pending (st : St) (hm : st.mode = .main) (sign ds : Bytes) (pos : Nat)
    (hs : sign = [] ∨ sign = [43] ∨ sign = [45]) (hne : ds ≠ []) (hd : ∀ c ∈ ds, isDigit c = true) :
    foldBytes st (sign ++ ds) pos = ({ st with tpos := pos, cur := sign ++ ds, mode := .number }, []) := by
  rcases hs with rfl | rfl | rfl
  · cases ds with
    | nil => exact absurd rfl hne
    | cons c t =>
      simp only [List.nil_append, foldBytes, main_number_start st c pos hm (Or.inl (hd c (by simp)))]
      rw [number_digits _ t (pos + 1) rfl (fun x hx => hd x (by simp [hx]))]
      simp
  · simp only [List.cons_append, List.nil_append, foldBytes, main_number_start st 43 pos hm (Or.inr (Or.inl rfl))]
    rw [number_digits _ ds (pos + 1) rfl hd]
    simp
  · simp only [List.cons_append, List.nil_append, foldBytes, main_number_start st 45 pos hm (Or.inr (Or.inr rfl))]
    rw [number_digits _ ds (pos + 1) rfl hd]
    simp

/-! ### names -/

/-- a byte that may be written raw in a name: regular, 21h–7Eh, not `#` (ISO 32000-1 7.3.5) -/
def nameRaw (c : UInt8) : Bool :=
  33 ≤ c && c ≤ 126 && c != 35 && c != 40 && c != 41 && c != 60 && c != 62 && c != 91 && c != 93 &&
    c != 123 && c != 125 && c != 47 && c != 37

/-- one element of a name's spelling: a raw byte or `#` + two hexadecimal digit characters -/
inductive NameItem where
  | raw (c : UInt8)
  | esc (h l : UInt8)

def hexCharVal (c : UInt8) : Nat := (digitVal c).getD 0

def NameItem.ok : NameItem → Prop
  | .raw c => nameRaw c = true
  | .esc h l => isHEX h = true ∧ isHEX l = true

def NameItem.render : NameItem → Bytes
  | .raw c => [c]
  | .esc h l => [35, h, l]

def NameItem.value : NameItem → UInt8
  | .raw c => c
  | .esc h l => UInt8.ofNat (hexCharVal h * 16 + hexCharVal l)

def renderName : List NameItem → Bytes
  | [] => []
  | i :: r => i.render ++ renderName r

def nameValue : List NameItem → Bytes
  | [] => []
  | i :: r => i.value :: nameValue r

theorem nameRaw_facts : ∀ c : UInt8, (!nameRaw c || !isEND_LITERAL c) = true :=
  forall_byte _ (by decide +kernel)

theorem name_byte_facts : (isEND_LITERAL 35 && isNONSPC 47) = true := by decide +kernel

/-- the name token being read denotes `v`: either everything is in `_curtoken`, or the last byte is
    still the two digits of a `#xx` escape -/
def NamePending (v : Bytes) (tp : Nat) (st : St) : Prop :=
  st.tpos = tp ∧
  ((st.mode = .literal ∧ st.cur = v) ∨
   (∃ h l, st.mode = .literalHex ∧ st.hex = [h, l] ∧ isHEX h = true ∧ isHEX l = true ∧
      st.cur ++ [UInt8.ofNat (hexCharVal h * 16 + hexCharVal l)] = v))

theorem hex_pair_value (h l : UInt8) (hh : isHEX h = true) (hl : isHEX l = true) :
    pyIntBase 16 [h, l] = some (hexCharVal h * 16 + hexCharVal l) ∧ hexCharVal h * 16 + hexCharVal l < 256 := by
  have h1 := hex_digit h
  have h2 := hex_digit l
  simp only [hh, hl, Bool.not_true, Bool.false_or, digitBelow] at h1 h2
  split at h1
  · rename_i a ha
    split at h2
    · rename_i b hb
      have ha' : a < 16 := by simpa using h1
      have hb' : b < 16 := by simpa using h2
      simp [pyIntBase, natOfDigits, ha, hb, ha', hb', hexCharVal]
      omega
    · simp at h2
  · simp at h1

/-- A completed `#xx` escape is turned into its byte by whatever byte comes next. -/
theorem literalHex_full (st : St) (c : UInt8) (p : Nat) (h l : UInt8) (hm : st.mode = .literalHex)
    (hx : st.hex = [h, l]) (hh : isHEX h = true) (hl : isHEX l = true) :
    stepByte st c p =
      stepByte { st with cur := st.cur ++ [UInt8.ofNat (hexCharVal h * 16 + hexCharVal l)], mode := .literal } c p := by
  have hv := hex_pair_value h l hh hl
  rw [step_hit st c p (Or.inl (by simp [hm, searchClass]))]
  simp [atHit, hm, parseLiteralHexHit, hx, hv.1, hv.2]

/-- Any pending name state behaves, on the next byte, like a `literal` state whose `_curtoken` is the value. -/
theorem namePending_literal (v : Bytes) (tp : Nat) (st : St) (c : UInt8) (p : Nat) (h : NamePending v tp st) :
    ∃ st', st'.mode = .literal ∧ st'.cur = v ∧ st'.tpos = tp ∧ stepByte st c p = stepByte st' c p := by
  obtain ⟨htp, h | ⟨hh, hl, hm, hx, h1, h2, hv⟩⟩ := h
  · exact ⟨st, h.1, h.2, htp, rfl⟩
  · refine ⟨{ st with cur := st.cur ++ [UInt8.ofNat (hexCharVal hh * 16 + hexCharVal hl)], mode := .literal },
      rfl, hv, htp, ?_⟩
    exact literalHex_full st c p hh hl hm hx h1 h2

theorem name_item_step (v : Bytes) (tp : Nat) (st : St) (p : Nat) (i : NameItem) (hp : NamePending v tp st)
    (hi : i.ok) : ∃ st', NamePending (v ++ [i.value]) tp st' ∧ foldBytes st i.render p = (st', []) := by
  cases i with
  | raw c =>
    obtain ⟨st', hm, hc, htp, he⟩ := namePending_literal v tp st c p hp
    have hne : isEND_LITERAL c = false := by
      have := nameRaw_facts c
      simp only [NameItem.ok] at hi
      simpa [hi] using this
    refine ⟨accum st' [c], ⟨by simp [accum, hm, htp], Or.inl ⟨by simp [hm], by simp [accum, hm, hc, NameItem.value]⟩⟩, ?_⟩
    simp only [NameItem.render, foldBytes, he, step_nonmatch st' c p isEND_LITERAL (by simp [hm, searchClass]) hne]
    simp
  | esc h l =>
    obtain ⟨st', hm, hc, htp, he⟩ := namePending_literal v tp st 35 p hp
    simp only [NameItem.ok] at hi
    have h35 : isEND_LITERAL 35 = true := by have := name_byte_facts; simp at this; exact this.1
    -- '#'
    have s1 : stepByte st' 35 p = ({ st' with hex := [], mode := .literalHex }, []) := by
      rw [step_hit st' 35 p (Or.inr ⟨isEND_LITERAL, by simp [hm, searchClass], h35⟩)]
      simp [atHit, hm, parseLiteralHit]
    -- first digit
    have s2 : stepByte { st' with hex := [], mode := .literalHex } h (p + 1)
        = ({ st' with hex := [h], mode := .literalHex }, []) := by
      rw [step_hit _ h (p + 1) (Or.inl (by simp [searchClass]))]
      simp [atHit, parseLiteralHexHit, hi.1]
    have s3 : stepByte { st' with hex := [h], mode := .literalHex } l (p + 1 + 1)
        = ({ st' with hex := [h, l], mode := .literalHex }, []) := by
      rw [step_hit _ l (p + 1 + 1) (Or.inl (by simp [searchClass]))]
      simp [atHit, parseLiteralHexHit, hi.2]
    refine ⟨{ st' with hex := [h, l], mode := .literalHex }, ⟨htp, Or.inr ⟨h, l, rfl, rfl, hi.1, hi.2, ?_⟩⟩, ?_⟩
    · simp [NameItem.value, hc]
    · simp only [NameItem.render, foldBytes, he, s1, s2, s3]
      simp

theorem name_items_fold : ∀ (items : List NameItem) (v : Bytes) (tp : Nat) (st : St) (p : Nat),
    NamePending v tp st → (∀ i ∈ items, i.ok) →
    ∃ st', NamePending (v ++ nameValue items) tp st' ∧ foldBytes st (renderName items) p = (st', [])
  | [], v, tp, st, p, hp, _ => ⟨st, by simpa [nameValue] using hp, by simp [renderName, foldBytes]⟩
  | i :: r, v, tp, st, p, hp, hok => by
    obtain ⟨st1, hp1, hf1⟩ := name_item_step v tp st p i hp (hok i (by simp))
    obtain ⟨st2, hp2, hf2⟩ := name_items_fold r (v ++ [i.value]) tp st1 (p + i.render.length) hp1
      (fun j hj => hok j (by simp [hj]))
    refine ⟨st2, by simpa [nameValue] using hp2, ?_⟩
    simp only [renderName]
    rw [foldBytes_append, hf1, hf2]
    simp

/-- A pending name ends at any delimiter / white-space byte other than `#`: the name is emitted and
    the byte is handled by the main scanner. -/
theorem name_end (v : Bytes) (tp : Nat) (st : St) (d : UInt8) (p : Nat) (hp : NamePending v tp st)
    (hd : isEND_LITERAL d = true) (h35 : d ≠ 35) :
    ∃ st', st'.mode = .main ∧
      stepByte st d p = ((stepByte st' d p).1, (tp, Token.lit v) :: (stepByte st' d p).2) := by
  obtain ⟨st1, hm, hc, htp, he⟩ := namePending_literal v tp st d p hp
  have h35' : (d == 35) = false := by simpa using h35
  refine ⟨{ st1 with mode := .main }, rfl, ?_⟩
  rw [he, step_hit st1 d p (Or.inr ⟨isEND_LITERAL, by simp [hm, searchClass], hd⟩)]
  simp [atHit, hm, parseLiteralHit, h35', emit, hc, htp]

/-- In the main scanner `/` starts a name token at the current position. -/
theorem main_name_start (st : St) (pos : Nat) (hm : st.mode = .main) :
    ∃ st', NamePending [] pos st' ∧ stepByte st 47 pos = (st', []) := by
  have h47 : isNONSPC 47 = true := by have := name_byte_facts; simp at this; exact this.2
  refine ⟨{ st with tpos := pos, cur := [], mode := .literal }, ⟨rfl, Or.inl ⟨rfl, rfl⟩⟩, ?_⟩
  rw [step_hit st 47 pos (Or.inr ⟨isNONSPC, by simp [hm, searchClass], h47⟩)]
  simp [atHit, hm, parseMainHit]

/-! ### hexadecimal strings -/

/-- ISO 32000-1 7.3.4.3: pairs of hexadecimal digits; a final odd digit is followed by an assumed 0. -/
def pairUp : Bytes → Bytes
  | [] => []
  | [a] => [UInt8.ofNat (hexCharVal a * 16)]
  | a :: b :: t => UInt8.ofNat (hexCharVal a * 16 + hexCharVal b) :: pairUp t

theorem hexbody_facts : ∀ c : UInt8,
    (!(isHEX c || isSPC c) || (!isEND_HEX_STRING c && c != 60)) = true :=
  forall_byte _ (by decide +kernel)

theorem hex_byte_facts : (isEND_HEX_STRING 62 && isNONSPC 60 && isNONSPC 62) = true := by decide +kernel

theorem hexPairs_even : ∀ (n : Nat) (ds : Bytes), ds.length = 2 * n → (∀ c ∈ ds, isHEX c = true) →
    hexPairs ds = some (pairUp ds)
  | 0, ds, hl, _ => by
    have : ds = [] := by cases ds with
      | nil => rfl
      | cons _ _ => simp at hl
    subst this; rfl
  | n + 1, ds, hl, hh => by
    match ds, hl, hh with
    | a :: b :: t, hl, hh =>
      have ha := hh a (by simp)
      have hb := hh b (by simp)
      have ih := hexPairs_even n t (by simp at hl; omega) (fun x hx => hh x (by simp [hx]))
      have h1 := hex_digit a
      have h2 := hex_digit b
      simp only [ha, hb, Bool.not_true, Bool.false_or, digitBelow] at h1 h2
      split at h1
      · rename_i x hx
        split at h2
        · rename_i y hy
          simp [hexPairs, ha, hb, hx, hy, ih, pairUp, hexCharVal]
        · simp at h2
      · simp at h1
    | [_], hl, _ => simp at hl; omega
    | [], hl, _ => simp at hl

/-- `<` in the main scanner, the body (hex digits and white space anywhere), `>`: one string token
    with the value of the digit pairs; the `>` leaves the tokenizer in `_parse_wclose`. -/
theorem hex_spelling (st : St) (hm : st.mode = .main) (body : Bytes) (pos : Nat) (n : Nat)
    (hb : ∀ c ∈ body, isHEX c = true ∨ isSPC c = true)
    (heven : (body.filter (fun c => !isSPC c)).length = 2 * n) :
    foldBytes st (60 :: body ++ [62]) pos =
      ({ st with tpos := pos + 1 + body.length, cur := [], mode := .wclose },
       [(pos, Token.str (pairUp (body.filter (fun c => !isSPC c))))]) := by
  have hf := hex_byte_facts
  simp only [Bool.and_eq_true] at hf
  -- `<`
  have s1 : stepByte st 60 pos = ({ st with tpos := pos, cur := [], mode := .wopen }, []) := by
    rw [step_hit st 60 pos (Or.inr ⟨isNONSPC, by simp [hm, searchClass], hf.1.2⟩)]
    have d60 : isDigit 60 = false := by decide
    have a60 : isAlpha 60 = false := by decide
    simp [atHit, hm, parseMainHit, d60, a60]
  -- the byte after `<` is not `<`: the wopen scanner hands over to the hexstring scanner
  have hnot60 : ∀ c ∈ body ++ [62], (c == 60) = false := by
    intro c hc
    rcases List.mem_append.mp hc with h | h
    · have := hexbody_facts c
      have hor : (isHEX c || isSPC c) = true := by rcases hb c h with h | h <;> simp [h]
      simp only [hor, Bool.not_true, Bool.false_or, Bool.and_eq_true] at this
      simpa using this.2
    · simp at h; subst h; decide
  have s2 : ∀ (c : UInt8) (tl : Bytes) (p : Nat), (c == 60) = false →
      foldBytes { st with tpos := pos, cur := [], mode := .wopen } (c :: tl) p =
      foldBytes { st with tpos := pos, cur := [], mode := .hexstring } (c :: tl) p := by
    intro c tl p hc
    simp only [foldBytes]
    rw [step_hit { st with tpos := pos, cur := [], mode := .wopen } c p (Or.inl (by simp [searchClass]))]
    simp [atHit, parseWopenHit, hc]
  have hne : ∀ x ∈ body, isEND_HEX_STRING x = false := by
    intro c h
    have := hexbody_facts c
    have hor : (isHEX c || isSPC c) = true := by rcases hb c h with h | h <;> simp [h]
    simp only [hor, Bool.not_true, Bool.false_or, Bool.and_eq_true] at this
    simpa using this.1
  have hdig : ∀ c ∈ body.filter (fun c => !isSPC c), isHEX c = true := by
    intro c hc
    have hm' := List.mem_filter.mp hc
    rcases hb c hm'.1 with h | h
    · exact h
    · simp [h] at hm'
  have hpairs := hexPairs_even n _ heven hdig
  simp only [List.cons_append, foldBytes, s1, List.nil_append]
  have hsplit : body ++ [62] = (body ++ [62]).head (by simp) :: (body ++ [62]).tail := by simp
  rw [hsplit, s2 _ _ _ (hnot60 _ (List.head_mem _)), ← hsplit]
  rw [fold_nonmatch isEND_HEX_STRING body [62] _ (pos + 1) (by simp [searchClass]) hne]
  simp only [foldBytes]
  rw [step_hit _ 62 _ (Or.inr ⟨isEND_HEX_STRING, by simp [searchClass], hf.1.1⟩)]
  have hacc : (accum { st with tpos := pos, cur := [], mode := .hexstring } body).cur = body := by simp [accum]
  have hmode : (accum { st with tpos := pos, cur := [], mode := .hexstring } body).mode = .hexstring := by simp
  have htp : (accum { st with tpos := pos, cur := [], mode := .hexstring } body).tpos = pos := by simp [accum]
  simp only [atHit, hmode, parseHexstringHit, hacc, hpairs, Bool.false_eq_true, if_false]
  rw [step_hit _ 62 _ (Or.inr ⟨isNONSPC, by simp [searchClass], hf.2⟩)]
  have d62 : isDigit 62 = false := by decide
  have a62 : isAlpha 62 = false := by decide
  simp [atHit, parseMainHit, emit, htp, accum, d62, a62]

/-- the bytes the CODE makes of a run of hex digits: pairs, a final odd digit read as the LOW nibble
    (ISO 32000-1 7.3.4.3 says high nibble: `pairUp`) -/
def codePairUp : Bytes → Bytes
  | [] => []
  | [a] => [UInt8.ofNat (hexCharVal a)]
  | a :: b :: t => UInt8.ofNat (hexCharVal a * 16 + hexCharVal b) :: codePairUp t

theorem hexPairs_all : ∀ (ds : Bytes), (∀ c ∈ ds, isHEX c = true) → hexPairs ds = some (codePairUp ds)
  | [], _ => rfl
  | [a], hh => by
    have ha := hh a (by simp)
    have h1 := hex_digit a
    simp only [ha, Bool.not_true, Bool.false_or, digitBelow] at h1
    have hne : (a == 10) = false := by
      cases h : (a == 10) with
      | false => rfl
      | true => have : a = 10 := by simpa using h
                subst this; exact absurd ha (by decide +kernel)
    split at h1
    · rename_i x hx
      simp [hexPairs, hne, hx, codePairUp, hexCharVal]
    · simp at h1
  | a :: b :: t, hh => by
    have ha := hh a (by simp)
    have hb := hh b (by simp)
    have ih := hexPairs_all t (fun x hx => hh x (by simp [hx]))
    have h1 := hex_digit a
    have h2 := hex_digit b
    simp only [ha, hb, Bool.not_true, Bool.false_or, digitBelow] at h1 h2
    split at h1
    · rename_i x hx
      split at h2
      · rename_i y hy
        simp [hexPairs, ha, hb, hx, hy, ih, codePairUp, hexCharVal]
      · simp at h2
    · simp at h1

/-- with an even number of digits the code's reading is ISO's -/
theorem codePairUp_even : ∀ (n : Nat) (ds : Bytes), ds.length = 2 * n → codePairUp ds = pairUp ds
  | 0, ds, hl => by
    have : ds = [] := by cases ds with
      | nil => rfl
      | cons _ _ => simp at hl
    subst this; rfl
  | n + 1, ds, hl => by
    match ds, hl with
    | a :: b :: t, hl => simp [codePairUp, pairUp, codePairUp_even n t (by simp at hl; omega)]
    | [_], hl => simp at hl; omega
    | [], hl => simp at hl

/-- What the code reads for ANY digit count (`codePairUp`: a final odd digit is the LOW nibble):
    `<` in the main scanner, the body (hex digits and white space anywhere), `>`: one string token; the `>` leaves the tokenizer in `_parse_wclose`. -/
theorem hex_spelling_code (st : St) (hm : st.mode = .main) (body : Bytes) (pos : Nat)
    (hb : ∀ c ∈ body, isHEX c = true ∨ isSPC c = true) :
    foldBytes st (60 :: body ++ [62]) pos =
      ({ st with tpos := pos + 1 + body.length, cur := [], mode := .wclose },
       [(pos, Token.str (codePairUp (body.filter (fun c => !isSPC c))))]) := by
  have hf := hex_byte_facts
  simp only [Bool.and_eq_true] at hf
  -- `<`
  have s1 : stepByte st 60 pos = ({ st with tpos := pos, cur := [], mode := .wopen }, []) := by
    rw [step_hit st 60 pos (Or.inr ⟨isNONSPC, by simp [hm, searchClass], hf.1.2⟩)]
    have d60 : isDigit 60 = false := by decide
    have a60 : isAlpha 60 = false := by decide
    simp [atHit, hm, parseMainHit, d60, a60]
  -- the byte after `<` is not `<`: the wopen scanner hands over to the hexstring scanner
  have hnot60 : ∀ c ∈ body ++ [62], (c == 60) = false := by
    intro c hc
    rcases List.mem_append.mp hc with h | h
    · have := hexbody_facts c
      have hor : (isHEX c || isSPC c) = true := by rcases hb c h with h | h <;> simp [h]
      simp only [hor, Bool.not_true, Bool.false_or, Bool.and_eq_true] at this
      simpa using this.2
    · simp at h; subst h; decide
  have s2 : ∀ (c : UInt8) (tl : Bytes) (p : Nat), (c == 60) = false →
      foldBytes { st with tpos := pos, cur := [], mode := .wopen } (c :: tl) p =
      foldBytes { st with tpos := pos, cur := [], mode := .hexstring } (c :: tl) p := by
    intro c tl p hc
    simp only [foldBytes]
    rw [step_hit { st with tpos := pos, cur := [], mode := .wopen } c p (Or.inl (by simp [searchClass]))]
    simp [atHit, parseWopenHit, hc]
  have hne : ∀ x ∈ body, isEND_HEX_STRING x = false := by
    intro c h
    have := hexbody_facts c
    have hor : (isHEX c || isSPC c) = true := by rcases hb c h with h | h <;> simp [h]
    simp only [hor, Bool.not_true, Bool.false_or, Bool.and_eq_true] at this
    simpa using this.1
  have hdig : ∀ c ∈ body.filter (fun c => !isSPC c), isHEX c = true := by
    intro c hc
    have hm' := List.mem_filter.mp hc
    rcases hb c hm'.1 with h | h
    · exact h
    · simp [h] at hm'
  have hpairs := hexPairs_all _ hdig
  simp only [List.cons_append, foldBytes, s1, List.nil_append]
  have hsplit : body ++ [62] = (body ++ [62]).head (by simp) :: (body ++ [62]).tail := by simp
  rw [hsplit, s2 _ _ _ (hnot60 _ (List.head_mem _)), ← hsplit]
  rw [fold_nonmatch isEND_HEX_STRING body [62] _ (pos + 1) (by simp [searchClass]) hne]
  simp only [foldBytes]
  rw [step_hit _ 62 _ (Or.inr ⟨isEND_HEX_STRING, by simp [searchClass], hf.1.1⟩)]
  have hacc : (accum { st with tpos := pos, cur := [], mode := .hexstring } body).cur = body := by simp [accum]
  have hmode : (accum { st with tpos := pos, cur := [], mode := .hexstring } body).mode = .hexstring := by simp
  have htp : (accum { st with tpos := pos, cur := [], mode := .hexstring } body).tpos = pos := by simp [accum]
  simp only [atHit, hmode, parseHexstringHit, hacc, hpairs, Bool.false_eq_true, if_false]
  rw [step_hit _ 62 _ (Or.inr ⟨isNONSPC, by simp [searchClass], hf.2⟩)]
  have d62 : isDigit 62 = false := by decide
  have a62 : isAlpha 62 = false := by decide
  simp [atHit, parseMainHit, emit, htp, accum, d62, a62]

/-! ### literal strings -/

inductive Eol where
  | lf | cr | crlf

/-- one element of the spelling of a literal string's body (ISO 32000-1 7.3.4.2, Table 3) -/
inductive StrItem where
  | raw (c : UInt8)              -- the byte itself
  | esc (e : UInt8)              -- backslash + one of n r t b f ( ) backslash
  | oct1 (a : UInt8)             -- backslash + 1..3 octal digits
  | oct2 (a b : UInt8)
  | oct3 (a b c : UInt8)
  | cont (e : Eol)               -- backslash + end-of-line marker: nothing
  | ign (c : UInt8)              -- backslash + any other byte: the backslash is ignored
  | popen                        -- a raw, balanced `(`
  | pclose                       -- its `)`

def octByte (ds : Bytes) : UInt8 := UInt8.ofNat (((natOfDigits 8 ds 0).getD 0) % 256)

def StrItem.ok : StrItem → Prop
  | .raw c => isEND_STRING c = false ∧ c ≠ 13
  | .esc e => (escLookup e).isSome = true
  | .oct1 a => isOCT_STRING a = true
  | .oct2 a b => isOCT_STRING a = true ∧ isOCT_STRING b = true
  | .oct3 a b c => isOCT_STRING a = true ∧ isOCT_STRING b = true ∧ isOCT_STRING c = true
  | .cont _ => True
  | .ign c => isOCT_STRING c = false ∧ escLookup c = none ∧ c ≠ 13 ∧ c ≠ 10
  | .popen => True
  | .pclose => True

def StrItem.render : StrItem → Bytes
  | .raw c => [c]
  | .esc e => [92, e]
  | .oct1 a => [92, a]
  | .oct2 a b => [92, a, b]
  | .oct3 a b c => [92, a, b, c]
  | .cont .lf => [92, 10]
  | .cont .cr => [92, 13]
  | .cont .crlf => [92, 13, 10]
  | .ign c => [92, c]
  | .popen => [40]
  | .pclose => [41]

def StrItem.value : StrItem → Bytes
  | .raw c => [c]
  | .esc e => [(escLookup e).getD 0]
  | .oct1 a => [octByte [a]]
  | .oct2 a b => [octByte [a, b]]
  | .oct3 a b c => [octByte [a, b, c]]
  | .cont _ => []
  | .ign c => [c]
  | .popen => [40]
  | .pclose => [41]

/-- what the byte FOLLOWING an item must not be, for the spelling to mean what it says: a short
    octal escape must not be followed by an octal digit, backslash-CR not by LF -/
def StrItem.nextOK : StrItem → UInt8 → Prop
  | .oct1 _, c => isOCT_STRING c = false
  | .oct2 _ _, c => isOCT_STRING c = false
  | .cont .cr, c => c ≠ 10
  | _, _ => True

def renderStr : List StrItem → Bytes
  | [] => []
  | i :: r => i.render ++ renderStr r

def strValue : List StrItem → Bytes
  | [] => []
  | i :: r => i.value ++ strValue r

/-- every item is followed by an acceptable byte (the closing parenthesis after the last one) -/
def chainOK : List StrItem → Prop
  | [] => True
  | [i] => i.nextOK 41
  | i :: j :: r => i.nextOK ((j.render ++ [41]).headD 41) ∧ chainOK (j :: r)

/-- nesting depth of raw parentheses after the items, `none` if a `)` has no partner -/
def depthAfter : Nat → List StrItem → Option Nat
  | d, [] => some d
  | d, .popen :: r => depthAfter (d + 1) r
  | 0, .pclose :: _ => none
  | d + 1, .pclose :: r => depthAfter d r
  | d, _ :: r => depthAfter d r

theorem string_byte_facts :
    (isEND_STRING 92 && isEND_STRING 40 && isEND_STRING 41 && isNONSPC 40 && !isOCT_STRING 10 && !isOCT_STRING 13 &&
      !isOCT_STRING 41 && !isOCT_STRING 92 && !isOCT_STRING 40) = true := by decide +kernel

theorem esc_facts : ∀ c : UInt8, (!(escLookup c).isSome || !isOCT_STRING c) = true :=
  forall_byte _ (by decide +kernel)

theorem esc_eol_facts : escLookup 10 = none ∧ escLookup 13 = none := by constructor <;> decide +kernel

/-- the string token being read denotes `v` at parenthesis depth `depth` -/
def StrPending (v : Bytes) (depth : Nat) (tp : Nat) (st : St) : Prop :=
  st.tpos = tp ∧ st.paren = (depth : Int) + 1 ∧
  ((st.mode = .string ∧ st.cur = v) ∨
   (st.mode = .string1 ∧ st.oct ≠ [] ∧ (∀ c ∈ st.oct, isOCT_STRING c = true) ∧ st.cur ++ [octByte st.oct] = v) ∨
   (st.mode = .string2 ∧ st.cur = v))

/-- the next byte does not extend a pending short octal escape / backslash-CR -/
def NextOK (st : St) (c : UInt8) : Prop :=
  (st.mode = .string1 → st.oct.length = 3 ∨ isOCT_STRING c = false) ∧ (st.mode = .string2 → c ≠ 10)

theorem oct_value (ds : Bytes) (hne : ds ≠ []) (hd : ∀ c ∈ ds, isOCT_STRING c = true) :
    ∃ v, pyIntBase 8 ds = some v ∧ UInt8.ofNat (v % 256) = octByte ds := by
  have hd' : ∀ c ∈ ds, digitBelow 8 c = true := fun c hc => by
    have := oct_digit c; simpa [hd c hc] using this
  obtain ⟨v, hv⟩ := natOfDigits_some 8 ds 0 hd'
  have : ds.isEmpty = false := by cases ds <;> simp_all
  exact ⟨v, by simp [pyIntBase, this, hv], by simp [octByte, hv]⟩

/-- Any pending string state behaves, on an acceptable next byte, like the settled `_parse_string`
    state whose `_curtoken` is the value so far. -/
theorem strPending_settle (v : Bytes) (depth tp : Nat) (st : St) (c : UInt8) (p : Nat)
    (h : StrPending v depth tp st) (hn : NextOK st c) :
    ∃ st', st'.mode = .string ∧ st'.cur = v ∧ st'.tpos = tp ∧ st'.paren = (depth : Int) + 1 ∧
      stepByte st c p = stepByte st' c p := by
  obtain ⟨htp, hpar, h | ⟨hm, hne, hoct, hv⟩ | ⟨hm, hv⟩⟩ := h
  · exact ⟨st, h.1, h.2, htp, hpar, rfl⟩
  · obtain ⟨val, hval, hbyte⟩ := oct_value st.oct hne hoct
    refine ⟨{ st with cur := st.cur ++ [octByte st.oct], mode := .string }, rfl, hv, htp, hpar, ?_⟩
    have hcond : (isOCT_STRING c && decide (st.oct.length < 3)) = false := by
      rcases hn.1 hm with h3 | hc
      · simp [h3]
      · simp [hc]
    have hemp : st.oct.isEmpty = false := by cases h : st.oct <;> simp_all
    rw [step_hit st c p (Or.inl (by simp [hm, searchClass]))]
    simp [atHit, hm, parseString1Hit, hcond, hemp, hval, hbyte]
  · refine ⟨{ st with mode := .string }, rfl, hv, htp, hpar, ?_⟩
    have hc : (c == 10) = false := by simpa using hn.2 hm
    rw [step_hit st c p (Or.inl (by simp [hm, searchClass]))]
    simp [atHit, hm, parseString2Hit, hc]

/-- settled `_parse_string` state -/
def Settled (v : Bytes) (depth tp : Nat) (st : St) : Prop :=
  st.mode = .string ∧ st.cur = v ∧ st.tpos = tp ∧ st.paren = (depth : Int) + 1

theorem settled_pending {v depth tp st} (h : Settled v depth tp st) : StrPending v depth tp st :=
  ⟨h.2.2.1, h.2.2.2, Or.inl ⟨h.1, h.2.1⟩⟩

theorem nextOK_string (st : St) (c : UInt8) (hm : st.mode = .string) : NextOK st c := by
  constructor <;> intro h <;> rw [hm] at h <;> cases h

theorem string_backslash (st : St) (p : Nat) (hm : st.mode = .string) :
    stepByte st 92 p = ({ st with oct := [], mode := .string1 }, []) := by
  have hf := string_byte_facts
  simp only [Bool.and_eq_true] at hf
  rw [step_hit st 92 p (Or.inr ⟨isEND_STRING, by simp [hm, searchClass], hf.1.1.1.1.1.1.1.1⟩)]
  simp [atHit, hm, parseStringHit]

/-- first byte after the backslash, no octal digits collected yet -/
theorem string1_first (st : St) (c : UInt8) (p : Nat) (hm : st.mode = .string1) (ho : st.oct = []) :
    stepByte st c p =
      ((parseString1Hit st c).st, []) ∨ True := Or.inr trivial

theorem str_item_settled (st : St) (v : Bytes) (depth tp p : Nat) (i : StrItem) (hs : Settled v depth tp st)
    (hi : i.ok) (depth' : Nat) (hd : depthAfter depth [i] = some depth') :
    ∃ st', StrPending (v ++ i.value) depth' tp st' ∧ (∀ c, i.nextOK c → NextOK st' c) ∧
      foldBytes st i.render p = (st', []) := by
  obtain ⟨hm, hc, htp, hpar⟩ := hs
  have hf := string_byte_facts
  simp only [Bool.and_eq_true, Bool.not_eq_true'] at hf
  obtain ⟨⟨⟨⟨⟨⟨⟨⟨e92, e40⟩, e41⟩, n40⟩, o10⟩, o13⟩, o41⟩, o92⟩, o40⟩ := hf
  have hb := string_backslash st p hm
  -- the state after the backslash
  have hB : ∀ (c : UInt8) (q : Nat), stepByte { st with oct := [], mode := .string1 } c q =
      if (parseString1Hit { st with oct := [], mode := .string1 } c).consumed then
        ((parseString1Hit { st with oct := [], mode := .string1 } c).st,
         (parseString1Hit { st with oct := [], mode := .string1 } c).toks)
      else ((stepByte (parseString1Hit { st with oct := [], mode := .string1 } c).st c q).1,
            (parseString1Hit { st with oct := [], mode := .string1 } c).toks ++
            (stepByte (parseString1Hit { st with oct := [], mode := .string1 } c).st c q).2) := by
    intro c q
    rw [step_hit _ c q (Or.inl (by simp [searchClass]))]
    rfl
  cases i with
  | raw c =>
    simp only [StrItem.ok] at hi
    simp only [depthAfter, Option.some.injEq] at hd; subst hd
    refine ⟨accum st [c], ⟨by simp [accum, hm, htp], by simp [accum, hm, hpar], Or.inl ⟨by simp [hm], by simp [accum, hm, hc, StrItem.value]⟩⟩,
      fun c' _ => nextOK_string _ _ (by simp [hm]), ?_⟩
    simp only [StrItem.render, foldBytes, step_nonmatch st c p isEND_STRING (by simp [hm, searchClass]) hi.1]
    simp
  | esc e =>
    simp only [StrItem.ok] at hi
    simp only [depthAfter, Option.some.injEq] at hd; subst hd
    have hoct : isOCT_STRING e = false := by have := esc_facts e; simpa [hi] using this
    obtain ⟨x, hx⟩ := Option.isSome_iff_exists.mp hi
    refine ⟨{ st with oct := [], cur := st.cur ++ [x], mode := .string }, ⟨htp, hpar, Or.inl ⟨rfl, by simp [hc, StrItem.value, hx]⟩⟩,
      fun c' _ => nextOK_string _ _ rfl, ?_⟩
    simp only [StrItem.render, foldBytes, hb, hB]
    simp [parseString1Hit, hoct, hx]
  | oct1 a =>
    simp only [StrItem.ok] at hi
    simp only [depthAfter, Option.some.injEq] at hd; subst hd
    refine ⟨{ st with oct := [a], mode := .string1 }, ⟨htp, hpar, Or.inr (Or.inl ⟨rfl, by simp, by simp [hi], by simp [hc, StrItem.value]⟩)⟩,
      ?_, ?_⟩
    · intro c' hc'; simp only [StrItem.nextOK] at hc'
      exact ⟨fun _ => Or.inr hc', fun h => by cases h⟩
    · simp only [StrItem.render, foldBytes, hb, hB]
      simp [parseString1Hit, hi]
  | oct2 a b =>
    simp only [StrItem.ok] at hi
    simp only [depthAfter, Option.some.injEq] at hd; subst hd
    refine ⟨{ st with oct := [a, b], mode := .string1 }, ⟨htp, hpar, Or.inr (Or.inl ⟨rfl, by simp, ?_, by simp [hc, StrItem.value]⟩)⟩,
      ?_, ?_⟩
    · intro x hx; simp at hx; rcases hx with rfl | rfl
      · exact hi.1
      · exact hi.2
    · intro c' hc'; simp only [StrItem.nextOK] at hc'
      exact ⟨fun _ => Or.inr hc', fun h => by cases h⟩
    · simp only [StrItem.render, foldBytes, hb, hB]
      have s2 : stepByte { st with oct := [a], mode := .string1 } b (p + 1 + 1) =
          ({ st with oct := [a, b], mode := .string1 }, []) := by
        rw [step_hit _ b _ (Or.inl (by simp [searchClass]))]
        simp [atHit, parseString1Hit, hi.2]
      simp [parseString1Hit, hi.1, s2]
  | oct3 a b c =>
    simp only [StrItem.ok] at hi
    simp only [depthAfter, Option.some.injEq] at hd; subst hd
    refine ⟨{ st with oct := [a, b, c], mode := .string1 }, ⟨htp, hpar, Or.inr (Or.inl ⟨rfl, by simp, ?_, by simp [hc, StrItem.value]⟩)⟩,
      ?_, ?_⟩
    · intro x hx; simp at hx; rcases hx with rfl | rfl | rfl
      · exact hi.1
      · exact hi.2.1
      · exact hi.2.2
    · intro c' _
      exact ⟨fun _ => Or.inl rfl, fun h => by cases h⟩
    · simp only [StrItem.render, foldBytes, hb, hB]
      have s2 : stepByte { st with oct := [a], mode := .string1 } b (p + 1 + 1) =
          ({ st with oct := [a, b], mode := .string1 }, []) := by
        rw [step_hit _ b _ (Or.inl (by simp [searchClass]))]
        simp [atHit, parseString1Hit, hi.2.1]
      have s3 : stepByte { st with oct := [a, b], mode := .string1 } c (p + 1 + 1 + 1) =
          ({ st with oct := [a, b, c], mode := .string1 }, []) := by
        rw [step_hit _ c _ (Or.inl (by simp [searchClass]))]
        simp [atHit, parseString1Hit, hi.2.2]
      simp [parseString1Hit, hi.1, s2, s3]
  | cont e =>
    simp only [depthAfter, Option.some.injEq] at hd; subst hd
    cases e with
    | lf =>
      refine ⟨{ st with oct := [], mode := .string }, ⟨htp, hpar, Or.inl ⟨rfl, by simp [hc, StrItem.value]⟩⟩,
        fun c' _ => nextOK_string _ _ rfl, ?_⟩
      simp only [StrItem.render, foldBytes, hb, hB]
      simp [parseString1Hit, o10, esc_eol_facts.1]
    | cr =>
      refine ⟨{ st with oct := [], mode := .string2 }, ⟨htp, hpar, Or.inr (Or.inr ⟨rfl, by simp [hc, StrItem.value]⟩)⟩,
        ?_, ?_⟩
      · intro c' hc'; simp only [StrItem.nextOK] at hc'
        exact ⟨fun h => (by cases h), fun _ => hc'⟩
      · simp only [StrItem.render, foldBytes, hb, hB]
        simp [parseString1Hit, o13, esc_eol_facts.2]
    | crlf =>
      refine ⟨{ st with oct := [], mode := .string }, ⟨htp, hpar, Or.inl ⟨rfl, by simp [hc, StrItem.value]⟩⟩,
        fun c' _ => nextOK_string _ _ rfl, ?_⟩
      simp only [StrItem.render, foldBytes, hb, hB]
      have s2 : stepByte { st with oct := [], mode := .string2 } 10 (p + 1 + 1) =
          ({ st with oct := [], mode := .string }, []) := by
        rw [step_hit _ 10 _ (Or.inl (by simp [searchClass]))]
        simp [atHit, parseString2Hit]
      simp [parseString1Hit, o13, esc_eol_facts.2, s2]
  | ign c =>
    simp only [StrItem.ok] at hi
    simp only [depthAfter, Option.some.injEq] at hd; subst hd
    obtain ⟨h1, h2, h3, h4⟩ := hi
    have h3' : (c == 13) = false := by simpa using h3
    have h4' : (c != 10) = true := by simpa using h4
    refine ⟨{ st with oct := [], cur := st.cur ++ [c], mode := .string }, ⟨htp, hpar, Or.inl ⟨rfl, by simp [hc, StrItem.value]⟩⟩,
      fun c' _ => nextOK_string _ _ rfl, ?_⟩
    simp only [StrItem.render, foldBytes, hb, hB]
    simp [parseString1Hit, h1, h2, h3', h4']
  | popen =>
    simp only [depthAfter, Option.some.injEq] at hd; subst hd
    refine ⟨{ st with paren := st.paren + 1, cur := st.cur ++ [40] }, ⟨htp, by simp [hpar], Or.inl ⟨hm, by simp [hc, StrItem.value]⟩⟩,
      fun c' _ => nextOK_string _ _ hm, ?_⟩
    simp only [StrItem.render, foldBytes]
    rw [step_hit st 40 p (Or.inr ⟨isEND_STRING, by simp [hm, searchClass], e40⟩)]
    simp [atHit, hm, parseStringHit]
  | pclose =>
    cases depth with
    | zero => simp [depthAfter] at hd
    | succ k =>
      simp only [depthAfter, Option.some.injEq] at hd; subst hd
      have hne : (st.paren - 1 != 0) = true := by simp [hpar] <;> omega
      refine ⟨{ st with paren := st.paren - 1, cur := st.cur ++ [41] }, ⟨htp, (by simp [hpar] <;> omega), Or.inl ⟨hm, by simp [hc, StrItem.value]⟩⟩,
        fun c' _ => nextOK_string _ _ hm, ?_⟩
      simp only [StrItem.render, foldBytes]
      rw [step_hit st 41 p (Or.inr ⟨isEND_STRING, by simp [hm, searchClass], e41⟩)]
      simp [atHit, hm, parseStringHit, hne]

theorem render_ne (i : StrItem) : ∃ c tl, i.render = c :: tl := by
  cases i with
  | cont e => cases e <;> exact ⟨_, _, rfl⟩
  | _ => exact ⟨_, _, rfl⟩

theorem str_item_step (st : St) (v : Bytes) (depth tp p : Nat) (i : StrItem) (hp : StrPending v depth tp st)
    (hn : NextOK st (i.render.headD 0)) (hi : i.ok) (depth' : Nat) (hd : depthAfter depth [i] = some depth') :
    ∃ st', StrPending (v ++ i.value) depth' tp st' ∧ (∀ c, i.nextOK c → NextOK st' c) ∧
      foldBytes st i.render p = (st', []) := by
  obtain ⟨c0, tl, hr⟩ := render_ne i
  rw [hr] at hn
  obtain ⟨st1, h1, h2, h3, h4, he⟩ := strPending_settle v depth tp st c0 p hp hn
  obtain ⟨st', hp', hn', hf⟩ := str_item_settled st1 v depth tp p i ⟨h1, h2, h3, h4⟩ hi depth' hd
  refine ⟨st', hp', hn', ?_⟩
  rw [hr] at hf ⊢
  simp only [foldBytes] at hf ⊢
  rw [he]; exact hf

theorem depthAfter_cons (d : Nat) (i : StrItem) (r : List StrItem) :
    depthAfter d (i :: r) = (depthAfter d [i]).bind (fun d1 => depthAfter d1 r) := by
  cases i <;> cases d <;> simp [depthAfter]

theorem head_render_append (i : StrItem) (rest : Bytes) (dflt : UInt8) :
    (i.render ++ rest).headD dflt = i.render.headD 0 := by
  obtain ⟨c, tl, h⟩ := render_ne i
  simp [h]

theorem str_items_fold : ∀ (items : List StrItem) (v : Bytes) (depth tp : Nat) (st : St) (p : Nat) (depth' : Nat),
    StrPending v depth tp st → NextOK st ((renderStr items ++ [41]).headD 41) → (∀ i ∈ items, i.ok) →
    chainOK items → depthAfter depth items = some depth' →
    ∃ st', StrPending (v ++ strValue items) depth' tp st' ∧ NextOK st' 41 ∧
      foldBytes st (renderStr items) p = (st', [])
  | [], v, depth, tp, st, p, depth', hp, hn, _, _, hd => by
    simp only [depthAfter, Option.some.injEq] at hd; subst hd
    exact ⟨st, by simpa [strValue] using hp, by simpa [renderStr] using hn, by simp [renderStr, foldBytes]⟩
  | i :: r, v, depth, tp, st, p, depth', hp, hn, hok, hch, hd => by
    rw [depthAfter_cons] at hd
    cases hd1 : depthAfter depth [i] with
    | none => simp [hd1] at hd
    | some d1 =>
      simp only [hd1, Option.bind_some] at hd
      have hn1 : NextOK st (i.render.headD 0) := by
        simp only [renderStr, List.append_assoc] at hn
        rwa [head_render_append] at hn
      obtain ⟨st1, hp1, hnx, hf1⟩ := str_item_step st v depth tp p i hp hn1 (hok i (by simp)) d1 hd1
      have hn2 : NextOK st1 ((renderStr r ++ [41]).headD 41) := by
        cases r with
        | nil => simpa [renderStr] using hnx 41 (by simpa [chainOK] using hch)
        | cons j r' =>
          simp only [chainOK] at hch
          have := hnx _ hch.1
          simp only [renderStr, List.append_assoc]
          rw [head_render_append] at this ⊢
          exact this
      have hch2 : chainOK r := by
        cases r with
        | nil => trivial
        | cons j r' => simp only [chainOK] at hch; exact hch.2
      obtain ⟨st2, hp2, hn3, hf2⟩ := str_items_fold r (v ++ i.value) d1 tp st1 (p + i.render.length) depth' hp1 hn2
        (fun j hj => hok j (by simp [hj])) hch2 hd
      refine ⟨st2, by simpa [strValue] using hp2, hn3, ?_⟩
      simp only [renderStr]
      rw [foldBytes_append, hf1, hf2]
      simp

/-- At depth 0 the closing parenthesis ends the token: the string is emitted, back to the main scanner. -/
theorem str_end (v : Bytes) (tp : Nat) (st : St) (p : Nat) (hp : StrPending v 0 tp st) (hn : NextOK st 41) :
    ∃ st', st'.mode = .main ∧ stepByte st 41 p = (st', [(tp, Token.str v)]) := by
  obtain ⟨st1, hm, hc, htp, hpar, he⟩ := strPending_settle v 0 tp st 41 p hp hn
  have hf := string_byte_facts
  simp only [Bool.and_eq_true, Bool.not_eq_true'] at hf
  have e41 : isEND_STRING 41 = true := hf.1.1.1.1.1.1.2
  have hz : (st1.paren - 1 != 0) = false := by simp [hpar]
  refine ⟨{ st1 with paren := st1.paren - 1, mode := .main }, rfl, ?_⟩
  rw [he, step_hit st1 41 p (Or.inr ⟨isEND_STRING, by simp [hm, searchClass], e41⟩)]
  simp [atHit, hm, parseStringHit, hz, emit, hc, htp]

/-- In the main scanner `(` starts a string token at the current position. -/
theorem main_string_start (st : St) (pos : Nat) (hm : st.mode = .main) :
    ∃ st', Settled [] 0 pos st' ∧ stepByte st 40 pos = (st', []) := by
  have hf := string_byte_facts
  simp only [Bool.and_eq_true, Bool.not_eq_true'] at hf
  have n40 : isNONSPC 40 = true := hf.1.1.1.1.1.2
  have d40 : isDigit 40 = false := by decide
  have a40 : isAlpha 40 = false := by decide
  refine ⟨{ st with tpos := pos, cur := [], paren := 1, mode := .string }, ⟨rfl, rfl, rfl, by simp⟩, ?_⟩
  rw [step_hit st 40 pos (Or.inr ⟨isNONSPC, by simp [hm, searchClass], n40⟩)]
  simp [atHit, hm, parseMainHit, d40, a40]

/-! ### keywords (`null`, `true`, `false`, `R`) -/

theorem alpha_facts : ∀ c : UInt8,
    (!isAlpha c || (!isEND_KEYWORD c && isNONSPC c && c != 37 && c != 47 && c != 45 && c != 43 && !isDigit c && c != 46)) = true :=
  forall_byte _ (by decide +kernel)

/-- In the main scanner a letter starts a keyword token. -/
theorem main_keyword_start (st : St) (c : UInt8) (pos : Nat) (hm : st.mode = .main) (hc : isAlpha c = true) :
    stepByte st c pos = ({ st with tpos := pos, cur := [c], mode := .keyword }, []) := by
  have hf := alpha_facts c
  simp only [hc, Bool.not_true, Bool.false_or, Bool.and_eq_true, bne_iff_ne, ne_eq, Bool.not_eq_true'] at hf
  obtain ⟨⟨⟨⟨⟨⟨⟨_, hns⟩, h37⟩, h47⟩, h45⟩, h43⟩, hd⟩, h46⟩ := hf
  rw [step_hit st c pos (Or.inr ⟨isNONSPC, by simp [hm, searchClass], hns⟩)]
  simp [atHit, hm, parseMainHit, h37, h47, h45, h43, hd, h46, hc]

/-- A word of letters followed by a byte of END_KEYWORD is one keyword token (`true`/`false` are booleans). -/
theorem keyword_spelling (st : St) (hm : st.mode = .main) (c : UInt8) (w : Bytes) (d : UInt8) (pos : Nat)
    (hc : isAlpha c = true) (hw : ∀ x ∈ w, isAlpha x = true) (hd : isEND_KEYWORD d = true) :
    stepByte (foldBytes st (c :: w) pos).1 d (pos + (c :: w).length) =
      ((stepByte { st with tpos := pos, cur := c :: w, mode := .main } d (pos + (c :: w).length)).1,
       (pos, if (c :: w) == kwTrue then Token.bool true else if (c :: w) == kwFalse then Token.bool false
             else Token.kwd (c :: w)) ::
        (stepByte { st with tpos := pos, cur := c :: w, mode := .main } d (pos + (c :: w).length)).2) ∧
    (foldBytes st (c :: w) pos).2 = [] := by
  have hne : ∀ x ∈ w, isEND_KEYWORD x = false := by
    intro x hx
    have hf := alpha_facts x
    simp only [hw x hx, Bool.not_true, Bool.false_or, Bool.and_eq_true, Bool.not_eq_true'] at hf
    exact hf.1.1.1.1.1.1.1
  have h1 : foldBytes st (c :: w) pos = ({ st with tpos := pos, cur := c :: w, mode := .keyword }, []) := by
    simp only [foldBytes, main_keyword_start st c pos hm hc]
    have := fold_nonmatch isEND_KEYWORD w [] { st with tpos := pos, cur := [c], mode := .keyword } (pos + 1)
      (by simp [searchClass]) hne
    simp only [List.append_nil] at this
    rw [this]
    simp [foldBytes, accum]
  rw [h1]
  refine ⟨?_, rfl⟩
  rw [step_hit _ d _ (Or.inr ⟨isEND_KEYWORD, by simp [searchClass], hd⟩)]
  simp only [atHit, parseKeywordHit, emit]
  simp

/-! ### real numbers -/

theorem dot_facts : (isNONSPC 46 && isEND_NUMBER 46 && !isDigit 46 && !isAlpha 46) = true := by decide +kernel

/-- `[+-]? d* . d*` is accumulated as one pending float token (at least one digit is needed for a value). -/
theorem real_spelling_pending (st : St) (hm : st.mode = .main) (sign ip fp : Bytes) (pos : Nat)
    (hs : sign = [] ∨ sign = [43] ∨ sign = [45]) (hip : ∀ c ∈ ip, isDigit c = true)
    (hfp : ∀ c ∈ fp, isDigit c = true) :
    foldBytes st (sign ++ ip ++ 46 :: fp) pos =
      ({ st with tpos := pos, cur := sign ++ ip ++ 46 :: fp, mode := .float }, []) := by
  have hdot := dot_facts
  simp only [Bool.and_eq_true, Bool.not_eq_true'] at hdot
  obtain ⟨⟨⟨n46, e46⟩, d46⟩, a46⟩ := hdot
  have hfl : ∀ (s0 : St) (p : Nat), s0.mode = .float →
      foldBytes s0 fp p = ({ s0 with cur := s0.cur ++ fp }, []) := by
    intro s0 p hm0
    have h := fold_nonmatch isEND_NUMBER fp [] s0 p (by simp [hm0, searchClass])
      (fun x hx => by have := digit_facts x; simp [hfp x hx] at this; exact this.1.1.1.1.1)
    simp only [List.append_nil] at h
    rw [h]; simp [foldBytes, accum, hm0]
  -- `.` while a number is pending
  have hnumdot : ∀ (s0 : St) (p : Nat), s0.mode = .number →
      stepByte s0 46 p = ({ s0 with cur := s0.cur ++ [46], mode := .float }, []) := by
    intro s0 p hm0
    rw [step_hit s0 46 p (Or.inr ⟨isEND_NUMBER, by simp [hm0, searchClass], e46⟩)]
    simp [atHit, hm0, parseNumberHit]
  by_cases hempty : sign ++ ip = []
  · -- the token starts with the dot
    have h1 : sign = [] := by cases sign <;> simp_all
    have h2 : ip = [] := by cases ip <;> simp_all
    subst h1; subst h2
    have hstart : stepByte st 46 pos = ({ st with tpos := pos, cur := [46], mode := .float }, []) := by
      rw [step_hit st 46 pos (Or.inr ⟨isNONSPC, by simp [hm, searchClass], n46⟩)]
      simp [atHit, hm, parseMainHit, d46]
    simp only [List.nil_append, foldBytes, hstart]
    rw [hfl _ _ rfl]
    simp
  · -- a sign and/or digits first: pending number, then the dot
    have hpend : ∃ c t, sign ++ ip = c :: t ∧ (isDigit c = true ∨ c = 43 ∨ c = 45) ∧ ∀ x ∈ t, isDigit x = true := by
      rcases hs with rfl | rfl | rfl
      · cases ip with
        | nil => simp at hempty
        | cons c t => exact ⟨c, t, rfl, Or.inl (hip c (by simp)), fun x hx => hip x (by simp [hx])⟩
      · exact ⟨43, ip, rfl, Or.inr (Or.inl rfl), hip⟩
      · exact ⟨45, ip, rfl, Or.inr (Or.inr rfl), hip⟩
    obtain ⟨c, t, hct, hc, ht⟩ := hpend
    have e : sign ++ ip ++ 46 :: fp = c :: (t ++ 46 :: fp) := by rw [hct]; simp
    rw [e]
    simp only [foldBytes, main_number_start st c pos hm hc]
    rw [foldBytes_append, number_digits _ t (pos + 1) rfl ht]
    simp only [foldBytes]
    rw [hnumdot]
    · rw [hfl]
      · simp
      · rfl
    · rfl

/-- A pending float token ends at any non-digit: the real is emitted (if `float()` accepts the text)
    and the byte is handled by the main scanner. -/
theorem float_end (sp : St) (d : UInt8) (p : Nat) (hm : sp.mode = .float) (hd : isEND_NUMBER d = true)
    (hv : pyFloatOk sp.cur = true) :
    stepByte sp d p =
      ((stepByte { sp with mode := .main } d p).1,
       (sp.tpos, Token.real sp.cur) :: (stepByte { sp with mode := .main } d p).2) := by
  rw [step_hit sp d p (Or.inr ⟨isEND_NUMBER, by simp [hm, searchClass], hd⟩)]
  simp [atHit, hm, parseFloatHit, hv, emit]

theorem takeWhile_digits (ip : Bytes) (rest : Bytes) (hip : ∀ c ∈ ip, isDigit c = true) :
    (ip ++ 46 :: rest).takeWhile isDigit = ip ∧ (ip ++ 46 :: rest).dropWhile isDigit = 46 :: rest := by
  have d46 : isDigit 46 = false := by decide
  induction ip with
  | nil => simp [List.takeWhile, List.dropWhile, d46]
  | cons c t ih =>
    have hc := hip c (by simp)
    have := ih (fun x hx => hip x (by simp [hx]))
    simp [List.takeWhile, List.dropWhile, hc, this.1, this.2]

theorem pyFloatOk_spelling (sign ip fp : Bytes) (hs : sign = [] ∨ sign = [43] ∨ sign = [45])
    (hip : ∀ c ∈ ip, isDigit c = true) (hfp : ∀ c ∈ fp, isDigit c = true) (hne : ¬ (ip = [] ∧ fp = [])) :
    pyFloatOk (sign ++ ip ++ 46 :: fp) = true := by
  have hbody : floatBody (ip ++ 46 :: fp) = true := by
    have h := takeWhile_digits ip fp hip
    simp only [floatBody, h.1, h.2]
    have hall : fp.all isDigit = true := List.all_eq_true.mpr hfp
    simp only [hall, Bool.true_and]
    cases ip with
    | nil => cases fp with
      | nil => simp at hne
      | cons _ _ => simp
    | cons _ _ => simp
  rcases hs with rfl | rfl | rfl
  · simp only [List.nil_append]
    cases ip with
    | nil => simp only [List.nil_append, pyFloatOk]; simpa using hbody
    | cons c t =>
      have hc := hip c (by simp)
      have h45 : c ≠ 45 := by intro e; subst e; have := sign_facts; simp at this; simp_all
      have h43 : c ≠ 43 := by intro e; subst e; have := sign_facts; simp at this; simp_all
      simp only [List.cons_append, pyFloatOk]
      split
      · rename_i heq; simp at heq; exact absurd heq.1 h45
      · rename_i heq; simp at heq; exact absurd heq.1 h43
      · simpa using hbody
  · simpa [pyFloatOk] using hbody
  · simpa [pyFloatOk] using hbody

end PdfVerif.Lexer
