/-
Token-level lemmas for C01: how the byte automaton (`Lexer.foldBytes`) reads the conformant
spellings of integers, names, hexadecimal strings and literal strings.  Facts about single
bytes are decided on the regenerated tables.
-/
import PdfVerif.Lemmas.LexerErr

namespace PdfVerif.Lexer
open PdfVerif PdfVerif.Gen.LexTables

/-! ### facts about single bytes (decided on the regenerated tables) -/

theorem digit_facts : ∀ c : UInt8,
    (!isDigit c || (!isEND_NUMBER c && isNONSPC c && c != 37 && c != 47 && c != 46 && digitBelow 10 c)) = true :=
  forall_byte _ (by decide +kernel)

theorem sign_facts : (isNONSPC 43 && isNONSPC 45 && !isDigit 43 && !isDigit 45) = true := by decide +kernel

/-- In the main scanner a digit or sign starts a number token at the current position. -/
theorem main_number_start (st : St) (c : UInt8) (pos : Nat) (hm : st.mode = .main)
    (hc : isDigit c = true ∨ c = 43 ∨ c = 45) :
    stepByte st c pos = ({ st with tpos := pos, cur := [c], mode := .number }, []) := by
  have hns : isNONSPC c = true := by
    rcases hc with h | rfl | rfl
    · have := digit_facts c; simp [h] at this; exact this.1.1.1.1.2
    · have := sign_facts; simp at this; exact this.1.1.1
    · have := sign_facts; simp at this; exact this.1.1.2
  have h37 : (c == 37) = false := by
    rcases hc with h | rfl | rfl
    · have := digit_facts c; simp [h] at this; simpa using this.1.1.1.2
    · decide
    · decide
  have h47 : (c == 47) = false := by
    rcases hc with h | rfl | rfl
    · have := digit_facts c; simp [h] at this; simpa using this.1.1.2
    · decide
    · decide
  have hnum : (c == 45 || c == 43 || isDigit c) = true := by
    rcases hc with h | rfl | rfl <;> simp_all
  rw [step_hit st c pos (Or.inr ⟨isNONSPC, by simp [hm, searchClass], hns⟩)]
  simp [atHit, hm, parseMainHit, h37, h47, hnum]

/-- Digits are appended to a pending number token. -/
theorem number_digits (st : St) (ds : Bytes) (pos : Nat) (hm : st.mode = .number)
    (hd : ∀ c ∈ ds, isDigit c = true) :
    foldBytes st ds pos = ({ st with cur := st.cur ++ ds }, []) := by
  have h := fold_nonmatch isEND_NUMBER ds [] st pos (by simp [hm, searchClass])
    (fun x hx => by have := digit_facts x; simp [hd x hx] at this; exact this.1.1.1.1.1)
  simp only [List.append_nil] at h
  rw [h]
  simp [foldBytes, accum, hm]

/-- decimal value of a digit string (Horner), the value the ISO grammar gives it -/
def decimalNat (ds : Bytes) : Nat := ds.foldl (fun acc c => acc * 10 + (c.toNat - 48)) 0

theorem natOfDigits_decimal : ∀ (ds : Bytes) (acc : Nat), (∀ c ∈ ds, isDigit c = true) →
    natOfDigits 10 ds acc = some (ds.foldl (fun a c => a * 10 + (c.toNat - 48)) acc)
  | [], acc, _ => rfl
  | c :: t, acc, h => by
    have hc := h c (by simp)
    have hv : digitVal c = some (c.toNat - 48) := by
      unfold isDigit at hc
      simp only [digitVal, hc, if_true]
    have hlt : c.toNat - 48 < 10 := by
      unfold isDigit at hc
      simp only [Bool.and_eq_true, decide_eq_true_eq] at hc
      have h2 : c.toNat ≤ 57 := by have := hc.2; exact UInt8.le_iff_toNat_le.mp this
      omega
    simp only [natOfDigits, hv, hlt, if_true, List.foldl_cons]
    exact natOfDigits_decimal t _ (fun x hx => h x (by simp [hx]))

/-- the integer a spelling `sign ++ digits` denotes -/
def intValue (sign : Bytes) (ds : Bytes) : Int :=
  if sign = [45] then -(decimalNat ds : Int) else (decimalNat ds : Int)

theorem pyInt_spelling (sign ds : Bytes) (hs : sign = [] ∨ sign = [43] ∨ sign = [45]) (hne : ds ≠ [])
    (hd : ∀ c ∈ ds, isDigit c = true) (hlen : ds.length ≤ maxStrDigits) :
    pyInt (sign ++ ds) = some (intValue sign ds) := by
  have hnat : pyIntBase 10 ds = some (decimalNat ds) := by
    have : ds.isEmpty = false := by cases ds <;> simp_all
    simp [pyIntBase, this, natOfDigits_decimal ds 0 hd, decimalNat]
  have hnl : ¬ (ds.length > maxStrDigits) := by omega
  rcases hs with rfl | rfl | rfl
  · -- no sign: the first byte is a digit, so neither 45 nor 43
    cases ds with
    | nil => exact absurd rfl hne
    | cons c t =>
      have hc := hd c (by simp)
      have h45 : c ≠ 45 := by intro e; subst e; have := sign_facts; simp at this; simp_all
      have h43 : c ≠ 43 := by intro e; subst e; have := sign_facts; simp at this; simp_all
      simp only [List.nil_append, pyInt]
      split
      · rename_i heq; simp at heq; exact absurd heq.1 h45
      · rename_i heq; simp at heq; exact absurd heq.1 h43
      · have hl : t.length + 1 ≤ maxStrDigits := by simpa using hlen
        simp [hnat, intValue, hl]
  · simp [pyInt, hnl, hnat, intValue]
  · simp [pyInt, hnl, hnat, intValue]

/-- A pending number token ends at any non-digit other than `.`: the integer is emitted and the
    byte is handled by the main scanner. -/
theorem number_end (sp : St) (d : UInt8) (p : Nat) (v : Int) (hm : sp.mode = .number)
    (hd : isEND_NUMBER d = true) (h46 : d ≠ 46) (hv : pyInt sp.cur = some v) :
    stepByte sp d p =
      ((stepByte { sp with mode := .main } d p).1,
       (sp.tpos, Token.int v) :: (stepByte { sp with mode := .main } d p).2) := by
  have h46' : (d == 46) = false := by simpa using h46
  rw [step_hit sp d p (Or.inr ⟨isEND_NUMBER, by simp [hm, searchClass], hd⟩)]
  simp [atHit, hm, parseNumberHit, h46', hv, emit]

/-- The whole spelling `[+-]?d+` is accumulated as one pending number token. -/
theorem int_spelling_pending (st : St) (hm : st.mode = .main) (sign ds : Bytes) (pos : Nat)
    (hs : sign = [] ∨ sign = [43] ∨ sign = [45]) (hne : ds ≠ []) (hd : ∀ c ∈ ds, isDigit c = true) :
    foldBytes st (sign ++ ds) pos = ({ st with tpos := pos, cur := sign ++ ds, mode := .number }, []) := by
  rcases hs with rfl | rfl | rfl
  · cases ds with
    | nil => exact absurd rfl hne
    | cons c t =>
      simp only [List.nil_append, foldBytes, main_number_start st c pos hm (Or.inl (hd c (by simp)))]
      rw [number_digits _ t (pos + 1) rfl (fun x hx => hd x (by simp [hx]))]
      simp
  · simp only [List.cons_append, List.nil_append, foldBytes, main_number_start st 43 pos hm (Or.inr (Or.inl rfl))]
    rw [number_digits _ ds (pos + 1) rfl hd]
    simp
  · simp only [List.cons_append, List.nil_append, foldBytes, main_number_start st 45 pos hm (Or.inr (Or.inr rfl))]
    rw [number_digits _ ds (pos + 1) rfl hd]
    simp

end PdfVerif.Lexer
