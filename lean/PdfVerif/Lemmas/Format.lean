/- C11 helper lemmas: the alphabet of the number formatters. -/
import PdfVerif.Lemmas.XmlDoc
import PdfVerif.Gen.ConvertFmt

namespace PdfVerif.Xml
open PdfVerif.Convert

/-- characters a formatted number may consist of -/
def numChar (c : Char) : Bool := ('0' ≤ c && c ≤ '9') || c = '-' || c = '.' || c = ','

theorem numChar_plain {c : Char} (h : numChar c = true) : plainChar c = true := by
  simp only [numChar, Bool.or_eq_true, Bool.and_eq_true, decide_eq_true_eq] at h
  rcases h with ((⟨h1, h2⟩ | rfl) | rfl) | rfl
  · have h1' : 48 ≤ c.toNat := h1
    have h2' : c.toNat ≤ 57 := h2
    have ne : ∀ d : Char, (d.toNat < 48 ∨ 57 < d.toNat) → c ≠ d := by
      intro d hd hcd; subst hcd; omega
    simp only [plainChar, isXmlChar, Bool.and_eq_true, Bool.or_eq_true, decide_eq_true_eq, bne_iff_ne, ne_eq]
    refine ⟨⟨⟨⟨⟨⟨?_, ?_⟩, ?_⟩, ?_⟩, ?_⟩, ?_⟩, ?_⟩
    · omega
    all_goals (apply ne; decide)
  · decide
  · decide
  · decide

def NumStr (s : Str) : Prop := ∀ c ∈ s, numChar c = true

theorem NumStr.plain {s : Str} (h : NumStr s) : Plain s := fun c hc => numChar_plain (h c hc)

theorem NumStr.append {a b : Str} (ha : NumStr a) (hb : NumStr b) : NumStr (a ++ b) := by
  intro c hc
  rcases List.mem_append.mp hc with h | h
  · exact ha c h
  · exact hb c h

theorem digitChar_num (d : Nat) : numChar (digitChar d) = true := by
  have h : ∀ k, k < 10 → numChar (Char.ofNat (48 + k)) = true := by decide
  exact h (d % 10) (Nat.mod_lt _ (by decide))

theorem natDigits_num (n : Nat) : NumStr (natDigits n) := by
  induction n using Nat.strongRecOn with
  | _ n ih =>
    unfold natDigits
    split
    · intro c hc; simp at hc; subst hc; exact digitChar_num n
    · apply NumStr.append
      · exact ih (n / 10) (by omega)
      · intro c hc; simp at hc; subst hc; exact digitChar_num _

theorem fmtF3_num (x : SRat) : NumStr (fmtF3 x) := by
  unfold fmtF3
  refine NumStr.append (NumStr.append (NumStr.append ?_ (natDigits_num _)) ?_) ?_
  · cases x.1 <;> intro c hc <;> simp at hc
    subst hc; decide
  · intro c hc; simp at hc; subst hc; decide
  · intro c hc
    simp only [List.mem_cons, List.mem_nil_iff, or_false] at hc
    rcases hc with rfl | rfl | rfl <;> exact digitChar_num _

theorem fmtD_num (x : SRat) : NumStr (fmtD x) := by
  unfold fmtD
  refine NumStr.append ?_ (natDigits_num _)
  intro c hc
  split at hc
  · simp at hc; subst hc; decide
  · simp at hc

theorem bbox2str_num (x0 y0 x1 y1 : SRat) : NumStr (Gen.ConvertFmt.bbox2str x0 y0 x1 y1) := by
  unfold Gen.ConvertFmt.bbox2str
  have hc : NumStr [','] := by intro c hc; simp at hc; subst hc; decide
  repeat (first | exact fmtF3_num _ | exact hc | apply NumStr.append)

theorem strJoin_num (sep : Str) (hs : NumStr sep) (parts : List Str) (hp : ∀ x ∈ parts, NumStr x) :
    NumStr (strJoin sep parts) := by
  induction parts with
  | nil => intro c hc; simp [strJoin] at hc
  | cons x r ih =>
    cases r with
    | nil => simpa [strJoin] using hp x (by simp)
    | cons y r' =>
      simp only [strJoin]
      exact NumStr.append (NumStr.append (hp x (by simp)) hs) (ih (fun z hz => hp z (by simp [hz])))

theorem get_pts_num (pts : List (SRat × SRat)) : NumStr (Gen.ConvertFmt.get_pts pts) := by
  unfold Gen.ConvertFmt.get_pts
  have hc : NumStr [','] := by intro c hc; simp at hc; subst hc; decide
  refine strJoin_num _ hc _ ?_
  intro x hx
  obtain ⟨p, _, rfl⟩ := List.mem_map.mp hx
  unfold Gen.ConvertFmt.ptStr
  repeat (first | exact fmtF3_num _ | exact hc | apply NumStr.append)

end PdfVerif.Xml
