/-
C03 helper lemmas — LZW: bit packing/reading, and the decoder/encoder table invariant
("decoder table = encoder table minus the pending entry", KwKwK).  Core Lean only.
-/
import PdfVerif.Lemmas.FiltersCodec

namespace PdfVerif.Filters
open PdfVerif PdfVerif.FilterEnc

/-! ## Bits -/

@[simp] theorem bitsOfNat_length (w n : Nat) : (bitsOfNat w n).length = w := by
  induction w with
  | zero => rfl
  | succ w ih => simp [bitsOfNat, ih]

theorem foldl_bitsOfNat (w n a : Nat) :
    (bitsOfNat w n).foldl (fun a b => 2 * a + (if b then 1 else 0)) a = a * 2 ^ w + n % 2 ^ w := by
  induction w generalizing a with
  | zero => simp [bitsOfNat, Nat.mod_one]
  | succ w ih =>
    simp only [bitsOfNat, List.foldl_cons, ih]
    rw [Nat.mod_pow_succ, Nat.pow_succ, Nat.add_mul, Nat.mul_assoc 2 a, ← Nat.mul_assoc a]
    have h2 : n / 2 ^ w % 2 = 0 ∨ n / 2 ^ w % 2 = 1 := by omega
    rcases h2 with h | h
    · rw [h]
      have hb : ((0 : Nat) == 1) = false := rfl
      simp only [hb, Bool.false_eq_true, if_false]
      generalize a * 2 ^ w = q
      generalize 2 ^ w = p
      omega
    · rw [h]
      have hb : ((1 : Nat) == 1) = true := rfl
      simp only [hb, if_true]
      generalize a * 2 ^ w = q
      generalize 2 ^ w = p
      omega

theorem natOfBits_bitsOfNat (w n : Nat) (h : n < 2 ^ w) : natOfBits (bitsOfNat w n) = n := by
  unfold natOfBits
  rw [foldl_bitsOfNat, Nat.mod_eq_of_lt h]; simp

theorem bitsOf_append (a b : Bytes) : bitsOf (a ++ b) = bitsOf a ++ bitsOf b := by
  induction a with
  | nil => rfl
  | cons x a ih => simp [bitsOf, ih]

theorem bitsOf_length (a : Bytes) : (bitsOf a).length = 8 * a.length := by
  induction a with
  | nil => rfl
  | cons x a ih => simp [bitsOf, bitsOfByte, ih]; omega

theorem bitsOfByte_ofNat : ∀ m, m < 256 → bitsOfByte (UInt8.ofNat m) = bitsOfNat 8 m := by
  decide +kernel

theorem bitsOfNat_succ_low : ∀ n, n < 8 → ∀ acc, acc < 2 ^ n → ∀ b : Bool,
    bitsOfNat (n + 1) (2 * acc + (if b then 1 else 0)) = bitsOfNat n acc ++ [b] := by
  decide +kernel

theorem bitsOfNat_pad : ∀ n, n < 8 → ∀ acc, acc < 2 ^ n →
    bitsOfNat 8 (acc * 2 ^ (8 - n)) = bitsOfNat n acc ++ List.replicate (8 - n) false := by
  decide +kernel

/-- The unread bits of a reader state. -/
def viewBits (rest : Bytes) (buff bpos : Nat) : List Bool := bitsOfNat (8 - bpos) buff ++ bitsOf rest

theorem bitsOfNat_take : ∀ (r k n : Nat), k ≤ r → (bitsOfNat r n).take k = bitsOfNat k (n / 2 ^ (r - k)) := by
  intro r
  induction r with
  | zero => intro k n hk; have : k = 0 := by omega
            subst this; rfl
  | succ r ih =>
    intro k n hk
    cases k with
    | zero => rfl
    | succ k =>
      have hk' : k ≤ r := by omega
      simp only [bitsOfNat, List.take_succ_cons, ih k n hk']
      have e : r + 1 - (k + 1) = r - k := by omega
      rw [e, Nat.div_div_eq_div_mul, ← Nat.pow_add]
      have e2 : r - k + k = r := by omega
      rw [e2]

theorem bitsOfNat_drop : ∀ (r k n : Nat), k ≤ r → (bitsOfNat r n).drop k = bitsOfNat (r - k) n := by
  intro r
  induction r with
  | zero => intro k n hk; have : k = 0 := by omega
            subst this; rfl
  | succ r ih =>
    intro k n hk
    cases k with
    | zero => rfl
    | succ k =>
      have hk' : k ≤ r := by omega
      simp only [bitsOfNat, List.drop_succ_cons, ih k n hk']
      have e : r + 1 - (k + 1) = r - k := by omega
      rw [e]

theorem natOfBits_bitsOfNat_mod (k m : Nat) : natOfBits (bitsOfNat k m) = m % 2 ^ k := by
  unfold natOfBits; rw [foldl_bitsOfNat]; simp

theorem natOfBits_append (a b : List Bool) : natOfBits (a ++ b) = natOfBits a * 2 ^ b.length + natOfBits b := by
  unfold natOfBits
  rw [List.foldl_append]
  generalize List.foldl (fun a b => 2 * a + if b = true then 1 else 0) 0 a = s
  induction b generalizing s with
  | nil => simp
  | cons x b ih =>
    simp only [List.foldl_cons, List.length_cons]
    rw [ih, ih (2 * 0 + if x = true then 1 else 0)]
    rw [Nat.pow_succ]
    generalize List.foldl (fun a b => 2 * a + if b = true then 1 else 0) 0 b = t
    generalize 2 ^ b.length = p
    cases x
    · simp; rw [Nat.mul_comm 2 s, Nat.mul_assoc, Nat.mul_comm 2 p]
    · simp; rw [Nat.add_mul, Nat.mul_comm 2 s, Nat.mul_assoc, Nat.mul_comm 2 p]; omega


theorem bitsOfByte_toNat (x : UInt8) : bitsOfByte x = bitsOfNat 8 x.toNat := by
  have := bitsOfByte_ofNat x.toNat x.toNat_lt
  rwa [UInt8.ofNat_toNat] at this

theorem viewBits_length (rest : Bytes) (buff bpos : Nat) :
    (viewBits rest buff bpos).length = 8 - bpos + 8 * rest.length := by
  simp [viewBits, bitsOf_length]

/-- `readbits` reads exactly the next `bits` unread bits (or fails when fewer remain). -/
theorem readbits_view : ∀ (rest : Bytes) (buff bpos bits v : Nat), bpos ≤ 8 →
    ((viewBits rest buff bpos).length < bits → readbits rest buff bpos bits v = none) ∧
    (bits ≤ (viewBits rest buff bpos).length → ∃ buff' bpos' rest',
      readbits rest buff bpos bits v
        = some (v * 2 ^ bits + natOfBits ((viewBits rest buff bpos).take bits), buff', bpos', rest') ∧
      bpos' ≤ 8 ∧ viewBits rest' buff' bpos' = (viewBits rest buff bpos).drop bits) := by
  intro rest
  induction rest with
  | nil =>
    intro buff bpos bits v hb
    have hlen := viewBits_length [] buff bpos
    simp only [List.length_nil, Nat.mul_zero, Nat.add_zero] at hlen
    by_cases hle : bits ≤ 8 - bpos
    · refine ⟨fun h => by omega, fun _ => ⟨buff, bpos + bits, [], ?_, by omega, ?_⟩⟩
      · rw [readbits]
        simp only [hle, if_true]
        have : (viewBits [] buff bpos).take bits = bitsOfNat bits (buff / 2 ^ (8 - bpos - bits)) := by
          simp only [viewBits, bitsOf, List.append_nil]
          exact bitsOfNat_take _ _ _ hle
        rw [this, natOfBits_bitsOfNat_mod]
      · simp only [viewBits, bitsOf, List.append_nil]
        rw [bitsOfNat_drop _ _ _ hle]
        congr 1; omega
    · refine ⟨fun _ => ?_, fun h => by omega⟩
      rw [readbits]; simp only [hle, if_false]
  | cons x rest' ih =>
    intro buff bpos bits v hb
    have hlen := viewBits_length (x :: rest') buff bpos
    by_cases hle : bits ≤ 8 - bpos
    · refine ⟨fun h => by omega, fun _ => ⟨buff, bpos + bits, x :: rest', ?_, by omega, ?_⟩⟩
      · rw [readbits]
        simp only [hle, if_true]
        have : (viewBits (x :: rest') buff bpos).take bits = bitsOfNat bits (buff / 2 ^ (8 - bpos - bits)) := by
          simp only [viewBits]
          rw [List.take_append_of_le_length (by simpa using hle)]
          exact bitsOfNat_take _ _ _ hle
        rw [this, natOfBits_bitsOfNat_mod]
      · simp only [viewBits]
        rw [List.drop_append_of_le_length (by simpa using hle), bitsOfNat_drop _ _ _ hle]
        congr 2; omega
    · have hview : viewBits (x :: rest') buff bpos = bitsOfNat (8 - bpos) buff ++ viewBits rest' x.toNat 0 := by
        simp only [viewBits, bitsOf, bitsOfByte_toNat, Nat.sub_zero]
      have hlen' := viewBits_length rest' x.toNat 0
      obtain ⟨ihn, ihs⟩ := ih x.toNat 0 (bits - (8 - bpos)) (v * 2 ^ (8 - bpos) + buff % 2 ^ (8 - bpos)) (by omega)
      have hrb : readbits (x :: rest') buff bpos bits v
          = readbits rest' x.toNat 0 (bits - (8 - bpos)) (v * 2 ^ (8 - bpos) + buff % 2 ^ (8 - bpos)) := by
        rw [readbits]; simp only [hle, if_false]
      simp only [List.length_cons] at hlen
      refine ⟨fun h => ?_, fun h => ?_⟩
      · rw [hrb]; apply ihn
        omega
      · obtain ⟨buff', bpos', rest'', hr, hb', hv'⟩ := ihs (by omega)
        refine ⟨buff', bpos', rest'', ?_, hb', ?_⟩
        · rw [hrb, hr, hview]
          have htake : (bitsOfNat (8 - bpos) buff ++ viewBits rest' x.toNat 0).take bits
              = bitsOfNat (8 - bpos) buff ++ (viewBits rest' x.toNat 0).take (bits - (8 - bpos)) := by
            rw [List.take_append]
            simp only [bitsOfNat_length]
            rw [List.take_of_length_le (by simp; omega)]
          rw [htake, natOfBits_append, natOfBits_bitsOfNat_mod]
          have hl : ((viewBits rest' x.toNat 0).take (bits - (8 - bpos))).length = bits - (8 - bpos) := by
            simp only [List.length_take]; omega
          rw [hl]
          have hp : 2 ^ bits = 2 ^ (8 - bpos) * 2 ^ (bits - (8 - bpos)) := by
            rw [← Nat.pow_add]; congr 1; omega
          have hnum : ∀ nb : Nat, (v * 2 ^ (8 - bpos) + buff % 2 ^ (8 - bpos)) * 2 ^ (bits - (8 - bpos)) + nb
              = v * 2 ^ bits + (buff % 2 ^ (8 - bpos) * 2 ^ (bits - (8 - bpos)) + nb) := by
            intro nb
            rw [hp, Nat.add_mul, Nat.mul_assoc]
            omega
          rw [hnum]
        · have hd1 : (bitsOfNat (8 - bpos) buff).drop bits = [] :=
            List.drop_of_length_le (by rw [bitsOfNat_length]; omega)
          rw [hv', hview, List.drop_append, hd1, List.nil_append, bitsOfNat_length]

/-- The loop on the reader state is the loop on the unread bits. -/
theorem lzwRunB_eq : ∀ (fuel : Nat) (st : LzwSt) (rest : Bytes) (buff bpos : Nat), bpos ≤ 8 →
    lzwRunB fuel st rest buff bpos = lzwRun fuel st (viewBits rest buff bpos) := by
  intro fuel
  induction fuel with
  | zero => intro st rest buff bpos _; rfl
  | succ fuel ih =>
    intro st rest buff bpos hb
    obtain ⟨hn, hs⟩ := readbits_view rest buff bpos st.nbits 0 hb
    rw [lzwRunB, lzwRun]
    by_cases hlt : (viewBits rest buff bpos).length < st.nbits
    · have h1 : ((viewBits rest buff bpos).take st.nbits).length < st.nbits := by
        simp only [List.length_take]; omega
      simp only [hn hlt, h1, if_true]
    · obtain ⟨buff', bpos', rest', hr, hb', hv'⟩ := hs (by omega)
      have h1 : ¬ ((viewBits rest buff bpos).take st.nbits).length < st.nbits := by
        simp only [List.length_take]; omega
      simp only [hr, h1, if_false, Nat.zero_mul, Nat.zero_add]
      cases feed st (natOfBits ((viewBits rest buff bpos).take st.nbits)) with
      | corrupt => rfl
      | indexError => rfl
      | ok st' x =>
        simp only
        rw [ih st' rest' buff' bpos' hb', hv']

/-- `lzwdecode` in terms of the bit view. -/
theorem lzwdecode_bits (data : Bytes) : lzwdecode data = lzwRun (8 * data.length + 1) lzwInit (bitsOf data) := by
  rw [lzwdecode_lit]
  rw [lzwRunB_eq _ _ _ _ _ (Nat.le_refl 8)]
  simp [viewBits, bitsOfNat]

/-- Packing and unpacking bits: the bits come back, followed by fewer than 8 zero bits. -/
theorem bitsOf_packGo (bs : List Bool) : ∀ (acc n : Nat), n < 8 → acc < 2 ^ n →
    ∃ k, k < 8 ∧ bitsOf (packGo acc n bs) = bitsOfNat n acc ++ bs ++ List.replicate k false := by
  induction bs with
  | nil =>
    intro acc n hn hacc
    by_cases h0 : n = 0
    · subst h0
      exact ⟨0, by omega, by simp [packGo, bitsOf, bitsOfNat]⟩
    · refine ⟨8 - n, by omega, ?_⟩
      have hne : (n == 0) = false := by simp [h0]
      have hlt : acc * 2 ^ (8 - n) < 256 := by
        have : acc * 2 ^ (8 - n) < 2 ^ n * 2 ^ (8 - n) := Nat.mul_lt_mul_of_pos_right hacc (Nat.two_pow_pos _)
        rw [← Nat.pow_add] at this
        have h8 : n + (8 - n) = 8 := by omega
        rw [h8] at this; exact this
      simp only [packGo, hne, Bool.false_eq_true, if_false, bitsOf, List.append_nil]
      rw [bitsOfByte_ofNat _ hlt, bitsOfNat_pad n hn acc hacc]
  | cons b bs ih =>
    intro acc n hn hacc
    by_cases h7 : n + 1 = 8
    · have h8 : (n + 1 == 8) = true := by simp [h7]
      obtain ⟨k, hk, hrec⟩ := ih 0 0 (by omega) (by simp)
      refine ⟨k, hk, ?_⟩
      have hlt : 2 * acc + (if b then 1 else 0) < 256 := by
        have : n = 7 := by omega
        subst this
        cases b <;> simp <;> omega
      simp only [packGo, h8, if_true, bitsOf, hrec]
      rw [bitsOfByte_ofNat _ hlt]
      have : (8 : Nat) = n + 1 := by omega
      rw [this, bitsOfNat_succ_low n hn acc hacc b]
      simp [bitsOfNat]
    · have h8 : (n + 1 == 8) = false := by simp; omega
      have hacc' : 2 * acc + (if b then 1 else 0) < 2 ^ (n + 1) := by
        rw [Nat.pow_succ]; cases b <;> simp <;> omega
      obtain ⟨k, hk, hrec⟩ := ih (2 * acc + (if b then 1 else 0)) (n + 1) (by omega) hacc'
      refine ⟨k, hk, ?_⟩
      simp only [packGo, h8, Bool.false_eq_true, if_false, hrec]
      rw [bitsOfNat_succ_low n hn acc hacc b]
      simp

theorem bitsOf_packBits (bs : List Bool) :
    ∃ k, k < 8 ∧ bitsOf (packBits bs) = bs ++ List.replicate k false := by
  obtain ⟨k, hk, h⟩ := bitsOf_packGo bs 0 0 (by omega) (by simp)
  exact ⟨k, hk, by simpa [packBits, bitsOfNat] using h⟩

/-! ## One iteration of `LZWDecoder.run` on a code written with the decoder's current width -/

theorem lzwRun_step (fuel : Nat) (st : LzwSt) (c : Nat) (rest : List Bool) (hc : c < 2 ^ st.nbits) :
    lzwRun (fuel + 1) st (bitsOfNat st.nbits c ++ rest) =
      match feed st c with
      | .corrupt => .ok []
      | .indexError => .error .indexError
      | .ok st' x =>
        match lzwRun fuel st' rest with
        | .ok r => .ok (x ++ r)
        | .error e => .error e := by
  rw [lzwRun]
  have ht : (bitsOfNat st.nbits c ++ rest).take st.nbits = bitsOfNat st.nbits c := by
    rw [List.take_left' (by simp)]
  have hd : (bitsOfNat st.nbits c ++ rest).drop st.nbits = rest := by
    rw [List.drop_left' (by simp)]
  simp only [ht, hd, bitsOfNat_length, Nat.lt_irrefl, if_false, natOfBits_bitsOfNat _ _ hc]
  cases feed st c with
  | corrupt => rfl
  | indexError => rfl
  | ok st' x =>
    simp only
    cases lzwRun fuel st' rest with
    | ok r => rfl
    | error e => rfl

/-- Fewer bits than a code (the zero padding of the last byte): the loop stops. -/
theorem lzwRun_short (fuel : Nat) (st : LzwSt) (bits : List Bool) (h : bits.length < st.nbits) :
    lzwRun fuel st bits = .ok [] := by
  cases fuel with
  | zero => rfl
  | succ fuel =>
    rw [lzwRun]
    have : (bits.take st.nbits).length < st.nbits := by simp; omega
    simp only [this, if_true]

/-! ## The table invariant -/

theorem nbitsAfter_width (j : Nat) : nbitsAfter (lzwWidth j) (258 + j) = lzwWidth (j + 1) := by
  unfold nbitsAfter lzwWidth
  by_cases h1 : 258 + j = 511
  · have : j = 253 := by omega
    subst this; rfl
  · by_cases h2 : 258 + j = 1023
    · have : j = 765 := by omega
      subst this; rfl
    · by_cases h3 : 258 + j = 2047
      · have : j = 1789 := by omega
        subst this; rfl
      · have e1 : (258 + j == 511) = false := by simp; omega
        have e2 : (258 + j == 1023) = false := by simp; omega
        have e3 : (258 + j == 2047) = false := by simp; omega
        simp only [e1, e2, e3, Bool.false_eq_true, if_false]
        by_cases a1 : 257 + j < 511
        · have b1 : 257 + (j + 1) < 511 := by omega
          simp only [a1, b1, if_true]
        · by_cases a2 : 257 + j < 1023
          · have b1 : ¬ 257 + (j + 1) < 511 := by omega
            have b2 : 257 + (j + 1) < 1023 := by omega
            simp only [a1, a2, b1, b2, if_true, if_false]
          · by_cases a3 : 257 + j < 2047
            · have b1 : ¬ 257 + (j + 1) < 511 := by omega
              have b2 : ¬ 257 + (j + 1) < 1023 := by omega
              have b3 : 257 + (j + 1) < 2047 := by omega
              simp only [a1, a2, a3, b1, b2, b3, if_true, if_false]
            · have b1 : ¬ 257 + (j + 1) < 511 := by omega
              have b2 : ¬ 257 + (j + 1) < 1023 := by omega
              have b3 : ¬ 257 + (j + 1) < 2047 := by omega
              simp only [a1, a2, a3, b1, b2, b3, if_false]

theorem lzwWidth_ge (j : Nat) : 9 ≤ lzwWidth j := by
  unfold lzwWidth; repeat' split
  all_goals omega

/-- Every code the encoder can emit after `j` data codes fits the current width. -/
theorem code_fits (j c : Nat) (hj : j < lzwMaxSeg) (hc : c ≤ 257 + j) : c < 2 ^ lzwWidth j := by
  unfold lzwMaxSeg at hj
  unfold lzwWidth
  by_cases a1 : 257 + j < 511
  · simp only [a1, if_true]; omega
  · by_cases a2 : 257 + j < 1023
    · simp only [a1, a2, if_true, if_false]; omega
    · by_cases a3 : 257 + j < 2047
      · simp only [a1, a2, a3, if_true, if_false]; omega
      · simp only [a1, a2, a3, if_false]; omega

theorem getElem?_idxOf (l : List Bytes) (a : Bytes) (h : a ∈ l) : l[l.idxOf a]? = some a := by
  induction l with
  | nil => simp at h
  | cons x l ih =>
    by_cases hx : x = a
    · subst hx; simp [List.idxOf_cons_self]
    · have hm : a ∈ l := by
        rcases List.mem_cons.mp h with h | h
        · exact absurd h.symm hx
        · exact h
      have hne : (x == a) = false := by simpa using hx
      have hidx : (x :: l).idxOf a = l.idxOf a + 1 := by simp [List.idxOf_cons, hne]
      rw [hidx]
      simpa using ih hm

/-- Coupled invariant of encoder state `(ext, w, j)` and decoder state `st`:
the decoder's table is the encoder's minus the pending entry `prev ++ [first byte of w]`. -/
structure LzwInv (ext : List Bytes) (w : Bytes) (j : Nat) (st : LzwSt) : Prop where
  init : st.init = true
  jlt : j < lzwMaxSeg
  zero : j = 0 → ext = [] ∧ st.ext = [] ∧ st.prev = some [] ∧ st.nbits = 9 ∧ w.length ≤ 1
  pos : 0 < j → ∃ p b wt, st.prev = some p ∧ p ≠ [] ∧ w = b :: wt ∧ ext = st.ext ++ [p ++ [b]] ∧
    st.ext.length + 1 = j ∧ st.nbits = lzwWidth j ∧ (wt = [] ∨ w ∈ ext)

theorem LzwInv.ext_length {ext : List Bytes} {w : Bytes} {j : Nat} {st : LzwSt} (h : LzwInv ext w j st) :
    ext.length = j := by
  by_cases h0 : j = 0
  · rw [(h.zero h0).1, h0]; rfl
  · obtain ⟨p, b, wt, _, _, _, he, hl, _⟩ := h.pos (by omega)
    rw [he]; simp; omega

theorem LzwInv.nbits {ext : List Bytes} {w : Bytes} {j : Nat} {st : LzwSt} (h : LzwInv ext w j st) :
    st.nbits = lzwWidth j := by
  by_cases h0 : j = 0
  · rw [(h.zero h0).2.2.2.1, h0]; rfl
  · obtain ⟨p, b, wt, _, _, _, _, _, hn, _⟩ := h.pos (by omega)
    exact hn

theorem codeOf_single (ext : List Bytes) (b : UInt8) : codeOf ext [b] = b.toNat := rfl

theorem codeOf_long (ext : List Bytes) (b t : UInt8) (ts : Bytes) :
    codeOf ext (b :: t :: ts) = 258 + ext.idxOf (b :: t :: ts) := rfl

/-- The state after the decoder has consumed the code of `w`. -/
def stAfter (ext : List Bytes) (w : Bytes) (j : Nat) : LzwSt :=
  { nbits := lzwWidth (j + 1), init := true, ext := ext, prev := some w }

/-- Emission: the code of the current match `w` is read back as `w`, also when it is the entry
the decoder does not have yet (KwKwK). -/
theorem feed_code {ext : List Bytes} {w : Bytes} {j : Nat} {st : LzwSt} (h : LzwInv ext w j st) (hw : w ≠ []) :
    codeOf ext w ≤ 257 + j ∧ codeOf ext w ≠ 256 ∧ codeOf ext w ≠ 257 ∧
      feed st (codeOf ext w) = .ok (stAfter ext w j) w := by
  obtain ⟨nb, ini, sext, sprev⟩ := st
  have hinit : ini = true := h.init
  subst hinit
  by_cases h0 : j = 0
  · obtain ⟨he, hse, hp, hn, hl⟩ := h.zero h0
    simp only at hse hp hn
    subst h0 he hse hp hn
    match w, hw, hl with
    | [b], _, _ =>
      have hb := b.toNat_lt
      have e1 : (b.toNat == 256) = false := by simp; omega
      have e2 : (b.toNat == 257) = false := by simp; omega
      have hlt : b.toNat < 256 := by omega
      refine ⟨by rw [codeOf_single]; omega, by rw [codeOf_single]; omega, by rw [codeOf_single]; omega, ?_⟩
      simp only [codeOf_single, feed_lit, e1, e2, Bool.false_eq_true, if_false, tableGet_lit, Bool.not_true, hlt, if_true,
        UInt8.ofNat_toNat, stAfter]
      rfl
  · obtain ⟨p, b, wt, hp, hpne, hw', he, hl, hn, hmem⟩ := h.pos (by omega)
    simp only at hp hl hn he
    subst hp hw' hn
    have hjl := h.jlt
    match p, hpne with
    | ph :: pt, _ =>
      have hgrow : nbitsAfter (lzwWidth j) (258 + (sext ++ [ph :: pt ++ [b]]).length) = lzwWidth (j + 1) := by
        have : (sext ++ [ph :: pt ++ [b]]).length = j := by simp; omega
        rw [this]; exact nbitsAfter_width j
      cases wt with
      | nil =>
        have hb := b.toNat_lt
        have e1 : (b.toNat == 256) = false := by simp; omega
        have e2 : (b.toNat == 257) = false := by simp; omega
        have hlt : b.toNat < 256 := by omega
        have hlt2 : b.toNat < 258 + sext.length := by omega
        refine ⟨by rw [codeOf_single]; omega, by rw [codeOf_single]; omega, by rw [codeOf_single]; omega, ?_⟩
        simp only [codeOf_single, feed_lit, e1, e2, Bool.false_eq_true, if_false, tableLen_lit, if_true, hlt2, tableGet_lit,
          Bool.not_true, hlt, UInt8.ofNat_toNat, feedGrow_lit, List.take, hgrow, stAfter, he]
      | cons t ts =>
        have hm : (b :: t :: ts) ∈ ext := by
          rcases hmem with h | h
          · exact absurd h (by simp)
          · exact h
        have hidx : ext.idxOf (b :: t :: ts) < ext.length := List.idxOf_lt_length_of_mem hm
        have hget := getElem?_idxOf ext _ hm
        have hel : ext.length = sext.length + 1 := by rw [he]; simp
        generalize hi : ext.idxOf (b :: t :: ts) = idx at hidx hget
        have e1 : (258 + idx == 256) = false := by simp; omega
        have e2 : (258 + idx == 257) = false := by simp; omega
        refine ⟨by rw [codeOf_long, hi]; omega, by rw [codeOf_long, hi]; omega, by rw [codeOf_long, hi]; omega, ?_⟩
        rw [codeOf_long, hi]
        by_cases hlast : idx < sext.length
        · have hlt2 : 258 + idx < 258 + sext.length := by omega
          have h256 : ¬ (258 + idx < 256) := by omega
          have h258 : ¬ (258 + idx < 258) := by omega
          have hsub : 258 + idx - 258 = idx := by omega
          have hg : sext[idx]? = some (b :: t :: ts) := by
            rw [he, List.getElem?_append_left hlast] at hget; exact hget
          simp only [feed_lit, e1, e2, Bool.false_eq_true, if_false, tableLen_lit, if_true, hlt2, tableGet_lit, Bool.not_true,
            h256, h258, hsub, hg, feedGrow_lit, List.take, hgrow, stAfter, he]
        · have hidx' : idx = sext.length := by omega
          subst hidx'
          have hlt2 : ¬ (258 + sext.length < 258 + sext.length) := by omega
          have hg : (ph :: pt ++ [b]) = b :: t :: ts := by
            rw [he] at hget
            simpa using hget
          have hph : ph = b := by
            simp only [List.cons_append, List.cons.injEq] at hg; exact hg.1
          subst hph
          simp only [feed_lit, e1, e2, Bool.false_eq_true, if_false, tableLen_lit, if_true, hlt2, beq_self_eq_true,
            feedGrow_lit, List.take, hgrow, stAfter, he]
          rw [← hg]

def stReset : LzwSt := { nbits := 9, init := true, ext := [], prev := some [] }

theorem inv_reset (w : Bytes) (_hw : w.length ≤ 1) : LzwInv [] w 0 stReset where
  init := rfl
  jlt := by unfold lzwMaxSeg; omega
  zero := fun _ => ⟨rfl, rfl, rfl, rfl, _hw⟩
  pos := fun h => absurd h (by omega)

theorem inv_after_add {ext : List Bytes} {w : Bytes} {j : Nat} {st : LzwSt} (h : LzwInv ext w j st) (hw : w ≠ [])
    (b : UInt8) (hj : j + 1 < lzwMaxSeg) : LzwInv (ext ++ [w ++ [b]]) [b] (j + 1) (stAfter ext w j) where
  init := rfl
  jlt := hj
  zero := fun h0 => absurd h0 (by omega)
  pos := fun _ => ⟨w, b, [], rfl, hw, rfl, rfl, by simp [stAfter, h.ext_length], rfl, Or.inl rfl⟩

theorem inv_extend {ext : List Bytes} {w : Bytes} {j : Nat} {st : LzwSt} (h : LzwInv ext w j st) (hw : w ≠ [])
    (b : UInt8) (hc : ext.contains (w ++ [b]) = true) : LzwInv ext (w ++ [b]) j st := by
  have hm : (w ++ [b]) ∈ ext := by simpa using hc
  by_cases h0 : j = 0
  · have := (h.zero h0).1
    rw [this] at hm; simp at hm
  · obtain ⟨p, b0, wt, hp, hpne, hw', he, hl, hn, _⟩ := h.pos (by omega)
    exact { init := h.init, jlt := h.jlt, zero := fun h => absurd h h0,
            pos := fun _ => ⟨p, b0, wt ++ [b], hp, hpne, by rw [hw']; rfl, he, hl, hn, Or.inr hm⟩ }

theorem inv_start {ext : List Bytes} {j : Nat} {st : LzwSt} (h : LzwInv ext [] j st) (b : UInt8) :
    LzwInv ext [b] j st := by
  have h0 : j = 0 := by
    by_cases h0 : j = 0
    · exact h0
    · obtain ⟨p, b0, wt, _, _, hw', _⟩ := h.pos (by omega)
      simp at hw'
  obtain ⟨he, hse, hp, hn, _⟩ := h.zero h0
  exact { init := h.init, jlt := h.jlt, zero := fun _ => ⟨he, hse, hp, hn, by simp⟩,
          pos := fun hp => absurd h0 (by omega) }

theorem lzwBits_data (j c : Nat) (cs : List Nat) (h256 : c ≠ 256) (h257 : c ≠ 257) :
    lzwBits j (c :: cs) = bitsOfNat (lzwWidth j) c ++ lzwBits (j + 1) cs := by
  have e1 : (c == 256) = false := by simpa using h256
  have e2 : (c == 257) = false := by simpa using h257
  simp only [lzwBits, e1, e2, Bool.false_eq_true, if_false]

theorem lzwBits_clear (j : Nat) (cs : List Nat) :
    lzwBits j (256 :: cs) = bitsOfNat (lzwWidth j) 256 ++ lzwBits 0 cs := by
  simp [lzwBits]

theorem lzwBits_eod (j : Nat) : lzwBits j [257] = bitsOfNat (lzwWidth j) 257 := by
  simp [lzwBits]

/-- Reading the code of `w`. -/
theorem run_emit {ext : List Bytes} {w : Bytes} {j : Nat} {st : LzwSt} (h : LzwInv ext w j st) (hw : w ≠ [])
    (fuel : Nat) (rest : List Bool) :
    lzwRun (fuel + 1) st (bitsOfNat (lzwWidth j) (codeOf ext w) ++ rest) =
      match lzwRun fuel (stAfter ext w j) rest with
      | .ok r => .ok (w ++ r)
      | .error e => .error e := by
  obtain ⟨hle, _, _, hf⟩ := feed_code h hw
  have hfit := code_fits j _ h.jlt hle
  rw [← h.nbits] at hfit ⊢
  rw [lzwRun_step fuel st _ rest hfit, hf]

/-- Reading a Clear code after the code of `w`. -/
theorem run_clear (ext : List Bytes) (w : Bytes) (j : Nat) (fuel : Nat) (rest : List Bool) :
    lzwRun (fuel + 1) (stAfter ext w j) (bitsOfNat (lzwWidth (j + 1)) 256 ++ rest) = lzwRun fuel stReset rest := by
  have hfit : 256 < 2 ^ (stAfter ext w j).nbits := by
    have := lzwWidth_ge (j + 1)
    calc 256 < 2 ^ 9 := by decide
      _ ≤ 2 ^ lzwWidth (j + 1) := Nat.pow_le_pow_right (by omega) this
  have hn : lzwWidth (j + 1) = (stAfter ext w j).nbits := rfl
  rw [hn, lzwRun_step fuel _ _ rest hfit]
  have hf : feed (stAfter ext w j) 256 = .ok stReset [] := by simp [feed_lit, stReset]
  rw [hf]
  simp only [List.nil_append]
  cases lzwRun fuel stReset rest with
  | ok r => rfl
  | error e => rfl

/-- Reading EOD followed by the zero padding of the last byte. -/
theorem run_eod (st : LzwSt) (j : Nat) (hn : st.nbits = lzwWidth j) (fuel k : Nat) (hk : k < 8) :
    lzwRun (fuel + 1) st (bitsOfNat (lzwWidth j) 257 ++ List.replicate k false) = .ok [] := by
  have hge := lzwWidth_ge j
  have hfit : 257 < 2 ^ st.nbits := by
    rw [hn]
    calc 257 < 2 ^ 9 := by decide
      _ ≤ 2 ^ lzwWidth j := Nat.pow_le_pow_right (by omega) hge
  rw [← hn, lzwRun_step fuel _ _ _ hfit]
  have hf : feed st 257 = .ok st [] := by simp [feed_lit]
  have hs := lzwRun_short fuel st (List.replicate k false) (by simp; omega)
  simp only [hf, hs]
  rfl

/-- Main induction: from coupled states, the decoder outputs the pending match and the rest of
the input. -/
theorem lzwRun_go (clr : Nat → Bool) : ∀ (input : Bytes) (ext : List Bytes) (w : Bytes) (j total : Nat) (st : LzwSt)
    (fuel k : Nat), LzwInv ext w j st → k < 8 → (lzwGo clr ext w j total input).length < fuel →
    lzwRun fuel st (lzwBits j (lzwGo clr ext w j total input) ++ List.replicate k false) = .ok (w ++ input) := by
  intro input
  induction input with
  | nil =>
    intro ext w j total st fuel k h hk hf
    by_cases hw : w = []
    · subst hw
      simp only [lzwGo, List.isEmpty_nil, if_true] at hf ⊢
      obtain ⟨f, rfl⟩ : ∃ f, fuel = f + 1 := ⟨fuel - 1, by simp at hf; omega⟩
      rw [lzwBits_eod, run_eod st j h.nbits f k hk]
      rfl
    · have he : w.isEmpty = false := by cases w <;> simp_all
      simp only [lzwGo, he, Bool.false_eq_true, if_false] at hf ⊢
      obtain ⟨hle, h256, h257, _⟩ := feed_code h hw
      obtain ⟨f, rfl⟩ : ∃ f, fuel = f + 1 + 1 := ⟨fuel - 2, by simp at hf; omega⟩
      rw [lzwBits_data _ _ _ h256 h257, lzwBits_eod, List.append_assoc, run_emit h hw]
      rw [run_eod (stAfter ext w j) (j + 1) rfl f k hk]
  | cons b rest ih =>
    intro ext w j total st fuel k h hk hf
    by_cases hw : w = []
    · subst hw
      simp only [lzwGo, List.isEmpty_nil, if_true] at hf ⊢
      have := ih ext [b] j total st fuel k (inv_start h b) hk hf
      simpa using this
    · have he : w.isEmpty = false := by cases w <;> simp_all
      by_cases hc : ext.contains (w ++ [b]) = true
      · simp only [lzwGo, he, Bool.false_eq_true, if_false, hc, if_true] at hf ⊢
        have := ih ext (w ++ [b]) j total st fuel k (inv_extend h hw b hc) hk hf
        simpa using this
      · obtain ⟨hle, h256, h257, _⟩ := feed_code h hw
        by_cases hclr : (decide (j + 1 ≥ lzwMaxSeg) || clr (total + 1)) = true
        · simp only [lzwGo, he, Bool.false_eq_true, if_false, hc, hclr, if_true] at hf ⊢
          obtain ⟨f, rfl⟩ : ∃ f, fuel = f + 1 + 1 := ⟨fuel - 2, by simp at hf; omega⟩
          rw [lzwBits_data _ _ _ h256 h257, lzwBits_clear, List.append_assoc, List.append_assoc, run_emit h hw,
            run_clear]
          have := ih [] [b] 0 (total + 1) stReset f k (inv_reset [b] (by simp)) hk (by simp at hf ⊢; omega)
          rw [this]; simp
        · have hj : j + 1 < lzwMaxSeg := by
            simp only [Bool.or_eq_true, decide_eq_true_eq, not_or] at hclr; omega
          simp only [lzwGo, he, Bool.false_eq_true, if_false, hc, hclr] at hf ⊢
          obtain ⟨f, rfl⟩ : ∃ f, fuel = f + 1 := ⟨fuel - 1, by simp at hf; omega⟩
          rw [lzwBits_data _ _ _ h256 h257, List.append_assoc, run_emit h hw]
          have := ih (ext ++ [w ++ [b]]) [b] (j + 1) (total + 1) (stAfter ext w j) f k
            (inv_after_add h hw b hj) hk (by simp at hf ⊢; omega)
          rw [this]; simp

theorem lzwBits_length_ge (j : Nat) (cs : List Nat) : cs.length ≤ (lzwBits j cs).length := by
  induction cs generalizing j with
  | nil => simp [lzwBits]
  | cons c cs ih =>
    have := lzwWidth_ge j
    have := ih (if c == 256 then 0 else if c == 257 then j else j + 1)
    simp only [lzwBits, List.length_append, bitsOfNat_length, List.length_cons]
    omega

/-- `lzwdecode` inverts the encoder: every byte string, every placement of extra Clear codes. -/
theorem lzwdecode_lzwEnc (clr : Nat → Bool) (x : Bytes) : lzwdecode (lzwEnc clr x) = .ok x := by
  rw [lzwdecode_bits]
  unfold lzwEnc
  obtain ⟨k, hk, hbits⟩ := bitsOf_packBits (lzwBits 0 (lzwCodes clr x))
  have hlen : 8 * (packBits (lzwBits 0 (lzwCodes clr x))).length = (lzwBits 0 (lzwCodes clr x)).length + k := by
    rw [← bitsOf_length, hbits]; simp
  rw [hbits, hlen]
  have hcodes := lzwBits_length_ge 0 (lzwCodes clr x)
  generalize hF : (lzwBits 0 (lzwCodes clr x)).length + k + 1 = F
  unfold lzwCodes at hcodes hF ⊢
  obtain ⟨f, rfl⟩ : ∃ f, F = f + 1 := ⟨F - 1, by omega⟩
  rw [lzwBits_clear, List.append_assoc]
  -- the leading Clear code
  have h9 : lzwWidth 0 = lzwInit.nbits := rfl
  have hfit : 256 < 2 ^ lzwInit.nbits := by decide
  rw [h9, lzwRun_step f lzwInit 256 _ hfit]
  have hfeed : feed lzwInit 256 = .ok stReset [] := by simp [feed_lit, stReset]
  have hlen2 : (lzwGo clr [] [] 0 0 x).length < f := by
    rw [lzwBits_clear] at hcodes hF
    simp only [List.length_cons, List.length_append, bitsOfNat_length] at hcodes hF
    have := lzwBits_length_ge 0 (lzwGo clr [] [] 0 0 x)
    have := lzwWidth_ge 0
    omega
  have := lzwRun_go clr x [] [] 0 0 stReset f k (inv_reset [] (by simp)) hk hlen2
  simp only [hfeed, this]
  rfl

end PdfVerif.Filters
