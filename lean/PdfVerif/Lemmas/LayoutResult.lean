/-
Vocabulary of the C08 statements about a `Result` (glyphs / boxes / lines of a result, `LineOK`) and the
helper lemmas that open up `analyze` into its stages.  Property theorems are in `Props/C08.lean`.
-/
import PdfVerif.Lemmas.LayoutAnalyze

namespace PdfVerif.Layout
open PdfVerif PdfVerif.Gen.Layout

variable {le : Cmp}

/-! ### vocabulary -/

def Child.glyphs : Child → List Glyph
  | .box b => b.glyphs
  | .line l => l.glyphs
  | .glyph g => [g]
  | .other _ => []

def Child.other? : Child → Option Nat
  | .other i => some i
  | _ => none

def Child.box? : Child → Option Box
  | .box b => some b
  | _ => none

def Child.line? : Child → Option Line
  | .line l => some l
  | _ => none

/-- The text boxes of a result, in output order. -/
def boxesOf (r : Result) : List Box := r.children.filterMap Child.box?

/-- Every text line of a result: those inside boxes and the empty ones kept beside them. -/
def linesOf (r : Result) : List Line := (boxesOf r).flatMap (·.lines) ++ r.children.filterMap Child.line?

def WfPage (bb : BB) : Prop := bb.x0 ≤ bb.x1 ∧ bb.y0 ≤ bb.y1

/-- A line as `group_objects` builds it, after `LTTextLine.analyze`: glyphs of one orientation
(consecutive members satisfy the alignment predicate of the line's class), box = tight hull of its
glyphs, the only annotations are word spaces and one final line break. -/
structure LineOK (p : LAParams) (l : Line) : Prop where
  nonempty : l.glyphs ≠ []
  bbox : IsUnion l.bb (l.glyphs.map (·.bb))
  uniform : Chain (aligned p l.vertical) l.glyphs
  vertical_only_if_detected : l.vertical = true → p.detect_vertical = true
  ends_in_break : l.elems.getLast? = some (Elem.anno 10)
  one_break : l.elems.count (Elem.anno 10) = 1
  annos : ∀ c, Elem.anno c ∈ l.elems → c = 32 ∨ c = 10

/-! ### helper facts about `analyze` (local) -/

theorem lineOK_of_inv {p : LAParams} {l : Line} (h : LineInv p l) : LineOK p l.analyze := by
  have hno : Elem.anno 10 ∉ l.elems := fun hc => by have := h.annos 10 hc; omega
  refine ⟨by rw [glyphs_analyze]; exact h.ne, ?_, ?_, h.vert, by simp [Line.analyze], ?_, ?_⟩
  · rw [glyphs_analyze]
    show IsUnion l.bb _
    rw [h.bb]
    exact bbOfList_isUnion _ (by simpa using h.ne)
  · rw [glyphs_analyze]; exact h.uniform
  · simp only [Line.analyze, List.count_append, List.count_singleton_self]
    rw [List.count_eq_zero_of_not_mem hno]
  · intro c hc
    simp only [Line.analyze, List.mem_append, List.mem_singleton, Elem.anno.injEq] at hc
    rcases hc with hc | hc
    · exact Or.inl (h.annos c hc)
    · exact Or.inr hc

theorem toChild_glyphs (items : List Item) :
    (items.map Item.toChild).flatMap Child.glyphs = items.filterMap Item.glyph? := by
  induction items with
  | nil => rfl
  | cons it r ih =>
    cases it <;> simp only [List.map_cons, List.flatMap_cons, List.filterMap_cons, Item.toChild, Child.glyphs,
      Item.glyph?, ih] <;> rfl

theorem toChild_others (items : List Item) :
    (items.map Item.toChild).filterMap Child.other? = items.filterMap Item.other? := by
  induction items with
  | nil => rfl
  | cons it r ih =>
    cases it <;> simp only [List.map_cons, List.filterMap_cons, Item.toChild, Child.other?, Item.other?, ih]

/-- The stages of `analyze` on a container that has at least one glyph. -/
structure Stages (le : Cmp) (p : LAParams) (pageBB : BB) (items : List Item) where
  lines : List Line
  boxes : List Box
  hlines : lines = groupObjects p (items.filterMap Item.glyph?)
  hboxes : boxes = groupTextlines p pageBB (lines.filter (fun l => !l.isEmpty))
  children : (analyze le p pageBB items).children =
    (finalBoxes le p pageBB boxes).1.map Child.box ++ (items.filterMap Item.other?).map Child.other
      ++ ((lines.filter Line.isEmpty).map Line.analyze).map Child.line
  groups : (analyze le p pageBB items).groups = (finalBoxes le p pageBB boxes).2.1
  flags : (analyze le p pageBB items).flags = (finalBoxes le p pageBB boxes).2.2

def stages (le : Cmp) (p : LAParams) (pageBB : BB) (items : List Item)
    (h : (items.filterMap Item.glyph?).isEmpty = false) : Stages le p pageBB items :=
  { lines := groupObjects p (items.filterMap Item.glyph?),
    boxes := groupTextlines p pageBB ((groupObjects p (items.filterMap Item.glyph?)).filter (fun l => !l.isEmpty)),
    hlines := rfl, hboxes := rfl,
    children := by simp [analyze, h],
    groups := by simp [analyze, h],
    flags := by simp [analyze, h] }

theorem boxesOf_stages {p : LAParams} {pageBB : BB} {items : List Item} (s : Stages le p pageBB items) :
    boxesOf (analyze le p pageBB items) = (finalBoxes le p pageBB s.boxes).1 := by
  simp [boxesOf, s.children, List.filterMap_append, List.filterMap_map, Function.comp_def, Child.box?]

theorem emptiesOf_stages {p : LAParams} {pageBB : BB} {items : List Item} (s : Stages le p pageBB items) :
    (analyze le p pageBB items).children.filterMap Child.line? = (s.lines.filter Line.isEmpty).map Line.analyze := by
  simp [s.children, List.filterMap_append, List.filterMap_map, Function.comp_def, Child.line?]

theorem nonEmpty_lines {p : LAParams} {pageBB : BB} {items : List Item} (s : Stages le p pageBB items) :
    ∀ l ∈ s.lines.filter (fun l => !l.isEmpty), l.isEmpty = false := by
  intro l hl
  simpa using (List.mem_filter.mp hl).2

/-- Every output box is an input box of the last stage, analysed and renumbered. -/
theorem box_origin {p : LAParams} {pageBB : BB} {boxes : List Box} (hbid : (boxes.map (·.bid)).Nodup)
    {b' : Box} (hb' : b' ∈ (finalBoxes le p pageBB boxes).1) : ∃ b ∈ boxes, strip b' = strip b.analyze := by
  have h := (finalBoxes_spec (le := le) p pageBB boxes hbid).1
  have : strip b' ∈ (boxes.map Box.analyze).map strip := h.subset (List.mem_map_of_mem hb')
  simp only [List.mem_map] at this
  obtain ⟨_, ⟨b, hb, rfl⟩, h2⟩ := this
  exact ⟨b, hb, h2.symm⟩


end PdfVerif.Layout
