/-
Scaling lemmas for C09: every regenerated predicate is homogeneous; group_objects commutes with scaling.
-/
import Mathlib.Algebra.Order.Field.Rat
import Mathlib.Algebra.Order.Ring.Abs
import Mathlib.Tactic.Linarith
import Mathlib.Tactic.Ring
import PdfVerif.Model.Layout
import PdfVerif.Spec.Layout
namespace PdfVerif.Layout
open PdfVerif PdfVerif.Gen.Layout

/-! ## scaling -/

abbrev scaleBB := Spec.scaleBB

theorem scale_width (s : Rat) (b : BB) : (scaleBB s b).width = s * b.width := by
  simp only [Spec.scaleBB, BB.width]; ring
theorem scale_height (s : Rat) (b : BB) : (scaleBB s b).height = s * b.height := by
  simp only [Spec.scaleBB, BB.height]; ring

theorem rabs_eq_abs (x : Rat) : rabs x = |x| := by
  unfold rabs
  split
  · rename_i h; exact (abs_of_neg h).symm
  · rename_i h; exact (abs_of_nonneg (not_lt.mp h)).symm

theorem rabs_scale {s : Rat} (hs : 0 < s) (x : Rat) : rabs (s * x) = s * rabs x := by
  rw [rabs_eq_abs, rabs_eq_abs, abs_mul, abs_of_pos hs]

theorem min_scale {s : Rat} (hs : 0 < s) (x y : Rat) : min (s * x) (s * y) = s * min x y :=
  (mul_min_of_nonneg x y hs.le).symm
theorem max_scale {s : Rat} (hs : 0 < s) (x y : Rat) : max (s * x) (s * y) = s * max x y :=
  (mul_max_of_nonneg x y hs.le).symm

theorem le_scale {s : Rat} (hs : 0 < s) (x y : Rat) : s * x ≤ s * y ↔ x ≤ y := mul_le_mul_iff_right₀ hs
theorem lt_scale {s : Rat} (hs : 0 < s) (x y : Rat) : s * x < s * y ↔ x < y := mul_lt_mul_iff_right₀ hs


section
variable {s : Rat} (hs : 0 < s)
include hs

theorem is_voverlap_scale (a b : BB) : is_voverlap (scaleBB s a) (scaleBB s b) = is_voverlap a b := by
  simp only [is_voverlap, Spec.scaleBB, le_scale hs]
theorem is_hoverlap_scale (a b : BB) : is_hoverlap (scaleBB s a) (scaleBB s b) = is_hoverlap a b := by
  simp only [is_hoverlap, Spec.scaleBB, le_scale hs]

theorem voverlap_scale (a b : BB) : voverlap (scaleBB s a) (scaleBB s b) = s * voverlap a b := by
  simp only [voverlap, is_voverlap_scale hs]
  split
  · simp only [Spec.scaleBB, min_scale hs, max_scale hs]; ring
  · simp
theorem hoverlap_scale (a b : BB) : hoverlap (scaleBB s a) (scaleBB s b) = s * hoverlap a b := by
  simp only [hoverlap, is_hoverlap_scale hs]
  split
  · simp only [Spec.scaleBB, min_scale hs, max_scale hs]; ring
  · simp
theorem hdistance_scale (a b : BB) : hdistance (scaleBB s a) (scaleBB s b) = s * hdistance a b := by
  simp only [hdistance, is_hoverlap_scale hs]
  split
  · simp
  · simp only [Spec.scaleBB, ← mul_sub, rabs_scale hs, min_scale hs]
theorem vdistance_scale (a b : BB) : vdistance (scaleBB s a) (scaleBB s b) = s * vdistance a b := by
  simp only [vdistance, is_voverlap_scale hs]
  split
  · simp
  · simp only [Spec.scaleBB, ← mul_sub, rabs_scale hs, min_scale hs]

theorem halign_scale (p : LAParams) (a b : BB) : halign p (scaleBB s a) (scaleBB s b) = halign p a b := by
  simp only [halign, is_voverlap_scale hs, voverlap_scale hs, hdistance_scale hs, scale_height, scale_width,
    min_scale hs, max_scale hs, mul_assoc, lt_scale hs]

theorem valign_scale (p : LAParams) (a b : BB) : valign p (scaleBB s a) (scaleBB s b) = valign p a b := by
  simp only [valign, is_hoverlap_scale hs, hoverlap_scale hs, vdistance_scale hs, scale_height, scale_width,
    min_scale hs, max_scale hs, mul_assoc, lt_scale hs]

theorem need_space_h_scale (wm last : Rat) (b : BB) :
    need_space_h wm (s * last) (scaleBB s b) = need_space_h wm last b := by
  simp only [need_space_h, scale_height, scale_width, max_scale hs]
  congr 1
  apply decide_eq_decide.mpr
  have : (scaleBB s b).x0 - wm * (s * max b.width b.height) = s * (b.x0 - wm * max b.width b.height) := by
    simp only [Spec.scaleBB]; ring
  rw [this, lt_scale hs]

theorem need_space_v_scale (wm last : Rat) (b : BB) :
    need_space_v wm (s * last) (scaleBB s b) = need_space_v wm last b := by
  simp only [need_space_v, scale_height, scale_width, max_scale hs]
  congr 1
  apply decide_eq_decide.mpr
  have : (scaleBB s b).y1 + wm * (s * max b.width b.height) = s * (b.y1 + wm * max b.width b.height) := by
    simp only [Spec.scaleBB]; ring
  rw [this, lt_scale hs]

theorem is_empty_scale (b : BB) : is_empty (scaleBB s b) = is_empty b := by
  simp only [is_empty, scale_width, scale_height]
  have h1 : s * b.width ≤ 0 ↔ b.width ≤ 0 := by
    have := le_scale hs b.width 0; simpa using this
  have h2 : s * b.height ≤ 0 ↔ b.height ≤ 0 := by
    have := le_scale hs b.height 0; simpa using this
  simp only [h1, h2]

theorem union_scale (a b : BB) : (scaleBB s a).union (scaleBB s b) = scaleBB s (a.union b) := by
  simp only [BB.union, expand_bbox, Spec.scaleBB, min_scale hs, max_scale hs]

theorem dist_scale (a b : BB) : dist (scaleBB s a) (scaleBB s b) = s * s * dist a b := by
  simp only [dist, scale_width, scale_height]
  simp only [Spec.scaleBB, min_scale hs, max_scale hs]
  ring

theorem key_lrtb_scale (bf : Rat) (b : BB) : key_lrtb bf (scaleBB s b) = s * key_lrtb bf b := by
  simp only [key_lrtb, Spec.scaleBB]; ring
theorem key_tbrl_scale (bf : Rat) (b : BB) : key_tbrl bf (scaleBB s b) = s * key_tbrl bf b := by
  simp only [key_tbrl, Spec.scaleBB]; ring

theorem neighbor_filter_h_scale (a o : BB) (c : Bool) (r : Rat) :
    neighbor_filter_h (scaleBB s a) (scaleBB s o) c r = neighbor_filter_h a o c r := by
  have e : ∀ x y : Rat, rabs (s * x - s * y) ≤ r * (s * a.height) ↔ rabs (x - y) ≤ r * a.height := by
    intro x y
    rw [← mul_sub, rabs_scale hs, show r * (s * a.height) = s * (r * a.height) by ring, le_scale hs]
  have e2 : ∀ x y z w : Rat, rabs ((s * x + s * y) / 2 - (s * z + s * w) / 2) ≤ r * (s * a.height)
      ↔ rabs ((x + y) / 2 - (z + w) / 2) ≤ r * a.height := by
    intro x y z w
    rw [show (s * x + s * y) / 2 - (s * z + s * w) / 2 = s * ((x + y) / 2 - (z + w) / 2) by ring, rabs_scale hs,
      show r * (s * a.height) = s * (r * a.height) by ring, le_scale hs]
  simp only [neighbor_filter_h, is_same_height_as, is_left_aligned_with, is_right_aligned_with,
    is_hcentrally_aligned_with, scale_height]
  simp only [Spec.scaleBB, e, e2]

theorem neighbor_filter_v_scale (a o : BB) (c : Bool) (r : Rat) :
    neighbor_filter_v (scaleBB s a) (scaleBB s o) c r = neighbor_filter_v a o c r := by
  have e : ∀ x y : Rat, rabs (s * x - s * y) ≤ r * (s * a.width) ↔ rabs (x - y) ≤ r * a.width := by
    intro x y
    rw [← mul_sub, rabs_scale hs, show r * (s * a.width) = s * (r * a.width) by ring, le_scale hs]
  have e2 : ∀ x y z w : Rat, rabs ((s * x + s * y) / 2 - (s * z + s * w) / 2) ≤ r * (s * a.width)
      ↔ rabs ((x + y) / 2 - (z + w) / 2) ≤ r * a.width := by
    intro x y z w
    rw [show (s * x + s * y) / 2 - (s * z + s * w) / 2 = s * ((x + y) / 2 - (z + w) / 2) by ring, rabs_scale hs,
      show r * (s * a.width) = s * (r * a.width) by ring, le_scale hs]
  simp only [neighbor_filter_v, is_same_width_as, is_lower_aligned_with, is_upper_aligned_with,
    is_vcentrally_aligned_with, scale_width]
  simp only [Spec.scaleBB, e, e2]

end


/-! ### group_objects commutes with scaling -/

def scaleGlyph (s : Rat) (g : Glyph) : Glyph := { g with bb := scaleBB s g.bb }

def scaleElem (s : Rat) : Elem → Elem
  | .ch g => .ch (scaleGlyph s g)
  | .anno c => .anno c

def scaleLine (s : Rat) (l : Line) : Line :=
  { vertical := l.vertical, elems := l.elems.map (scaleElem s), bb := scaleBB s l.bb, last := s * l.last }

theorem newLine_scale (s : Rat) (v : Bool) (g : Glyph) :
    newLine v (scaleGlyph s g) = scaleLine s (newLine v g) := by
  cases v <;> simp [newLine, scaleLine, scaleGlyph, scaleElem, next_last_h, next_last_v, Spec.scaleBB]

section
variable {s : Rat} (hs : 0 < s)
include hs

theorem needSpace_scale (wm : Rat) (l : Line) (g : Glyph) :
    needSpace wm (scaleLine s l) (scaleGlyph s g) = needSpace wm l g := by
  simp only [needSpace, scaleLine, scaleGlyph]
  rw [need_space_h_scale hs wm l.last g.bb, need_space_v_scale hs wm l.last g.bb]
  rfl

theorem add_scale (wm : Rat) (l : Line) (g : Glyph) :
    (scaleLine s l).add wm (scaleGlyph s g) = scaleLine s (l.add wm g) := by
  have hn := needSpace_scale hs wm l g
  have hu : (scaleBB s l.bb).union (scaleBB s g.bb) = scaleBB s (l.bb.union g.bb) := union_scale hs l.bb g.bb
  simp only [Line.add, hn]
  show ({ vertical := l.vertical, elems := _, bb := (scaleBB s l.bb).union (scaleBB s g.bb), last := _ } : Line) = _
  rw [hu]
  simp only [scaleLine, scaleGlyph, List.map_append, List.map_cons, List.map_nil, scaleElem,
    next_last_h, next_last_v, Spec.scaleBB]
  congr 1
  · split <;> rfl
  · cases l.vertical <;> simp

theorem go_scale (p : LAParams) (rest : List Glyph) : ∀ (obj0 : Glyph) (line : Option Line),
    go p (scaleGlyph s obj0) (line.map (scaleLine s)) (rest.map (scaleGlyph s))
      = (go p obj0 line rest).map (scaleLine s) := by
  induction rest with
  | nil =>
    intro obj0 line
    cases line with
    | none => simp [go, newLine_scale]
    | some l => simp [go]
  | cons obj1 rest ih =>
    intro obj0 line
    have hh : halign p (scaleGlyph s obj0).bb (scaleGlyph s obj1).bb = halign p obj0.bb obj1.bb :=
      halign_scale hs p obj0.bb obj1.bb
    have hv : valign p (scaleGlyph s obj0).bb (scaleGlyph s obj1).bb = valign p obj0.bb obj1.bb :=
      valign_scale hs p obj0.bb obj1.bb
    cases line with
    | some l =>
      simp only [go, List.map_cons, Option.map_some, hh, hv]
      have hvl : (scaleLine s l).vertical = l.vertical := rfl
      rw [hvl]
      split
      · rw [add_scale hs]
        exact ih obj1 (some (l.add p.word_margin obj1))
      · rw [List.map_cons]
        congr 1
        exact ih obj1 none
    | none =>
      simp only [go, List.map_cons, Option.map_none, hh, hv]
      split
      · rw [newLine_scale, add_scale hs]
        exact ih obj1 (some ((newLine true obj0).add p.word_margin obj1))
      · split
        · rw [newLine_scale, add_scale hs]
          exact ih obj1 (some ((newLine false obj0).add p.word_margin obj1))
        · rw [List.map_cons, newLine_scale]
          congr 1
          exact ih obj1 none

theorem groupObjects_scale (p : LAParams) (gs : List Glyph) :
    groupObjects p (gs.map (scaleGlyph s)) = (groupObjects p gs).map (scaleLine s) := by
  cases gs with
  | nil => rfl
  | cons g rest => exact go_scale hs p rest g none

theorem text_scale (l : Line) : (scaleLine s l).text = l.text := by
  simp only [Line.text, scaleLine, List.flatMap_map]
  congr 1
  funext e
  cases e <;> rfl

theorem isEmpty_scale (l : Line) : (scaleLine s l).isEmpty = l.isEmpty := by
  simp only [Line.isEmpty, text_scale hs]
  congr 1
  exact is_empty_scale hs l.bb

end

end PdfVerif.Layout
