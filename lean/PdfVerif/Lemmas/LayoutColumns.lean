/-
Reading order with a numeric `boxes_flow` on pages with two text boxes (C09, round 6): the hierarchy is one group
whose two members are the two boxes, in key order.
-/
import PdfVerif.Lemmas.LayoutAnalyze

set_option linter.unusedSimpArgs false

namespace PdfVerif.Layout
open PdfVerif PdfVerif.Gen.Layout

theorem leaves_length_pos : ∀ n : Node, 1 ≤ n.leaves.length
  | .leaf b => by simp [Node.leaves]
  | .grp _ _ l r => by
    have := leaves_length_pos l
    simp only [Node.leaves, List.length_append]
    omega

theorem leaves_singleton {n : Node} {a : Box} (h : n.leaves = [a]) : n = .leaf a := by
  cases n with
  | leaf b =>
    simp only [Node.leaves, List.cons.injEq, and_true] at h
    rw [h]
  | grp t bb l r =>
    have h1 := leaves_length_pos l
    have h2 := leaves_length_pos r
    have := congrArg List.length h
    simp only [Node.leaves, List.length_append, List.length_singleton] at this
    omega

/-- A well-formed hierarchy node with exactly two leaves is a group of these two boxes, in key order. -/
theorem root_of_two {bf : Rat} {g : Node} {a b : Box} (h : g.leaves = [a, b]) (hok : GroupOK bf g) :
    groupKey (a.vertical || b.vertical) bf a.bb ≤ groupKey (a.vertical || b.vertical) bf b.bb := by
  cases hok with
  | leaf x => simp [Node.leaves] at h
  | grp t bb l r hl hr hu ht hk =>
    simp only [Node.leaves] at h
    have h1 := leaves_length_pos l
    have h2 := leaves_length_pos r
    have hlen := congrArg List.length h
    simp only [List.length_append, List.length_cons, List.length_nil] at hlen
    obtain ⟨x, hx⟩ := List.length_eq_one_iff.mp (show l.leaves.length = 1 by omega)
    obtain ⟨y, hy⟩ := List.length_eq_one_iff.mp (show r.leaves.length = 1 by omega)
    rw [hx, hy] at h
    simp only [List.singleton_append, List.cons.injEq, and_true] at h
    obtain ⟨rfl, rfl⟩ := h
    have e1 := leaves_singleton hx
    have e2 := leaves_singleton hy
    subst e1 e2
    simp only [Node.isVert, Node.bb] at ht hk
    rw [← ht]
    exact hk

end PdfVerif.Layout

namespace PdfVerif.Layout
open PdfVerif PdfVerif.Gen.Layout

/-- Every group node of the hierarchy, at any depth, is of the left-to-right class (`LTTextGroupLRTB`). -/
def Node.groupsLRTB : Node → Prop
  | .leaf _ => True
  | .grp t _ l r => t = false ∧ l.groupsLRTB ∧ r.groupsLRTB

theorem groupOK_lrtb {bf : Rat} {g : Node} (hok : GroupOK bf g) :
    (∀ b ∈ g.leaves, b.vertical = false) → g.isVert = false ∧ g.groupsLRTB := by
  induction hok with
  | leaf b => intro h; exact ⟨h b (by simp [Node.leaves]), trivial⟩
  | grp t bb l r _ _ _ ht _ ihl ihr =>
    intro h
    have hl := ihl (fun b hb => h b (by simp [Node.leaves, hb]))
    have hr := ihr (fun b hb => h b (by simp [Node.leaves, hb]))
    have : t = false := by rw [ht, hl.1, hr.1]; rfl
    exact ⟨by simpa [Node.isVert] using this, this, hl.2, hr.2⟩

end PdfVerif.Layout
