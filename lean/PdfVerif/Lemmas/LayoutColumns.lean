/-
Reading order with a numeric `boxes_flow` on pages with two text boxes (C09, round 6): the hierarchy is one group
whose two members are the two boxes, in key order.
-/
import PdfVerif.Lemmas.LayoutAnalyze
import PdfVerif.Lemmas.LayoutSpec

set_option linter.unusedSimpArgs false

namespace PdfVerif.Layout
open PdfVerif PdfVerif.Gen.Layout

theorem leaves_length_pos : ∀ n : Node, 1 ≤ n.leaves.length
  | .leaf b => by simp [Node.leaves]
  | .grp _ _ l r => by
    have := leaves_length_pos l
    simp only [Node.leaves, List.length_append]
    omega

theorem leaves_singleton {n : Node} {a : Box} (h : n.leaves = [a]) : n = .leaf a := by
  cases n with
  | leaf b =>
    simp only [Node.leaves, List.cons.injEq, and_true] at h
    rw [h]
  | grp t bb l r =>
    have h1 := leaves_length_pos l
    have h2 := leaves_length_pos r
    have := congrArg List.length h
    simp only [Node.leaves, List.length_append, List.length_singleton] at this
    omega

/-- A well-formed hierarchy node with exactly two leaves is a group of these two boxes, in key order. -/
theorem root_of_two {bf : Rat} {g : Node} {a b : Box} (h : g.leaves = [a, b]) (hok : GroupOK bf g) :
    groupKey (a.vertical || b.vertical) bf a.bb ≤ groupKey (a.vertical || b.vertical) bf b.bb := by
  cases hok with
  | leaf x => simp [Node.leaves] at h
  | grp t bb l r hl hr hu ht hk =>
    simp only [Node.leaves] at h
    have h1 := leaves_length_pos l
    have h2 := leaves_length_pos r
    have hlen := congrArg List.length h
    simp only [List.length_append, List.length_cons, List.length_nil] at hlen
    obtain ⟨x, hx⟩ := List.length_eq_one_iff.mp (show l.leaves.length = 1 by omega)
    obtain ⟨y, hy⟩ := List.length_eq_one_iff.mp (show r.leaves.length = 1 by omega)
    rw [hx, hy] at h
    simp only [List.singleton_append, List.cons.injEq, and_true] at h
    obtain ⟨rfl, rfl⟩ := h
    have e1 := leaves_singleton hx
    have e2 := leaves_singleton hy
    subst e1 e2
    simp only [Node.isVert, Node.bb] at ht hk
    rw [← ht]
    exact hk

end PdfVerif.Layout

namespace PdfVerif.Layout
open PdfVerif PdfVerif.Gen.Layout

/-- Every group node of the hierarchy, at any depth, is of the left-to-right class (`LTTextGroupLRTB`). -/
def Node.groupsLRTB : Node → Prop
  | .leaf _ => True
  | .grp t _ l r => t = false ∧ l.groupsLRTB ∧ r.groupsLRTB

theorem groupOK_lrtb {bf : Rat} {g : Node} (hok : GroupOK bf g) :
    (∀ b ∈ g.leaves, b.vertical = false) → g.isVert = false ∧ g.groupsLRTB := by
  induction hok with
  | leaf b => intro h; exact ⟨h b (by simp [Node.leaves]), trivial⟩
  | grp t bb l r _ _ _ ht _ ihl ihr =>
    intro h
    have hl := ihl (fun b hb => h b (by simp [Node.leaves, hb]))
    have hr := ihr (fun b hb => h b (by simp [Node.leaves, hb]))
    have : t = false := by rw [ht, hl.1, hr.1]; rfl
    exact ⟨by simpa [Node.isVert] using this, this, hl.2, hr.2⟩

end PdfVerif.Layout

/-! ## a single column of any number of boxes (round 6c) -/

namespace PdfVerif.Layout
open PdfVerif PdfVerif.Gen.Layout

/-- Hull of hulls. -/
theorem isUnion_two {bb a b : BB} {A B : List BB} (h : IsUnion bb [a, b]) (ha : IsUnion a A) (hb : IsUnion b B) :
    IsUnion bb (A ++ B) := by
  have hca := h.contains a (by simp)
  have hcb := h.contains b (by simp)
  refine ⟨?_, ?_, ?_, ?_, ?_⟩
  · intro c hc
    rcases List.mem_append.mp hc with hc | hc
    · have := ha.contains c hc
      exact ⟨le_trans hca.1 this.1, le_trans hca.2.1 this.2.1, le_trans this.2.2.1 hca.2.2.1, le_trans this.2.2.2 hca.2.2.2⟩
    · have := hb.contains c hc
      exact ⟨le_trans hcb.1 this.1, le_trans hcb.2.1 this.2.1, le_trans this.2.2.1 hcb.2.2.1, le_trans this.2.2.2 hcb.2.2.2⟩
  · obtain ⟨m, hm, e⟩ := h.left
    simp only [List.mem_cons, List.not_mem_nil, or_false] at hm
    rcases hm with rfl | rfl
    · obtain ⟨c, hc, e'⟩ := ha.left; exact ⟨c, List.mem_append_left _ hc, e.trans e'⟩
    · obtain ⟨c, hc, e'⟩ := hb.left; exact ⟨c, List.mem_append_right _ hc, e.trans e'⟩
  · obtain ⟨m, hm, e⟩ := h.bottom
    simp only [List.mem_cons, List.not_mem_nil, or_false] at hm
    rcases hm with rfl | rfl
    · obtain ⟨c, hc, e'⟩ := ha.bottom; exact ⟨c, List.mem_append_left _ hc, e.trans e'⟩
    · obtain ⟨c, hc, e'⟩ := hb.bottom; exact ⟨c, List.mem_append_right _ hc, e.trans e'⟩
  · obtain ⟨m, hm, e⟩ := h.right
    simp only [List.mem_cons, List.not_mem_nil, or_false] at hm
    rcases hm with rfl | rfl
    · obtain ⟨c, hc, e'⟩ := ha.right; exact ⟨c, List.mem_append_left _ hc, e.trans e'⟩
    · obtain ⟨c, hc, e'⟩ := hb.right; exact ⟨c, List.mem_append_right _ hc, e.trans e'⟩
  · obtain ⟨m, hm, e⟩ := h.top
    simp only [List.mem_cons, List.not_mem_nil, or_false] at hm
    rcases hm with rfl | rfl
    · obtain ⟨c, hc, e'⟩ := ha.top; exact ⟨c, List.mem_append_left _ hc, e.trans e'⟩
    · obtain ⟨c, hc, e'⟩ := hb.top; exact ⟨c, List.mem_append_right _ hc, e.trans e'⟩

/-- The box of every node of a well-formed hierarchy is the tight hull of the boxes of its leaves. -/
theorem groupOK_hull {bf : Rat} {g : Node} (hok : GroupOK bf g) : IsUnion g.bb (g.leaves.map (·.bb)) := by
  induction hok with
  | leaf b => exact isUnion_singleton _
  | grp t bb l r _ _ hu _ _ ihl ihr =>
    simp only [Node.bb, Node.leaves, List.map_append]
    exact isUnion_two hu ihl ihr

/-- All leaves of `l` lie above all leaves of `r` (they may touch). -/
def Node.above (l r : Node) : Prop := ∀ a ∈ l.leaves, ∀ b ∈ r.leaves, b.bb.y1 ≤ a.bb.y0

/-- Every group of the hierarchy joins two vertically separated runs of boxes (what `group_textboxes` produces for a
column: only vertically adjacent runs are merged). -/
def Node.Separated : Node → Prop
  | .leaf _ => True
  | .grp _ _ l r => (l.above r ∨ r.above l) ∧ l.Separated ∧ r.Separated

/-- In a well-formed hierarchy over horizontal boxes with a common left edge and positive height whose groups
join separated runs, the leaves in depth-first order run from top to bottom (`boxes_flow > -1`). -/
theorem column_top_to_bottom {bf : Rat} (hbf : -1 < bf) (c : Rat) {g : Node} (hok : GroupOK bf g) :
    (∀ a ∈ g.leaves, a.vertical = false ∧ a.bb.x0 = c ∧ a.bb.y0 < a.bb.y1) → g.Separated →
    g.leaves.Pairwise (fun a b => b.bb.y1 ≤ a.bb.y0) := by
  induction hok with
  | leaf b => intro _ _; simp [Node.leaves]
  | grp t bb l r hl hr _ ht hk ihl ihr =>
    intro hcol hsep
    have hcl : ∀ a ∈ l.leaves, a.vertical = false ∧ a.bb.x0 = c ∧ a.bb.y0 < a.bb.y1 :=
      fun a ha => hcol a (by simp [Node.leaves, ha])
    have hcr : ∀ a ∈ r.leaves, a.vertical = false ∧ a.bb.x0 = c ∧ a.bb.y0 < a.bb.y1 :=
      fun a ha => hcol a (by simp [Node.leaves, ha])
    obtain ⟨hab, hsl, hsr⟩ := hsep
    simp only [Node.leaves]
    refine List.pairwise_append.mpr ⟨ihl hcl hsl, ihr hcr hsr, ?_⟩
    rcases hab with hab | hab
    · exact hab
    · exfalso
      have hvl := (groupOK_lrtb hl (fun b hb => (hcl b hb).1)).1
      have hvr := (groupOK_lrtb hr (fun b hb => (hcr b hb).1)).1
      have htf : t = false := by rw [ht, hvl, hvr]; rfl
      subst htf
      simp only [groupKey, Bool.false_eq_true, if_false] at hk
      have hul := groupOK_hull hl
      have hur := groupOK_hull hr
      -- corners of the two hulls
      obtain ⟨xl, hxl, exl⟩ := hul.left
      obtain ⟨xr, hxr, exr⟩ := hur.left
      obtain ⟨tl, htl, etl⟩ := hul.top
      obtain ⟨br, hbr, ebr⟩ := hur.bottom
      simp only [List.mem_map] at hxl hxr htl hbr
      obtain ⟨xl', hxl', rfl⟩ := hxl
      obtain ⟨xr', hxr', rfl⟩ := hxr
      obtain ⟨tl', htl', rfl⟩ := htl
      obtain ⟨br', hbr', rfl⟩ := hbr
      have hx : r.bb.x0 = l.bb.x0 := by rw [exl, exr, (hcl xl' hxl').2.1, (hcr xr' hxr').2.1]
      have h1 : l.bb.y1 ≤ r.bb.y0 := by rw [etl, ebr]; exact hab br' hbr' tl' htl'
      have h2 : l.bb.y0 < l.bb.y1 := by
        have hc := hul.contains tl'.bb (List.mem_map.mpr ⟨tl', htl', rfl⟩)
        have := (hcl tl' htl').2.2
        rw [etl]; exact lt_of_le_of_lt hc.2.1 this
      have h3 : r.bb.y0 < r.bb.y1 := by
        have hc := hur.contains br'.bb (List.mem_map.mpr ⟨br', hbr', rfl⟩)
        have := (hcr br' hbr').2.2
        rw [ebr]; exact lt_of_lt_of_le this hc.2.2.2
      have := key_lrtb_column bf hbf r.bb l.bb hx (by linarith)
      exact absurd hk (not_le.mpr this)

end PdfVerif.Layout

namespace PdfVerif.Layout
open PdfVerif PdfVerif.Gen.Layout

/- `Node.aboveB`, `Node.separatedB` (executable forms, used by the driver op `colsep`) are in Model/Layout.lean. -/

theorem aboveB_iff (l r : Node) : l.aboveB r = true ↔ l.above r := by
  simp only [Node.aboveB, Node.above, List.all_eq_true, decide_eq_true_eq]

theorem separatedB_iff : ∀ n : Node, n.separatedB = true ↔ n.Separated
  | .leaf _ => by simp [Node.separatedB, Node.Separated]
  | .grp _ _ l r => by
    simp only [Node.separatedB, Node.Separated, Bool.and_eq_true, Bool.or_eq_true, aboveB_iff,
      separatedB_iff l, separatedB_iff r, and_assoc]

end PdfVerif.Layout
