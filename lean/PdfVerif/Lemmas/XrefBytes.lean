/-
C02 — byte-level lemmas: chunked backward line reader, cross-reference stream rows.
-/
import PdfVerif.Model.Xref

namespace PdfVerif.Xref

end PdfVerif.Xref
