/-
C02 — byte-level lemmas: chunked backward line reader, cross-reference stream rows.
-/
import PdfVerif.Spec.XrefWrite
import PdfVerif.Lemmas.XrefGen

namespace PdfVerif.Xref

open PdfVerif.Gen.Xref

/-! ### `revreadlines`: specification by a single right-to-left pass -/

/-- `(head, segments)`: the bytes before the first EOL byte, then one segment per EOL byte, each
starting with that EOL byte and running up to (not including) the next one. -/
def segs : Bytes → Bytes × List Bytes
  | [] => ([], [])
  | b :: rest =>
    let r := segs rest
    if isEol b then ([], (b :: r.1) :: r.2) else (b :: r.1, r.2)

/-- What `revreadlines` must yield, independent of any buffer: the segments, last one first. -/
def revLines (data : Bytes) : List Bytes := (segs data).2.reverse

def noEol (l : Bytes) : Prop := ∀ b ∈ l, isEol b = false

theorem noEol_nil : noEol [] := by intro b hb; cases hb

theorem noEol_append {a b : Bytes} (ha : noEol a) (hb : noEol b) : noEol (a ++ b) := by
  intro x hx
  rcases List.mem_append.mp hx with h | h
  · exact ha x h
  · exact hb x h

theorem segs_noEol {l : Bytes} (h : noEol l) : segs l = (l, []) := by
  induction l with
  | nil => rfl
  | cons b rest ih =>
    have hb : isEol b = false := h b (List.mem_cons_self)
    have hr : noEol rest := fun x hx => h x (List.mem_cons_of_mem _ hx)
    simp [segs, hb, ih hr]

theorem segs_head_noEol (l : Bytes) : noEol (segs l).1 := by
  induction l with
  | nil => exact noEol_nil
  | cons b rest ih =>
    by_cases hb : isEol b = true
    · simp [segs, hb]; exact noEol_nil
    · have hb' : isEol b = false := by simpa using hb
      simp only [segs, hb']
      intro x hx
      simp only [Bool.false_eq_true, ↓reduceIte, List.mem_cons] at hx
      rcases hx with h | h
      · rw [h]; exact hb'
      · exact ih x h

theorem segs_append (a c : Bytes) :
    segs (a ++ c) = ((segs (a ++ (segs c).1)).1, (segs (a ++ (segs c).1)).2 ++ (segs c).2) := by
  induction a with
  | nil =>
    simp only [List.nil_append]
    rw [segs_noEol (segs_head_noEol c)]
    simp
  | cons x a ih =>
    simp only [List.cons_append, segs]
    rw [ih]
    by_cases hx : isEol x = true
    · simp [hx]
    · have hx' : isEol x = false := by simpa using hx
      simp [hx']

theorem segs_append_eol (p : Bytes) (e : UInt8) (t : Bytes) (he : isEol e = true) (ht : noEol t) :
    segs (p ++ e :: t) = ((segs p).1, (segs p).2 ++ [e :: t]) := by
  induction p with
  | nil => simp [segs, he, segs_noEol ht]
  | cons x p ih =>
    simp only [List.cons_append, segs]
    rw [ih]
    by_cases hx : isEol x = true
    · simp [hx]
    · have hx' : isEol x = false := by simpa using hx
      simp [hx']

theorem splitLastEol_none {s : Bytes} (h : splitLastEol s = none) : noEol s := by
  induction s with
  | nil => exact noEol_nil
  | cons b rest ih =>
    simp only [splitLastEol] at h
    cases hr : splitLastEol rest with
    | some pq => rw [hr] at h; simp at h
    | none =>
      rw [hr] at h
      simp only at h
      by_cases hb : isEol b = true
      · simp [hb] at h
      · have hb' : isEol b = false := by simpa using hb
        intro x hx
        rcases List.mem_cons.mp hx with hx | hx
        · rw [hx]; exact hb'
        · exact ih hr x hx

theorem splitLastEol_some {s p q : Bytes} (h : splitLastEol s = some (p, q)) :
    ∃ e t, q = e :: t ∧ isEol e = true ∧ noEol t ∧ s = p ++ q := by
  induction s generalizing p q with
  | nil => simp [splitLastEol] at h
  | cons b rest ih =>
    simp only [splitLastEol] at h
    cases hr : splitLastEol rest with
    | some pq =>
      obtain ⟨p', q'⟩ := pq
      rw [hr] at h
      simp only [Option.some.injEq, Prod.mk.injEq] at h
      obtain ⟨e, t, hq, he, ht, hs⟩ := ih hr
      refine ⟨e, t, ?_, he, ht, ?_⟩
      · rw [← h.2]; exact hq
      · rw [← h.1, ← h.2, hs]; rfl
    | none =>
      rw [hr] at h
      simp only at h
      by_cases hb : isEol b = true
      · simp only [hb, ↓reduceIte, Option.some.injEq, Prod.mk.injEq] at h
        refine ⟨b, rest, h.2.symm, hb, splitLastEol_none hr, ?_⟩
        rw [← h.1, ← h.2]; rfl
      · simp [hb] at h

/-- The inner loop on one chunk yields exactly the segments of `s ++ buf`, last first, and leaves
the head segment as the new `buf`. -/
theorem splitChunk_spec (fuel : Nat) (s buf : Bytes) (hf : s.length < fuel) (hb : noEol buf) :
    splitChunk fuel s buf = ((segs (s ++ buf)).2.reverse, (segs (s ++ buf)).1) := by
  induction fuel generalizing s buf with
  | zero => omega
  | succ fuel ih =>
    simp only [splitChunk]
    cases hs : splitLastEol s with
    | none =>
      simp only
      rw [segs_noEol (noEol_append (splitLastEol_none hs) hb)]
      simp
    | some pq =>
      obtain ⟨p, q⟩ := pq
      obtain ⟨e, t, hq, he, ht, hsq⟩ := splitLastEol_some hs
      have hlen : p.length < fuel := by
        have : s.length = p.length + q.length := by rw [hsq]; simp
        rw [hq] at this
        simp at this
        omega
      simp only
      rw [ih p [] hlen noEol_nil]
      simp only [List.append_nil]
      have : s ++ buf = p ++ e :: (t ++ buf) := by rw [hsq, hq]; simp
      rw [this, segs_append_eol p e (t ++ buf) he (noEol_append ht hb)]
      simp [hq]

theorem take_split (d : Bytes) (a b : Nat) (h : a ≤ b) :
    d.take b = d.take a ++ (d.drop a).take (b - a) := by
  induction d generalizing a b with
  | nil => simp
  | cons x d ih =>
    cases a with
    | zero => simp
    | succ a =>
      cases b with
      | zero => omega
      | succ b =>
        simp only [List.take_succ_cons, List.drop_succ_cons, List.cons_append]
        have hsub : b + 1 - (a + 1) = b - a := by omega
        rw [hsub, ih a b (by omega)]

theorem revLoop_spec (bufsiz : Nat) (hb : 1 ≤ bufsiz) (data : Bytes) (fuel pos : Nat) (buf : Bytes)
    (hf : pos < fuel) (hp : pos ≤ data.length) (hbuf : noEol buf) :
    revLoop bufsiz data fuel pos buf = (segs (data.take pos ++ buf)).2.reverse := by
  induction fuel generalizing pos buf with
  | zero => omega
  | succ fuel ih =>
    simp only [revLoop]
    by_cases hz : pos = 0
    · simp [hz, segs_noEol hbuf]
    · simp only [hz, ↓reduceIte]
      have hlt : pos - bufsiz < pos := by omega
      have hne : (slice data (pos - bufsiz) (pos - (pos - bufsiz))).isEmpty = false := by
        simp only [slice, List.isEmpty_eq_false_iff]
        intro hnil
        have := congrArg List.length hnil
        simp at this
        omega
      simp only [hne, Bool.false_eq_true, ↓reduceIte]
      rw [splitChunk_spec _ _ _ (by omega) hbuf]
      simp only
      rw [ih (pos - bufsiz) _ (by omega) (by omega) (segs_head_noEol _)]
      have hsplit : data.take pos = data.take (pos - bufsiz) ++ slice data (pos - bufsiz) (pos - (pos - bufsiz)) := by
        unfold slice; exact take_split data (pos - bufsiz) pos (by omega)
      rw [hsplit, List.append_assoc]
      rw [segs_append (data.take (pos - bufsiz)) (slice data (pos - bufsiz) (pos - (pos - bufsiz)) ++ buf)]
      simp

/-! ### Cross-reference stream rows: encoder (the writer's side) and decoding lemmas -/

/-- A field value can be written in width `w`: it fits, or the width is 0 and the value is the
default that `nunpack` supplies. -/
def Fits (w dflt v : Nat) : Prop := (w = 0 ∧ v = dflt) ∨ (0 < w ∧ v < 256 ^ w)

def FitsRow (w1 w2 w3 : Nat) (r : Row) : Prop :=
  Fits w1 typeDefault r.1 ∧ Fits w2 field2Default r.2.1 ∧ Fits w3 field3Default r.2.2

theorem length_bePack (w v : Nat) : (bePack w v).length = w := by
  induction w generalizing v with
  | zero => rfl
  | succ w ih => simp [bePack, ih]

theorem beNat_snoc (a : Bytes) (b : UInt8) : beNat (a ++ [b]) = beNat a * 256 + b.toNat := by
  simp [beNat, List.foldl_append]

theorem beNat_bePack (w v : Nat) (h : v < 256 ^ w) : beNat (bePack w v) = v := by
  induction w generalizing v with
  | zero =>
    have : v = 0 := by simpa using h
    simp [bePack, beNat, this]
  | succ w ih =>
    have hdiv : v / 256 < 256 ^ w := by
      rw [Nat.pow_succ] at h
      exact Nat.div_lt_of_lt_mul (by rw [Nat.mul_comm]; exact h)
    simp only [bePack, beNat_snoc, ih _ hdiv]
    have : (UInt8.ofNat (v % 256)).toNat = v % 256 := by
      simp
    rw [this]
    omega

theorem nunpack_bePack (w dflt v : Nat) (h : Fits w dflt v) : nunpack (bePack w v) dflt = v := by
  rcases h with ⟨hw, hv⟩ | ⟨hw, hv⟩
  · subst hw; simp [bePack, nunpack, hv]
  · cases hb : bePack w v with
    | nil =>
      have := length_bePack w v
      rw [hb] at this
      simp at this
      omega
    | cons x xs =>
      simp only [nunpack]
      rw [← hb]
      exact beNat_bePack w v hv

theorem length_encodeRow (w1 w2 w3 : Nat) (r : Row) : (encodeRow w1 w2 w3 r).length = w1 + w2 + w3 := by
  simp [encodeRow, length_bePack]; omega

theorem take_len_append (a b : Bytes) : (a ++ b).take a.length = a := by
  induction a with
  | nil => simp
  | cons x a ih => simp [ih]

theorem drop_len_append (a b : Bytes) (k : Nat) : (a ++ b).drop (a.length + k) = b.drop k := by
  induction a with
  | nil => simp
  | cons x a ih =>
    have : (x :: a).length + k = (a.length + k) + 1 := by simp; omega
    rw [this]
    simp [ih]

theorem take_len_append' (a b : Bytes) (n : Nat) (h : a.length = n) : (a ++ b).take n = a := by
  rw [← h]; exact take_len_append a b

theorem drop_len_append' (a b : Bytes) (n : Nat) (h : a.length = n) : (a ++ b).drop n = b := by
  have := drop_len_append a b 0
  rw [h] at this
  simpa using this

/-- Row `i` of the encoded data is the encoding of `rows[i]`. -/
theorem slice_encodeRows (w1 w2 w3 : Nat) (rows : List Row) (i : Nat) (r : Row) (h : rows[i]? = some r) :
    slice (encodeRows w1 w2 w3 rows) ((w1 + w2 + w3) * i) (w1 + w2 + w3) = encodeRow w1 w2 w3 r := by
  induction rows generalizing i with
  | nil => simp at h
  | cons r0 rs ih =>
    cases i with
    | zero =>
      simp only [List.getElem?_cons_zero, Option.some.injEq] at h
      subst h
      simp only [slice, encodeRows, Nat.mul_zero, List.drop_zero]
      exact take_len_append' _ _ _ (length_encodeRow w1 w2 w3 r0)
    | succ i =>
      simp only [List.getElem?_cons_succ] at h
      have := ih i h
      simp only [slice, encodeRows] at this ⊢
      have hmul : (w1 + w2 + w3) * (i + 1) = (encodeRow w1 w2 w3 r0).length + (w1 + w2 + w3) * i := by
        rw [length_encodeRow, Nat.mul_succ]; omega
      rw [hmul, drop_len_append]
      exact this

/-- Decoding row `i` of the encoded data gives back `rows[i]` (with the `nunpack` defaults for
zero-width fields). -/
theorem row_encodeRows (ranges : List (Nat × Nat)) (w1 w2 w3 : Nat) (rows : List Row) (i : Nat) (r : Row)
    (h : rows[i]? = some r) (hf : FitsRow w1 w2 w3 r) :
    (XStream.mk ranges w1 w2 w3 (encodeRows w1 w2 w3 rows)).row i = r := by
  obtain ⟨h1, h2, h3⟩ := hf
  simp only [XStream.row_eq]
  rw [slice_encodeRows w1 w2 w3 rows i r h]
  simp only [encodeRow]
  rw [take_len_append' _ _ _ (length_bePack w1 r.1), drop_len_append' _ _ _ (length_bePack w1 r.1),
    take_len_append' _ _ _ (length_bePack w2 r.2.1)]
  have hd : (bePack w1 r.1 ++ (bePack w2 r.2.1 ++ bePack w3 r.2.2)).drop (w1 + w2) = bePack w3 r.2.2 := by
    rw [← List.append_assoc]
    exact drop_len_append' _ _ _ (by simp [length_bePack])
  rw [hd, nunpack_bePack _ _ _ h1, nunpack_bePack _ _ _ h2, nunpack_bePack _ _ _ h3]

theorem rowType_eq_row (x : XStream) (i : Nat) : x.rowType i = (x.row i).1 := by
  simp [XStream.rowType_eq, XStream.row_eq, objidsTypeDefault, typeDefault]

/-! Range-by-range specification of `/Index`: the first `c` rows belong to the first range. -/

theorem findIndex_rowSpec (ranges : List (Nat × Nat)) (rows : List Row) (n acc : Nat) :
    (findIndex ranges n acc).bind (fun i => rows[i]?) = rowSpec ranges (rows.drop acc) n := by
  induction ranges generalizing acc with
  | nil => simp [findIndex_nil, rowSpec]
  | cons r rest ih =>
    obtain ⟨s, c⟩ := r
    simp only [findIndex_cons, rowSpec]
    by_cases hin : s ≤ n ∧ n < s + c
    · simp [hin, List.getElem?_drop]
    · simp only [hin, ↓reduceIte]
      rw [ih (acc + c)]
      simp [List.drop_drop]

theorem findIndex_lt (ranges : List (Nat × Nat)) (n acc i : Nat) (h : findIndex ranges n acc = some i) :
    i < acc + sumCounts ranges := by
  induction ranges generalizing acc with
  | nil => simp [findIndex_nil] at h
  | cons r rest ih =>
    obtain ⟨s, c⟩ := r
    simp only [findIndex_cons] at h
    by_cases hin : s ≤ n ∧ n < s + c
    · simp only [hin, and_self, ↓reduceIte, Option.some.injEq] at h
      simp only [sumCounts]; omega
    · simp only [hin, ↓reduceIte] at h
      have := ih (acc + c) h
      simp only [sumCounts]; omega

theorem filterMap_congr' {α β : Type} {f g : α → Option β} {l : List α} (h : ∀ a ∈ l, f a = g a) :
    l.filterMap f = l.filterMap g := by
  induction l with
  | nil => rfl
  | cons a l ih =>
    have ha := h a List.mem_cons_self
    have hl := ih (fun b hb => h b (List.mem_cons_of_mem _ hb))
    simp only [List.filterMap_cons, ha, hl]

theorem length_encodeRows (w1 w2 w3 : Nat) (rows : List Row) :
    (encodeRows w1 w2 w3 rows).length = (w1 + w2 + w3) * rows.length := by
  induction rows with
  | nil => simp [encodeRows]
  | cons r rs ih => simp [encodeRows, length_encodeRow, ih, Nat.mul_succ]; omega

theorem objidsAux_spec (ranges : List (Nat × Nat)) (w1 w2 w3 : Nat) (rows : List Row)
    (hf : ∀ r ∈ rows, FitsRow w1 w2 w3 r) (hpos : 0 < w1 + w2 + w3) (allr : List (Nat × Nat)) (idx : Nat)
    (hlen : idx + sumCounts ranges ≤ rows.length) :
    objidsAux (XStream.mk allr w1 w2 w3 (encodeRows w1 w2 w3 rows)) ranges idx = objidsSpec ranges (rows.drop idx) := by
  induction ranges generalizing idx with
  | nil => simp [objidsAux, objidsSpec]
  | cons r rest ih =>
    obtain ⟨s, c⟩ := r
    simp only [sumCounts] at hlen
    simp only [objidsAux, objidsSpec]
    rw [ih (idx + c) (by omega)]
    congr 1
    · apply filterMap_congr'
      intro i hi
      have hic : i < c := List.mem_range.mp hi
      have hlt : idx + i < rows.length := by omega
      have hget : rows[idx + i]? = some rows[idx + i] := List.getElem?_eq_getElem hlt
      have hin : rowInData ((w1 + w2 + w3) * (idx + i)) (encodeRows w1 w2 w3 rows).length = true := by
        rw [length_encodeRows]
        have : (w1 + w2 + w3) * (idx + i) < (w1 + w2 + w3) * rows.length := Nat.mul_lt_mul_of_pos_left hlt hpos
        simp [rowInData]; omega
      simp only [XStream.entlen_eq, objidsRowOffset_eq, hin, Bool.true_and]
      rw [rowType_eq_row, row_encodeRows allr w1 w2 w3 rows (idx + i) _ hget (hf _ (List.getElem_mem hlt))]
      simp [List.getElem?_drop, hget]
    · simp [List.drop_drop]

end PdfVerif.Xref
