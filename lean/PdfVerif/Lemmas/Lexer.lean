/-
Helper lemmas about the lexer model (`Model/Lexer.lean`): the buffered layer equals the byte
automaton, fuel bound.  Property theorems are in `Props/C14.lean`.
-/
import PdfVerif.Model.Lexer

namespace PdfVerif.Lexer
open PdfVerif PdfVerif.Gen.LexTables

/-- Number of scanner hand-overs that can still happen without consuming a byte. -/
def rank : Mode → Nat
  | .main => 0 | .string => 0 | .dead => 0
  | .literalHex => 2 | .wopen => 2
  | _ => 1

/-- A scanner that returns without consuming its byte hands over to a scanner of lower rank. -/
theorem hit_rank (st : St) (c : UInt8) (j : Nat) (h : (atHit st c j).consumed = false) :
    rank (atHit st c j).st.mode < rank st.mode := by
  unfold atHit at h ⊢
  cases hm : st.mode <;> simp only [hm] at h ⊢
  · simp only [parseMainHit] at h; repeat' split at h
    all_goals simp at h
  · simp [parseCommentHit, rank]
  · simp only [parseLiteralHit] at h ⊢; split <;> simp_all [rank]
  · simp only [parseLiteralHexHit, raise] at h ⊢; repeat' split
    all_goals simp_all [rank]
  · simp only [parseNumberHit] at h ⊢; split <;> simp_all [rank]
  · simp [parseFloatHit, rank]
  · simp [parseKeywordHit, rank]
  · simp only [parseStringHit] at h; repeat' split at h
    all_goals simp at h
  · simp only [parseString1Hit, raise] at h ⊢; repeat' split
    all_goals simp_all [rank]
  · simp [parseString2Hit, rank]
  · simp only [parseWopenHit] at h ⊢; split <;> simp_all [rank]
  · simp only [parseWcloseHit] at h ⊢; split <;> simp_all [rank]
  · simp only [parseHexstringHit, raise] at h ⊢; split <;> simp_all [rank]
  · simp at h

theorem rank_le_two (m : Mode) : rank m ≤ 2 := by cases m <;> simp [rank]

/-- More hand-overs than the rank of the current scanner are never used. -/
theorem stepN_stable : ∀ (n : Nat) (st : St) (c : UInt8) (pos : Nat),
    rank st.mode < n → stepN (n + 1) st c pos = stepN n st c pos
  | 0, _, _, _, h => by omega
  | n + 1, st, c, pos, h => by
    have hr := hit_rank st c pos
    rw [stepN, stepN]
    by_cases hc : (atHit st c pos).consumed = true
    · simp only [hc, if_true]
    · have hc' : (atHit st c pos).consumed = false := by simpa using hc
      have ih := stepN_stable n (atHit st c pos).st c pos (by have := hr hc'; omega)
      simp only [hc', ih]

theorem stepN_three (n : Nat) (st : St) (c : UInt8) (pos : Nat) (h : rank st.mode < n) :
    stepN n st c pos = stepN (rank st.mode + 1) st c pos := by
  induction n with
  | zero => omega
  | succ k ih =>
    by_cases hk : rank st.mode < k
    · rw [stepN_stable k st c pos hk, ih hk]
    · have : k = rank st.mode := by omega
      subst this; rfl

/-! ### search -/

theorem search_append (p : UInt8 → Bool) (s : Bytes) : (search p s).1 ++ (search p s).2 = s := by
  induction s with
  | nil => rfl
  | cons c t ih => simp only [search]; split <;> simp [ih]

theorem search_pre (p : UInt8 → Bool) (s : Bytes) : ∀ x ∈ (search p s).1, p x = false := by
  induction s with
  | nil => simp [search]
  | cons c t ih =>
    simp only [search]; split
    · simp
    · rename_i hc; intro x hx
      simp at hx
      rcases hx with rfl | hx
      · simpa using hc
      · exact ih x hx

theorem search_hit (p : UInt8 → Bool) (s : Bytes) (c : UInt8) (tl : Bytes)
    (h : (search p s).2 = c :: tl) : p c = true := by
  induction s with
  | nil => simp [search] at h
  | cons d t ih =>
    simp only [search] at h; split at h
    · rename_i hd; simp at h; rw [← h.1]; exact hd
    · exact ih h

/-! ### accumulation -/

@[simp] theorem accum_mode (st : St) (pre : Bytes) : (accum st pre).mode = st.mode := by
  unfold accum; split <;> rfl

theorem accum_nil (st : St) : accum st [] = st := by
  unfold accum; split <;> simp

theorem accum_accum (st : St) (a b : Bytes) : accum (accum st a) b = accum st (a ++ b) := by
  unfold accum; split <;> simp_all

/-! ### the byte automaton on the bytes one scanner call reads -/

theorem step_nonmatch (st : St) (c : UInt8) (pos : Nat) (p : UInt8 → Bool)
    (hs : searchClass st.mode = some p) (hp : p c = false) :
    stepByte st c pos = (accum st [c], []) := by
  simp [stepByte, stepN, hs, hp]

/-- At a byte the current scanner stops at, the automaton does what the scanner does there and,
    when the byte is not consumed, continues on the same byte with the next scanner. -/
theorem step_hit (st : St) (c : UInt8) (pos : Nat)
    (hs : searchClass st.mode = none ∨ ∃ p, searchClass st.mode = some p ∧ p c = true) :
    stepByte st c pos =
      if (atHit st c pos).consumed then ((atHit st c pos).st, (atHit st c pos).toks)
      else ((stepByte (atHit st c pos).st c pos).1,
            (atHit st c pos).toks ++ (stepByte (atHit st c pos).st c pos).2) := by
  have key : stepByte st c pos =
      if (atHit st c pos).consumed then ((atHit st c pos).st, (atHit st c pos).toks)
      else ((stepN 2 (atHit st c pos).st c pos).1,
            (atHit st c pos).toks ++ (stepN 2 (atHit st c pos).st c pos).2) := by
    rcases hs with hs | ⟨p, hs, hp⟩
    · simp [stepByte, stepN, hs]
    · simp [stepByte, stepN, hs, hp]
  rw [key]
  by_cases hc : (atHit st c pos).consumed = true
  · simp [hc]
  · have hc' : (atHit st c pos).consumed = false := by simpa using hc
    have hr := hit_rank st c pos hc'
    have h2 := rank_le_two st.mode
    have := stepN_stable 2 (atHit st c pos).st c pos (by omega)
    simp only [hc', stepByte, this]

theorem fold_nonmatch (p : UInt8 → Bool) : ∀ (pre suf : Bytes) (st : St) (pos : Nat),
    searchClass st.mode = some p → (∀ x ∈ pre, p x = false) →
    foldBytes st (pre ++ suf) pos = foldBytes (accum st pre) suf (pos + pre.length)
  | [], suf, st, pos, _, _ => by simp [accum_nil]
  | c :: t, suf, st, pos, hs, hp => by
    have hc : p c = false := hp c (by simp)
    have ht : ∀ x ∈ t, p x = false := fun x hx => hp x (by simp [hx])
    simp only [List.cons_append, foldBytes, step_nonmatch st c pos p hs hc]
    rw [fold_nonmatch p t suf (accum st [c]) (pos + 1) (by simpa using hs) ht, accum_accum]
    have : pos + 1 + t.length = pos + (t.length + 1) := by omega
    simp [this]

theorem foldBytes_append : ∀ (a b : Bytes) (st : St) (pos : Nat),
    foldBytes st (a ++ b) pos =
      ((foldBytes (foldBytes st a pos).1 b (pos + a.length)).1,
       (foldBytes st a pos).2 ++ (foldBytes (foldBytes st a pos).1 b (pos + a.length)).2)
  | [], b, st, pos => by simp [foldBytes]
  | c :: t, b, st, pos => by
    simp only [List.cons_append, foldBytes]
    rw [foldBytes_append t b]
    have : pos + 1 + t.length = pos + (t.length + 1) := by omega
    simp [this]

/-- One scanner call followed by the automaton on what it left unread = the automaton on everything. -/
theorem call_fold (st : St) (rest : Bytes) (pos : Nat) (hne : rest ≠ []) :
    foldBytes st rest pos =
      ((foldBytes (call st rest pos).st (call st rest pos).rest (call st rest pos).pos).1,
       (call st rest pos).toks ++
         (foldBytes (call st rest pos).st (call st rest pos).rest (call st rest pos).pos).2) := by
  cases rest with
  | nil => exact absurd rfl hne
  | cons c0 tl0 =>
    cases hs : searchClass st.mode with
    | none =>
      have hstep := step_hit st c0 pos (Or.inl hs)
      simp only [call, hs, afterHit]
      by_cases hc : (atHit st c0 pos).consumed = true
      · simp only [hc, if_true] at hstep ⊢
        simp only [foldBytes, hstep]
      · have hc' : (atHit st c0 pos).consumed = false := by simpa using hc
        simp only [hc', Bool.false_eq_true, if_false] at hstep ⊢
        simp only [foldBytes, hstep, List.append_assoc]
    | some p =>
      have happ := search_append p (c0 :: tl0)
      have hpre := search_pre p (c0 :: tl0)
      simp only [call, hs]
      generalize hr : search p (c0 :: tl0) = r at happ hpre
      obtain ⟨pre, suf⟩ := r
      simp only at happ hpre ⊢
      rw [← happ, fold_nonmatch p pre suf st pos hs hpre]
      cases suf with
      | nil => simp [foldBytes]
      | cons c tl =>
        have hpc : p c = true := search_hit p (c0 :: tl0) c tl (by rw [hr])
        have hs1 : searchClass (accum st pre).mode = some p := by simpa using hs
        have hstep := step_hit (accum st pre) c (pos + pre.length) (Or.inr ⟨p, hs1, hpc⟩)
        simp only [afterHit]
        by_cases hc : (atHit (accum st pre) c (pos + pre.length)).consumed = true
        · simp only [hc, if_true] at hstep ⊢
          simp only [foldBytes, hstep]
        · have hc' : (atHit (accum st pre) c (pos + pre.length)).consumed = false := by simpa using hc
          simp only [hc', Bool.false_eq_true, if_false] at hstep ⊢
          simp only [foldBytes, hstep, List.append_assoc]

/-! ### progress measure of one scanner call -/

theorem afterHit_measure (st : St) (c : UInt8) (tl : Bytes) (j : Nat) :
    3 * (afterHit (atHit st c j) c tl j).rest.length + rank (afterHit (atHit st c j) c tl j).st.mode
      < 3 * (tl.length + 1) + rank st.mode := by
  unfold afterHit
  by_cases hc : (atHit st c j).consumed = true
  · simp only [hc, if_true]
    have := rank_le_two (atHit st c j).st.mode
    omega
  · have hc' : (atHit st c j).consumed = false := by simpa using hc
    have := hit_rank st c j hc'
    simp only [hc', Bool.false_eq_true, if_false, List.length_cons]
    omega

theorem afterHit_pos (h : Hit) (c : UInt8) (tl : Bytes) (j : Nat) :
    (afterHit h c tl j).pos + (afterHit h c tl j).rest.length = j + (tl.length + 1) := by
  unfold afterHit; split <;> simp <;> omega

/-- Every scanner call on a non-empty buffer rest decreases `3·|unread| + rank`. -/
theorem call_measure (st : St) (rest : Bytes) (pos : Nat) (hne : rest ≠ []) :
    3 * (call st rest pos).rest.length + rank (call st rest pos).st.mode
      < 3 * rest.length + rank st.mode := by
  cases rest with
  | nil => exact absurd rfl hne
  | cons c0 tl0 =>
    cases hs : searchClass st.mode with
    | none =>
      simp only [call, hs]
      simpa using afterHit_measure st c0 tl0 pos
    | some p =>
      have happ := search_append p (c0 :: tl0)
      simp only [call, hs]
      generalize search p (c0 :: tl0) = r at happ
      obtain ⟨pre, suf⟩ := r
      simp only at happ ⊢
      have hl : (c0 :: tl0).length = pre.length + suf.length := by rw [← happ]; simp
      cases suf with
      | nil => simp at hl ⊢ <;> omega
      | cons c tl =>
        have := afterHit_measure (accum st pre) c tl (pos + pre.length)
        simp only [accum_mode] at this
        simp only [List.length_cons] at hl ⊢
        omega

theorem call_pos (st : St) (rest : Bytes) (pos : Nat) :
    (call st rest pos).pos + (call st rest pos).rest.length = pos + rest.length := by
  cases rest with
  | nil => simp [call]
  | cons c0 tl0 =>
    cases hs : searchClass st.mode with
    | none => simp only [call, hs]; simpa using afterHit_pos (atHit st c0 pos) c0 tl0 pos
    | some p =>
      have happ := search_append p (c0 :: tl0)
      simp only [call, hs]
      generalize search p (c0 :: tl0) = r at happ
      obtain ⟨pre, suf⟩ := r
      simp only at happ ⊢
      have hl : (c0 :: tl0).length = pre.length + suf.length := by rw [← happ]; simp
      cases suf with
      | nil => simp at hl ⊢ <;> omega
      | cons c tl =>
        have := afterHit_pos (atHit (accum st pre) c (pos + pre.length)) c tl (pos + pre.length)
        simp only [List.length_cons] at hl ⊢
        omega

/-- The buffered loop, given enough fuel, yields exactly the automaton's tokens over the unread
    bytes followed by the flushed newline — whatever `b ≥ 1`. -/
theorem runLoop_eq (b : Nat) (hb : 1 ≤ b) : ∀ (f : Nat) (eof : Bool) (st : St) (rest file : Bytes) (pos : Nat),
    (eof = true → file = []) →
    3 * (rest.length + file.length + (if eof then 0 else 1)) + rank st.mode + 1 + (if eof then 0 else 1) ≤ f →
    runLoop b f eof st rest file pos =
      some (foldBytes st (rest ++ file ++ (if eof then [] else [10])) pos).2
  | 0, _, _, _, _, _, _, h => by omega
  | f + 1, eof, st, rest, file, pos, hef, h => by
    rw [runLoop]
    cases rest with
    | nil =>
      simp only [List.isEmpty_nil, if_true, List.nil_append]
      cases hfile : file with
      | nil =>
        simp only [List.take_nil, List.drop_nil]
        cases eof with
        | true => simp [foldBytes]
        | false =>
          simp only [Bool.false_eq_true, if_false]
          rw [runLoop_eq b hb f true st [10] [] pos (fun _ => rfl)
            (by subst hfile; simp at h ⊢; omega)]
          simp
      | cons d ft =>
        rw [← hfile]
        have heof : eof = false := by
          cases eof with
          | false => rfl
          | true => have := hef rfl; rw [this] at hfile; simp at hfile
        subst heof
        have hne : file.take b ≠ [] := by
          rw [hfile]; cases b with
          | zero => omega
          | succ k => simp
        cases hbuf : file.take b with
        | nil => exact absurd hbuf hne
        | cons x xs =>
          simp only
          rw [← hbuf]
          have hm := call_measure st (file.take b) pos hne
          have hlen : (file.take b).length + (file.drop b).length = file.length := by
            rw [← List.length_append, List.take_append_drop]
          have ih := runLoop_eq b hb f false (call st (file.take b) pos).st (call st (file.take b) pos).rest
            (file.drop b) (call st (file.take b) pos).pos (by simp)
            (by simp only [List.length_nil, Bool.false_eq_true, if_false] at h ⊢; omega)
          rw [ih]
          have hsplit : file = file.take b ++ file.drop b := (List.take_append_drop b file).symm
          have e1 : foldBytes st (file ++ (if false = true then [] else [10])) pos
              = foldBytes st (file.take b ++ (file.drop b ++ [10])) pos := by
            rw [← List.append_assoc, ← hsplit]; simp
          rw [e1]
          rw [foldBytes_append (file.take b) (file.drop b ++ [10]) st pos,
              call_fold st (file.take b) pos hne]
          simp only [Bool.false_eq_true, if_false, List.append_assoc]
          rw [foldBytes_append (call st (file.take b) pos).rest (file.drop b ++ [10])]
          simp only [List.append_assoc]
          rw [call_pos]
    | cons x xs =>
      simp only [List.isEmpty_cons, Bool.false_eq_true, if_false]
      have hne : (x :: xs) ≠ [] := by simp
      have hm := call_measure st (x :: xs) pos hne
      have ih := runLoop_eq b hb f eof (call st (x :: xs) pos).st (call st (x :: xs) pos).rest
        file (call st (x :: xs) pos).pos hef (by omega)
      rw [ih]
      generalize (if eof = true then ([] : Bytes) else [10]) = T
      have e1 : x :: xs ++ file ++ T = (x :: xs) ++ (file ++ T) := by simp
      have e2 : (call st (x :: xs) pos).rest ++ file ++ T = (call st (x :: xs) pos).rest ++ (file ++ T) := by simp
      rw [e1, e2, foldBytes_append (x :: xs) (file ++ T) st pos, call_fold st (x :: xs) pos hne,
          foldBytes_append (call st (x :: xs) pos).rest (file ++ T)]
      simp only [List.append_assoc]
      rw [call_pos]

end PdfVerif.Lexer
