/-
C02 — helper lemmas: representation of a history by loaded sections, search correctness.
-/
import PdfVerif.Spec.Xref
import PdfVerif.Lemmas.XrefGen

namespace PdfVerif.Xref

open PdfVerif.Gen.Xref

instance : DecidableEq (Except Err Val) := fun a b =>
  match a, b with
  | .ok x, .ok y => if h : x = y then isTrue (by rw [h]) else isFalse (by intro h'; cases h'; exact h rfl)
  | .error x, .error y => if h : x = y then isTrue (by rw [h]) else isFalse (by intro h'; cases h'; exact h rfl)
  | .ok _, .error _ => isFalse (by intro h; cases h)
  | .error _, .ok _ => isFalse (by intro h; cases h)

/-- Section `s` lists exactly the definitions of revision `r` (for every object number). -/
def SecRep (whole : History) (objs : List (Nat × Nat × Nat × Val)) (s : Section) (r : Revision) : Prop :=
  ∀ n, match r.lookup n with
       | none => s.getPos n = none
       | some v => ∃ e, s.getPos n = some e ∧ entryOK whole objs n v e = true

/-- The loaded sections (newest first) represent the history (newest first), one section per
(sub-)revision. -/
inductive Rep (whole : History) (objs : List (Nat × Nat × Nat × Val)) : List Section → History → Prop
  | nil : Rep whole objs [] []
  | cons {s ss r rs} : SecRep whole objs s r → Rep whole objs ss rs → Rep whole objs (s :: ss) (r :: rs)

theorem toVal_ne_objstm (t : Tok) (id k : Nat) (toks : List Tok) : t.toVal ≠ Val.objstm id k toks := by
  cases t <;> simp [Tok.toVal]

theorem tryEntry_direct {whole objs n v e} (rec : Nat → Except Err Val)
    (hs : e.strm = none) (h : entryOK whole objs n v e = true) : tryEntry objs rec n e = .ok v := by
  unfold entryOK at h
  unfold tryEntry parseAt
  rw [hs] at h ⊢
  simp only at h ⊢
  cases hl : lookupNat objs e.idx with
  | none => rw [hl] at h; simp at h
  | some t =>
    obtain ⟨num, g, v'⟩ := t
    rw [hl] at h
    simp only [Bool.and_eq_true, beq_iff_eq] at h
    simp [h.1, h.2]

theorem tryEntry_comp {whole objs n v e c} (rec : Nat → Except Err Val)
    (hs : e.strm = some c) (h : entryOK whole objs n v e = true) :
    ∃ id k toks, resolve whole c = some (.objstm id k toks) ∧
      (rec c = .ok (.objstm id k toks) → tryEntry objs rec n e = .ok v) ∧
      (∀ id' k' toks', v ≠ .objstm id' k' toks') := by
  unfold entryOK at h
  rw [hs] at h
  simp only at h
  cases hr : resolve whole c with
  | none => rw [hr] at h; simp at h
  | some cv =>
    rw [hr] at h
    cases cv with
    | int _ => simp at h
    | plain _ => simp at h
    | objstm id k toks =>
      simp only at h
      cases ht : toks[k * 2 + e.idx]? with
      | none => rw [ht] at h; simp at h
      | some t =>
        rw [ht] at h
        simp only [beq_iff_eq] at h
        refine ⟨id, k, toks, rfl, ?_, ?_⟩
        · intro hrec
          unfold tryEntry
          rw [hs]
          simp only [hrec, objstmMember, objstmIndex, ht, h]
        · intro id' k' toks' hv
          exact toVal_ne_objstm t id' k' toks' (h.trans hv)

theorem resolve_cons_none {r : Revision} {rs : History} {n : Nat} (h : r.lookup n = none) :
    resolve (r :: rs) n = resolve rs n := by
  simp [resolve, h]

theorem resolve_cons_some {r : Revision} {rs : History} {n : Nat} {v : Val} (h : r.lookup n = some v) :
    resolve (r :: rs) n = some v := by
  simp [resolve, h]

/-- Newest-first search over sections that represent `rs` computes `resolve rs`, provided the
recursive call is right on object-stream containers — or the object looked up is a container
itself (then the recursive call is never used). -/
theorem search_rep {whole objs ss rs} (h : Rep whole objs ss rs) (n : Nat) (rec : Nat → Except Err Val)
    (hrec : (∃ id k toks, resolve rs n = some (.objstm id k toks)) ∨
            (∀ c id k toks, resolve whole c = some (.objstm id k toks) → rec c = .ok (.objstm id k toks))) :
    search objs rec n ss = specGetobj rs n := by
  induction h with
  | nil => simp [search, specGetobj, resolve]
  | @cons s ss r rs hs _ ih =>
    have hn := hs n
    cases hl : r.lookup n with
    | none =>
      rw [hl] at hn
      simp only at hn
      have : search objs rec n (s :: ss) = search objs rec n ss := by
        simp [search, hn]
      rw [this]
      unfold specGetobj
      rw [resolve_cons_none hl]
      apply ih
      cases hrec with
      | inl h1 => left; rw [resolve_cons_none hl] at h1; exact h1
      | inr h2 => right; exact h2
    | some v =>
      rw [hl] at hn
      simp only at hn
      obtain ⟨e, hg, hok⟩ := hn
      have hres : specGetobj (r :: rs) n = .ok v := by
        unfold specGetobj; rw [resolve_cons_some hl]
      rw [hres]
      have htry : tryEntry objs rec n e = .ok v := by
        cases hst : e.strm with
        | none => exact tryEntry_direct rec hst hok
        | some c =>
          obtain ⟨id, k, toks, hc, himp, hno⟩ := tryEntry_comp rec hst hok
          cases hrec with
          | inl h1 =>
            obtain ⟨id', k', toks', hv⟩ := h1
            rw [resolve_cons_some hl] at hv
            exact absurd (Option.some.inj hv) (hno id' k' toks')
          | inr h2 => exact himp (h2 c id k toks hc)
      simp [search, hg, htry]

theorem getobjF_objstm {whole objs ss} (h : Rep whole objs ss whole) (f : Nat) (ip : List Nat) (n : Nat) {id k toks}
    (hv : resolve whole n = some (.objstm id k toks)) :
    getobjF objs ss (f + 1) ip n = .ok (.objstm id k toks) := by
  have := search_rep h n (fun c => if ip.contains c then .error .syntax else getobjF objs ss f (c :: ip) c)
    (Or.inl ⟨id, k, toks, hv⟩)
  simp only [getobjF, this, specGetobj, hv]

theorem getobjF_spec {whole objs ss} (h : Rep whole objs ss whole) (f n : Nat) :
    getobjF objs ss (f + 2) [] n = specGetobj whole n := by
  have := search_rep h n (fun c => if ([] : List Nat).contains c then .error .syntax else getobjF objs ss (f + 1) [c] c)
    (Or.inr (fun c id k toks hc => by simpa using getobjF_objstm h f [c] c hc))
  rw [getobjF]
  exact this

/-! ### Soundness of the executable checker `repOK` -/

theorem lookupOff_none_of_below {offs : List (Int × Entry)} {bound n : Nat}
    (h : offs.all (fun p => p.1 < (bound : Int)) = true) (hn : bound ≤ n) : lookupOff offs (n : Int) = none := by
  induction offs with
  | nil => rfl
  | cons p rest ih =>
    simp only [List.all_cons, Bool.and_eq_true, decide_eq_true_eq] at h
    obtain ⟨k, e⟩ := p
    have hk : ¬ (k = (n : Int)) := by
      have := h.1
      simp only at this
      omega
    simp [lookupOff, hk, ih h.2]

theorem findIndex_none_of_below {ranges : List (Nat × Nat)} {bound n acc : Nat}
    (h : ranges.all (fun r => r.1 + r.2 ≤ bound) = true) (hn : bound ≤ n) : findIndex ranges n acc = none := by
  induction ranges generalizing acc with
  | nil => rfl
  | cons r rest ih =>
    simp only [List.all_cons, Bool.and_eq_true, decide_eq_true_eq] at h
    obtain ⟨s, c⟩ := r
    have : ¬ (s ≤ n ∧ n < s + c) := by
      have := h.1
      simp only at this
      omega
    simp [findIndex_cons, this, ih h.2]

theorem getPos_none_of_below {s : Section} {bound n : Nat} (h : s.below bound = true) (hn : bound ≤ n) :
    s.getPos n = none := by
  cases s with
  | table offs => exact lookupOff_none_of_below h hn
  | stream x =>
    simp only [Section.getPos, XStream.getPos]
    rw [findIndex_none_of_below h hn]

theorem lookupNat_none_of_below {α : Type} {l : List (Nat × α)} {bound n : Nat}
    (h : l.all (fun p => p.1 < bound) = true) (hn : bound ≤ n) : lookupNat l n = none := by
  induction l with
  | nil => rfl
  | cons p rest ih =>
    simp only [List.all_cons, Bool.and_eq_true, decide_eq_true_eq] at h
    obtain ⟨k, v⟩ := p
    have hk : ¬ (k = n) := by
      have := h.1
      simp only at this
      omega
    simp [lookupNat, hk, ih h.2]

theorem secRep_of_secOKb {whole objs bound s r} (h1 : secOKb whole objs bound s r = true)
    (h2 : s.below bound = true) (h3 : r.below bound = true) : SecRep whole objs s r := by
  intro n
  by_cases hn : n < bound
  · unfold secOKb at h1
    rw [List.all_eq_true] at h1
    have := h1 n (List.mem_range.mpr hn)
    cases hl : r.lookup n with
    | none =>
      rw [hl] at this
      cases hg : s.getPos n with
      | none => rfl
      | some e => rw [hg] at this; simp at this
    | some v =>
      rw [hl] at this
      cases hg : s.getPos n with
      | none => rw [hg] at this; simp at this
      | some e => rw [hg] at this; exact ⟨e, rfl, this⟩
  · have hb : bound ≤ n := by omega
    have hl : r.lookup n = none := lookupNat_none_of_below h3 hb
    rw [hl]
    exact getPos_none_of_below h2 hb

theorem rep_of_alignedOK {whole objs bound ss rs} (h : alignedOK whole objs bound ss rs = true) :
    Rep whole objs ss rs := by
  induction ss generalizing rs with
  | nil =>
    cases rs with
    | nil => exact .nil
    | cons r rs => simp [alignedOK] at h
  | cons s ss ih =>
    cases rs with
    | nil => simp [alignedOK] at h
    | cons r rs =>
      simp only [alignedOK, Bool.and_eq_true] at h
      exact .cons (secRep_of_secOKb h.1.1.1 h.1.1.2 h.1.2) (ih h.2)

/-! ### Splitting a hybrid revision into its table part and its stream part -/

theorem lookupNat_append {α : Type} (a b : List (Nat × α)) (n : Nat) :
    lookupNat (a ++ b) n = match lookupNat a n with | some v => some v | none => lookupNat b n := by
  induction a with
  | nil => simp [lookupNat]
  | cons p rest ih =>
    obtain ⟨k, v⟩ := p
    by_cases hk : k = n
    · simp [lookupNat, hk]
    · simp [lookupNat, hk, ih]

/-! ### The object cache never changes an answer -/

/-- Every cached pair is in the graph of `resolve`. -/
def CacheOK (whole : History) (c : Cache) : Prop :=
  ∀ k v, lookupNat c k = some v → specGetobj whole k = .ok v

theorem cacheOK_nil (whole : History) : CacheOK whole [] := by
  intro k v h; simp [lookupNat] at h

theorem cacheOK_cons {whole : History} {c : Cache} {n : Nat} {v : Val} (h : CacheOK whole c)
    (hv : specGetobj whole n = .ok v) : CacheOK whole ((n, v) :: c) := by
  intro k v' hk
  simp only [lookupNat] at hk
  by_cases hnk : n = k
  · subst hnk
    simp only [beq_self_eq_true, ↓reduceIte, Option.some.injEq] at hk
    rw [← hk]; exact hv
  · have : (n == k) = false := by simpa using hnk
    simp only [this, Bool.false_eq_true, ↓reduceIte] at hk
    exact h k v' hk

theorem parseAt_direct {whole objs n v e} (hs : e.strm = none) (h : entryOK whole objs n v e = true) :
    parseAt objs e.idx n = .ok v := by
  have := tryEntry_direct (whole := whole) (fun _ => .error .notFound) hs h
  unfold tryEntry at this
  rw [hs] at this
  exact this

theorem member_of_entryOK {whole objs n v e cont} (hs : e.strm = some cont)
    (h : entryOK whole objs n v e = true) :
    ∃ id k toks, resolve whole cont = some (.objstm id k toks) ∧
      objstmMember (.objstm id k toks) e.idx = .ok v ∧ (∀ id' k' toks', v ≠ .objstm id' k' toks') := by
  obtain ⟨id, k, toks, hc, himp, hno⟩ := tryEntry_comp (specGetobj whole) hs h
  refine ⟨id, k, toks, hc, ?_, hno⟩
  have := himp (by simp [specGetobj, hc])
  unfold tryEntry at this
  rw [hs] at this
  simpa [specGetobj, hc] using this

theorem searchC_rep {whole objs ss rs} (h : Rep whole objs ss rs) (n : Nat)
    (rec : Cache → Nat → Except Err Val × Cache) (c : Cache) (hc : CacheOK whole c)
    (hrec : (∃ id k toks, resolve rs n = some (.objstm id k toks)) ∨
            (∀ c0 cont id k toks, CacheOK whole c0 → resolve whole cont = some (.objstm id k toks) →
               (rec c0 cont).1 = .ok (.objstm id k toks) ∧ CacheOK whole (rec c0 cont).2)) :
    (searchC objs rec n ss c).1 = specGetobj rs n ∧ CacheOK whole (searchC objs rec n ss c).2 := by
  induction h with
  | nil => exact ⟨by simp [searchC, specGetobj, resolve], by simpa [searchC] using hc⟩
  | @cons s ss r rs hs _ ih =>
    have hn := hs n
    cases hl : r.lookup n with
    | none =>
      rw [hl] at hn
      simp only at hn
      have : searchC objs rec n (s :: ss) c = searchC objs rec n ss c := by
        simp [searchC, hn]
      rw [this]
      unfold specGetobj
      rw [resolve_cons_none hl]
      apply ih
      cases hrec with
      | inl h1 => left; rw [resolve_cons_none hl] at h1; exact h1
      | inr h2 => right; exact h2
    | some v =>
      rw [hl] at hn
      simp only at hn
      obtain ⟨e, hg, hok⟩ := hn
      have hres : specGetobj (r :: rs) n = .ok v := by
        unfold specGetobj; rw [resolve_cons_some hl]
      rw [hres]
      have htry : (tryEntryC objs rec c n e).1 = .ok v ∧ CacheOK whole (tryEntryC objs rec c n e).2 := by
        cases hst : e.strm with
        | none =>
          unfold tryEntryC
          rw [hst]
          exact ⟨parseAt_direct hst hok, hc⟩
        | some cont =>
          obtain ⟨id, k, toks, hcont, hmem, hno⟩ := member_of_entryOK hst hok
          cases hrec with
          | inl h1 =>
            obtain ⟨id', k', toks', hv⟩ := h1
            rw [resolve_cons_some hl] at hv
            exact absurd (Option.some.inj hv) (hno id' k' toks')
          | inr h2 =>
            obtain ⟨hr1, hr2⟩ := h2 c cont id k toks hc hcont
            unfold tryEntryC
            rw [hst]
            rcases hrc : rec c cont with ⟨res, c'⟩
            rw [hrc] at hr1 hr2
            simp only at hr1 hr2
            subst hr1
            simp only [hrc]
            exact ⟨hmem, hr2⟩
      rcases ht : tryEntryC objs rec c n e with ⟨res, c'⟩
      rw [ht] at htry
      obtain ⟨h1, h2⟩ := htry
      simp only at h1 h2
      subst h1
      simp [searchC, hg, ht, h2]

theorem getobjC_objstm {whole objs ss} (h : Rep whole objs ss whole) (f : Nat) (ip : List Nat) (c : Cache) (n : Nat)
    (hc : CacheOK whole c) {id k toks} (hv : resolve whole n = some (.objstm id k toks)) :
    (getobjC objs ss (f + 1) ip c n).1 = .ok (.objstm id k toks) ∧
      CacheOK whole (getobjC objs ss (f + 1) ip c n).2 := by
  have hspec : specGetobj whole n = .ok (.objstm id k toks) := by simp [specGetobj, hv]
  unfold getobjC
  cases hl : lookupNat c n with
  | some v =>
    have := hc n v hl
    rw [hspec] at this
    simp only [Except.ok.injEq] at this
    subst this
    exact ⟨rfl, hc⟩
  | none =>
    obtain ⟨h1, h2⟩ := searchC_rep h n
      (fun c' s => if ip.contains s then (.error .syntax, c') else getobjC objs ss f (s :: ip) c' s) c hc
      (Or.inl ⟨id, k, toks, hv⟩)
    rcases hs : searchC objs
      (fun c' s => if ip.contains s then (.error .syntax, c') else getobjC objs ss f (s :: ip) c' s) n ss c with ⟨res, c'⟩
    rw [hs] at h1 h2
    simp only at h1 h2
    rw [hspec] at h1
    subst h1
    exact ⟨rfl, cacheOK_cons h2 hspec⟩

theorem getobjC_spec {whole objs ss} (h : Rep whole objs ss whole) (f : Nat) (c : Cache) (n : Nat)
    (hc : CacheOK whole c) :
    (getobjC objs ss (f + 2) [] c n).1 = specGetobj whole n ∧ CacheOK whole (getobjC objs ss (f + 2) [] c n).2 := by
  unfold getobjC
  cases hl : lookupNat c n with
  | some v => exact ⟨(hc n v hl).symm, hc⟩
  | none =>
    obtain ⟨h1, h2⟩ := searchC_rep h n
      (fun c' s => if ([] : List Nat).contains s then (.error .syntax, c') else getobjC objs ss (f + 1) [s] c' s) c hc
      (Or.inr (fun c0 cont id k toks hc0 hcont => by simpa using getobjC_objstm h f [cont] c0 cont hc0 hcont))
    rcases hs : searchC objs
      (fun c' s => if ([] : List Nat).contains s then (.error .syntax, c') else getobjC objs ss (f + 1) [s] c' s) n ss c with ⟨res, c'⟩
    rw [hs] at h1 h2
    simp only at h1 h2
    cases res with
    | ok v => exact ⟨h1, cacheOK_cons h2 h1.symm⟩
    | error x => exact ⟨h1, h2⟩

theorem queriesC_spec {whole objs ss} (h : Rep whole objs ss whole) (qs : List Nat) (c : Cache)
    (hc : CacheOK whole c) : queriesC objs ss qs c = qs.map (specGetobj whole) := by
  induction qs generalizing c with
  | nil => rfl
  | cons q qs ih =>
    obtain ⟨h1, h2⟩ := getobjC_spec h (getobjFuel - 2) c q hc
    simp only [queriesC, List.map_cons]
    have hf : getobjFuel = getobjFuel - 2 + 2 := by decide
    rw [hf]
    rw [h1, ih _ h2]

end PdfVerif.Xref
