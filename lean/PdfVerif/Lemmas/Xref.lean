/-
C02 — helper lemmas: representation of a history by loaded sections, search correctness.
-/
import PdfVerif.Spec.Xref

namespace PdfVerif.Xref

instance : DecidableEq (Except Err Val) := fun a b =>
  match a, b with
  | .ok x, .ok y => if h : x = y then isTrue (by rw [h]) else isFalse (by intro h'; cases h'; exact h rfl)
  | .error x, .error y => if h : x = y then isTrue (by rw [h]) else isFalse (by intro h'; cases h'; exact h rfl)
  | .ok _, .error _ => isFalse (by intro h; cases h)
  | .error _, .ok _ => isFalse (by intro h; cases h)

/-- Section `s` lists exactly the definitions of revision `r` (for every object number). -/
def SecRep (whole : History) (objs : List (Nat × Nat × Nat × Val)) (s : Section) (r : Revision) : Prop :=
  ∀ n, match r.lookup n with
       | none => s.getPos n = none
       | some v => ∃ e, s.getPos n = some e ∧ entryOK whole objs n v e = true

/-- The loaded sections (newest first) represent the history (newest first), one section per
(sub-)revision. -/
inductive Rep (whole : History) (objs : List (Nat × Nat × Nat × Val)) : List Section → History → Prop
  | nil : Rep whole objs [] []
  | cons {s ss r rs} : SecRep whole objs s r → Rep whole objs ss rs → Rep whole objs (s :: ss) (r :: rs)

theorem toVal_ne_objstm (t : Tok) (id k : Nat) (toks : List Tok) : t.toVal ≠ Val.objstm id k toks := by
  cases t <;> simp [Tok.toVal]

theorem tryEntry_direct {whole objs n v e} (rec : Nat → Except Err Val)
    (hs : e.strm = none) (h : entryOK whole objs n v e = true) : tryEntry objs rec n e = .ok v := by
  unfold entryOK at h
  unfold tryEntry parseAt
  rw [hs] at h ⊢
  simp only at h ⊢
  cases hl : lookupNat objs e.idx with
  | none => rw [hl] at h; simp at h
  | some t =>
    obtain ⟨num, g, v'⟩ := t
    rw [hl] at h
    simp only [Bool.and_eq_true, beq_iff_eq] at h
    simp [h.1, h.2]

theorem tryEntry_comp {whole objs n v e c} (rec : Nat → Except Err Val)
    (hs : e.strm = some c) (h : entryOK whole objs n v e = true) :
    ∃ id k toks, resolve whole c = some (.objstm id k toks) ∧
      (rec c = .ok (.objstm id k toks) → tryEntry objs rec n e = .ok v) ∧
      (∀ id' k' toks', v ≠ .objstm id' k' toks') := by
  unfold entryOK at h
  rw [hs] at h
  simp only at h
  cases hr : resolve whole c with
  | none => rw [hr] at h; simp at h
  | some cv =>
    rw [hr] at h
    cases cv with
    | int _ => simp at h
    | plain _ => simp at h
    | objstm id k toks =>
      simp only at h
      cases ht : toks[k * 2 + e.idx]? with
      | none => rw [ht] at h; simp at h
      | some t =>
        rw [ht] at h
        simp only [beq_iff_eq] at h
        refine ⟨id, k, toks, rfl, ?_, ?_⟩
        · intro hrec
          unfold tryEntry
          rw [hs]
          simp only [hrec, objstmMember, ht, h]
        · intro id' k' toks' hv
          exact toVal_ne_objstm t id' k' toks' (h.trans hv)

theorem resolve_cons_none {r : Revision} {rs : History} {n : Nat} (h : r.lookup n = none) :
    resolve (r :: rs) n = resolve rs n := by
  simp [resolve, h]

theorem resolve_cons_some {r : Revision} {rs : History} {n : Nat} {v : Val} (h : r.lookup n = some v) :
    resolve (r :: rs) n = some v := by
  simp [resolve, h]

/-- Newest-first search over sections that represent `rs` computes `resolve rs`, provided the
recursive call is right on object-stream containers — or the object looked up is a container
itself (then the recursive call is never used). -/
theorem search_rep {whole objs ss rs} (h : Rep whole objs ss rs) (n : Nat) (rec : Nat → Except Err Val)
    (hrec : (∃ id k toks, resolve rs n = some (.objstm id k toks)) ∨
            (∀ c id k toks, resolve whole c = some (.objstm id k toks) → rec c = .ok (.objstm id k toks))) :
    search objs rec n ss = specGetobj rs n := by
  induction h with
  | nil => simp [search, specGetobj, resolve]
  | @cons s ss r rs hs _ ih =>
    have hn := hs n
    cases hl : r.lookup n with
    | none =>
      rw [hl] at hn
      simp only at hn
      have : search objs rec n (s :: ss) = search objs rec n ss := by
        simp [search, hn]
      rw [this]
      unfold specGetobj
      rw [resolve_cons_none hl]
      apply ih
      cases hrec with
      | inl h1 => left; rw [resolve_cons_none hl] at h1; exact h1
      | inr h2 => right; exact h2
    | some v =>
      rw [hl] at hn
      simp only at hn
      obtain ⟨e, hg, hok⟩ := hn
      have hres : specGetobj (r :: rs) n = .ok v := by
        unfold specGetobj; rw [resolve_cons_some hl]
      rw [hres]
      have htry : tryEntry objs rec n e = .ok v := by
        cases hst : e.strm with
        | none => exact tryEntry_direct rec hst hok
        | some c =>
          obtain ⟨id, k, toks, hc, himp, hno⟩ := tryEntry_comp rec hst hok
          cases hrec with
          | inl h1 =>
            obtain ⟨id', k', toks', hv⟩ := h1
            rw [resolve_cons_some hl] at hv
            exact absurd (Option.some.inj hv) (hno id' k' toks')
          | inr h2 => exact himp (h2 c id k toks hc)
      simp [search, hg, htry]

theorem getobjF_objstm {whole objs ss} (h : Rep whole objs ss whole) (f n : Nat) {id k toks}
    (hv : resolve whole n = some (.objstm id k toks)) :
    getobjF objs ss (f + 1) n = .ok (.objstm id k toks) := by
  have := search_rep h n (getobjF objs ss f) (Or.inl ⟨id, k, toks, hv⟩)
  simp only [getobjF, this, specGetobj, hv]

theorem getobjF_spec {whole objs ss} (h : Rep whole objs ss whole) (f n : Nat) :
    getobjF objs ss (f + 2) n = specGetobj whole n := by
  have := search_rep h n (getobjF objs ss (f + 1))
    (Or.inr (fun c id k toks hc => getobjF_objstm h f c hc))
  simpa [getobjF] using this

/-! ### Soundness of the executable checker `repOK` -/

theorem lookupOff_none_of_below {offs : List (Int × Entry)} {bound n : Nat}
    (h : offs.all (fun p => p.1 < (bound : Int)) = true) (hn : bound ≤ n) : lookupOff offs (n : Int) = none := by
  induction offs with
  | nil => rfl
  | cons p rest ih =>
    simp only [List.all_cons, Bool.and_eq_true, decide_eq_true_eq] at h
    obtain ⟨k, e⟩ := p
    have hk : ¬ (k = (n : Int)) := by
      have := h.1
      simp only at this
      omega
    simp [lookupOff, hk, ih h.2]

theorem findIndex_none_of_below {ranges : List (Nat × Nat)} {bound n acc : Nat}
    (h : ranges.all (fun r => r.1 + r.2 ≤ bound) = true) (hn : bound ≤ n) : findIndex ranges n acc = none := by
  induction ranges generalizing acc with
  | nil => rfl
  | cons r rest ih =>
    simp only [List.all_cons, Bool.and_eq_true, decide_eq_true_eq] at h
    obtain ⟨s, c⟩ := r
    have : ¬ (s ≤ n ∧ n < s + c) := by
      have := h.1
      simp only at this
      omega
    simp [findIndex, this, ih h.2]

theorem getPos_none_of_below {s : Section} {bound n : Nat} (h : s.below bound = true) (hn : bound ≤ n) :
    s.getPos n = none := by
  cases s with
  | table offs => exact lookupOff_none_of_below h hn
  | stream x =>
    simp only [Section.getPos, XStream.getPos]
    rw [findIndex_none_of_below h hn]

theorem lookupNat_none_of_below {α : Type} {l : List (Nat × α)} {bound n : Nat}
    (h : l.all (fun p => p.1 < bound) = true) (hn : bound ≤ n) : lookupNat l n = none := by
  induction l with
  | nil => rfl
  | cons p rest ih =>
    simp only [List.all_cons, Bool.and_eq_true, decide_eq_true_eq] at h
    obtain ⟨k, v⟩ := p
    have hk : ¬ (k = n) := by
      have := h.1
      simp only at this
      omega
    simp [lookupNat, hk, ih h.2]

theorem secRep_of_secOKb {whole objs bound s r} (h1 : secOKb whole objs bound s r = true)
    (h2 : s.below bound = true) (h3 : r.below bound = true) : SecRep whole objs s r := by
  intro n
  by_cases hn : n < bound
  · unfold secOKb at h1
    rw [List.all_eq_true] at h1
    have := h1 n (List.mem_range.mpr hn)
    cases hl : r.lookup n with
    | none =>
      rw [hl] at this
      cases hg : s.getPos n with
      | none => rfl
      | some e => rw [hg] at this; simp at this
    | some v =>
      rw [hl] at this
      cases hg : s.getPos n with
      | none => rw [hg] at this; simp at this
      | some e => rw [hg] at this; exact ⟨e, rfl, this⟩
  · have hb : bound ≤ n := by omega
    have hl : r.lookup n = none := lookupNat_none_of_below h3 hb
    rw [hl]
    exact getPos_none_of_below h2 hb

theorem rep_of_alignedOK {whole objs bound ss rs} (h : alignedOK whole objs bound ss rs = true) :
    Rep whole objs ss rs := by
  induction ss generalizing rs with
  | nil =>
    cases rs with
    | nil => exact .nil
    | cons r rs => simp [alignedOK] at h
  | cons s ss ih =>
    cases rs with
    | nil => simp [alignedOK] at h
    | cons r rs =>
      simp only [alignedOK, Bool.and_eq_true] at h
      exact .cons (secRep_of_secOKb h.1.1.1 h.1.1.2 h.1.2) (ih h.2)

/-! ### Splitting a hybrid revision into its table part and its stream part -/

theorem lookupNat_append {α : Type} (a b : List (Nat × α)) (n : Nat) :
    lookupNat (a ++ b) n = match lookupNat a n with | some v => some v | none => lookupNat b n := by
  induction a with
  | nil => simp [lookupNat]
  | cons p rest ih =>
    obtain ⟨k, v⟩ := p
    by_cases hk : k = n
    · simp [lookupNat, hk]
    · simp [lookupNat, hk, ih]

end PdfVerif.Xref
