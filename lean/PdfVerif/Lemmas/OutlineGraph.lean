/-
Helper lemmas for C17 (termination of the outline walk on arbitrary object graphs).
-/
import PdfVerif.Model.OutlineGraph

namespace PdfVerif.Lemmas.OutlineGraph
open PdfVerif PdfVerif.Outline PdfVerif.OutlineGraph

/-- Number of store entries whose id has not been visited yet. -/
def unvisited (g : Store) (vis : List Nat) : Nat := (g.filter (fun p => !vis.contains p.1)).length

theorem filter_length_mono {α : Type} (p q : α → Bool) (hpq : ∀ x, p x = true → q x = true) :
    ∀ l : List α, (l.filter p).length ≤ (l.filter q).length
  | [] => by simp
  | x :: xs => by
    have ih := filter_length_mono p q hpq xs
    by_cases hp : p x = true
    · simp [List.filter_cons, hp, hpq x hp]; exact ih
    · by_cases hq : q x = true
      · simp [List.filter_cons, hp, hq]; omega
      · simp [List.filter_cons, hp, hq]; exact ih

theorem filter_length_lt {α : Type} (p q : α → Bool) (hpq : ∀ x, p x = true → q x = true) :
    ∀ l : List α, (∃ a ∈ l, q a = true ∧ p a = false) → (l.filter p).length < (l.filter q).length
  | [], h => by obtain ⟨a, ha, _⟩ := h; simp at ha
  | x :: xs, h => by
    obtain ⟨a, ha, hqa, hpa⟩ := h
    have mono := filter_length_mono p q hpq xs
    rcases List.mem_cons.mp ha with rfl | ha'
    · simp [List.filter_cons, hqa, hpa]; omega
    · have ih := filter_length_lt p q hpq xs ⟨a, ha', hqa, hpa⟩
      by_cases hp : p x = true
      · simp [List.filter_cons, hp, hpq x hp]; exact ih
      · by_cases hq : q x = true
        · simp [List.filter_cons, hp, hq]; omega
        · simp [List.filter_cons, hp, hq]; exact ih

theorem unvisited_mono (g : Store) (v v' : List Nat) (h : ∀ x ∈ v, x ∈ v') : unvisited g v' ≤ unvisited g v := by
  unfold unvisited
  apply filter_length_mono
  intro p hp
  simp only [Bool.not_eq_true', List.contains_eq_mem, decide_eq_false_iff_not] at hp ⊢
  exact fun hm => hp (h _ hm)

theorem get_some_mem (g : Store) (n : Nat) (nd : GNode) (h : OutlineGraph.get g n = some nd) : (n, nd) ∈ g := by
  unfold OutlineGraph.get at h
  simp only [Option.map_eq_some_iff] at h
  obtain ⟨p, hp, rfl⟩ := h
  have hm := List.mem_of_find?_eq_some hp
  have hk := List.find?_some hp
  have : p.1 = n := by simpa using hk
  rw [← this]
  exact hm

theorem unvisited_lt (g : Store) (v : List Nat) (n : Nat) (nd : GNode)
    (hg : OutlineGraph.get g n = some nd) (hn : v.contains n = false) : unvisited g (n :: v) < unvisited g v := by
  unfold unvisited
  apply filter_length_lt
  · intro p hp
    simp only [Bool.not_eq_true', List.contains_eq_mem, decide_eq_false_iff_not, List.mem_cons, not_or] at hp ⊢
    exact hp.2
  · refine ⟨(n, nd), get_some_mem g n nd hg, ?_, ?_⟩
    · simp only [Bool.not_eq_true', hn]
    · simp

/-- With more fuel than unvisited store entries the walk finishes, and only adds to `visited`. -/
theorem searchG_total (g : Store) : ∀ (fuel : Nat) (vis : List Nat) (ref level : Nat),
    unvisited g vis < fuel →
    ∃ items vis', searchG g fuel vis ref level = some (items, vis') ∧ (∀ x ∈ vis, x ∈ vis') ∧
      (vis.Nodup → vis'.Nodup)
  | 0, _, _, _, h => by omega
  | fuel + 1, vis, ref, level, h => by
    unfold searchG
    by_cases hc : vis.contains ref = true
    · rw [if_pos hc]
      exact ⟨[], vis, rfl, fun x hx => hx, fun hn => hn⟩
    · rw [if_neg hc]
      have hc' : vis.contains ref = false := by simpa using hc
      have hnm : ¬ ref ∈ vis := by simpa using hc'
      have hnd1 : vis.Nodup → (ref :: vis).Nodup := fun hn => List.nodup_cons.mpr ⟨hnm, hn⟩
      cases hg : OutlineGraph.get g ref with
      | none => exact ⟨[], ref :: vis, rfl, fun x hx => List.mem_cons_of_mem _ hx, hnd1⟩
      | some nd =>
        have hlt := unvisited_lt g vis ref nd hg hc'
        have hfuel : unvisited g (ref :: vis) < fuel := by omega
        simp only
        split
        · -- the children walk cannot run out of fuel
          rename_i heq
          split at heq
          · rename_i f _ _
            obtain ⟨k, v, hk, _, _⟩ := searchG_total g fuel (ref :: vis) f (level + 1) hfuel
            rw [hk] at heq; cases heq
          · cases heq
        · rename_i kids v2 heq
          have hboth : (∀ x ∈ ref :: vis, x ∈ v2) ∧ ((ref :: vis).Nodup → v2.Nodup) := by
            split at heq
            · rename_i f _ _
              obtain ⟨k, v, hk, hs, hn⟩ := searchG_total g fuel (ref :: vis) f (level + 1) hfuel
              rw [hk] at heq
              simp only [Option.some.injEq, Prod.mk.injEq] at heq
              rw [← heq.2]; exact ⟨hs, hn⟩
            · simp only [Option.some.injEq, Prod.mk.injEq] at heq
              rw [← heq.2]; exact ⟨fun x hx => hx, fun hn => hn⟩
          obtain ⟨hsub2, hnd2⟩ := hboth
          have hv2 : unvisited g v2 < fuel := by
            have := unvisited_mono g (ref :: vis) v2 hsub2
            omega
          have hsub : ∀ x ∈ vis, x ∈ v2 := fun x hx => hsub2 x (List.mem_cons_of_mem _ hx)
          split
          · exact ⟨_, v2, rfl, hsub, fun hn => hnd2 (hnd1 hn)⟩
          · rename_i nx _
            obtain ⟨rest, v3, hr, hsub3, hnd3⟩ := searchG_total g fuel v2 nx level hv2
            rw [hr]
            exact ⟨_, v3, rfl, fun x hx => hsub3 x (hsub x hx), fun hn => hnd3 (hnd2 (hnd1 hn))⟩

end PdfVerif.Lemmas.OutlineGraph
