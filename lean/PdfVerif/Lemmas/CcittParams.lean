/-
C19 helper lemmas, round 6: the rest of the `CCITTFaxDecode` parameter space and of the code space —
EOFB ends decoding whatever follows (`EndOfBlock`), the T.6 extension codes `0000001xxx` other than
the uncompressed-mode entry are rejected with `InvalidData`, every K other than -1 is rejected before
the data or any other parameter is looked at.
-/
import PdfVerif.Lemmas.CcittImage
import PdfVerif.Model.CcittStream

namespace PdfVerif.Ccitt
open PdfVerif.Gen PdfVerif.Spec

/-! ### EOFB -/

section eofb
variable {w : Nat} {al rv : Bool}

/-- The rows of an image followed by EOFB followed by ANY bits: decoding stops at EOFB. -/
theorem feed_image_eofb_any (hw : 1 ≤ w) (rows : List (List Bool)) (chs : List (List T6.Choice))
    (hlen : ∀ r ∈ rows, r.length = w) (rest : List Bool) :
    ∃ st' : St, feedFlat (initSt w al rv) 0 0
        (T6.encodeRows al (List.replicate w true) rows chs ++ T6.codeEOFB ++ rest) = .ok st' ∧
      st'.buf = rows.flatMap (packLine rv) := by
  have hr0 : Ready w al rv (List.replicate w true) [] (initSt w al rv) :=
    ⟨rfl, rfl, rfl, rfl, rfl, rfl, rfl, rfl, rfl, rfl⟩
  obtain ⟨st1, ref1, hr1, _, hf1⟩ := feed_rows (al := al) (rv := rv) hw rows chs (List.replicate w true) []
    (initSt w al rv) 0 hlen (by simp) hr0 (by intro _; rfl)
  simp only [List.append_assoc]
  rw [hf1]
  simp only [List.nil_append] at hr1
  rw [feed_follow_leaf _ st1 _ _ (.mode .e) (by decide) (by rw [hr1.node]; exact mode_codes_ok.2.2.1)]
  simp only [accept, hr1.acc, parseMode, modeAction_e, afterAccept]
  exact ⟨_, rfl, hr1.bf⟩

end eofb

/-! ### extension codes -/

theorem ext_codes_ok : ∀ i : Fin 7,
    extCode (i.val + 1) ≠ [] ∧ isPrefix [false, false, false, false, false, false, true] (extCode (i.val + 1)) = true ∧
    Trie.follow modeTrie (extCode (i.val + 1)) = some (.leaf (.mode (.x (i.val + 1)))) := by
  decide +kernel

theorem modeAction_x (n : Nat) : modeAction (some (.mode (.x n))) = .invalid := by
  have e1 : (Mode.x n == Mode.p) = false := beq_eq_false_iff_ne.mpr (by intro h; cases h)
  have e2 : (Mode.x n == Mode.h) = false := beq_eq_false_iff_ne.mpr (by intro h; cases h)
  have e3 : (Mode.x n == Mode.u) = false := beq_eq_false_iff_ne.mpr (by intro h; cases h)
  have e4 : (Mode.x n == Mode.e) = false := beq_eq_false_iff_ne.mpr (by intro h; cases h)
  simp [modeAction, CcittCode.modeDispatch, CcittCode.modeElseAction, List.lookup, e1, e2, e3, e4]

/-- A parser expecting a mode code that reads one of the extension codes `x1..x7` raises
`InvalidData` (the final `else` of `_parse_mode`), whatever the line state and whatever follows. -/
theorem feed_ext_code (st : St) (hacc : st.acc = .mode) (hnode : st.node = modeTrie) (n : Nat)
    (h1 : 1 ≤ n) (h7 : n ≤ 7) (pos : Nat) (rest : List Bool) :
    feedFlat st pos 0 (extCode n ++ rest) = .error .invalidData := by
  have h := ext_codes_ok ⟨n - 1, by omega⟩
  have e : n - 1 + 1 = n := by omega
  simp only [e] at h
  rw [feed_follow_leaf _ st _ _ (.mode (.x n)) h.1 (by rw [hnode]; exact h.2.2)]
  simp only [accept, hacc, parseMode, modeAction_x, afterAccept]

/-! ### K -/

/-- `K` other than -1 in the dictionary: `PDFValueError`, whatever the data and the other entries
(they are not even read: an ill-typed `Columns` does not matter). -/
theorem ccittBranch_k (d : Dict) (k : Option Int) (hk : kOf d = .ok k) (hne : k ≠ some (-1))
    (data : List UInt8) : ccittBranch (.dict d) data = .error .valueError := by
  have : k ≠ some CcittCode.kGroup4 := hne
  simp only [ccittBranch, hk, this, ne_eq, not_false_eq_true, if_true]

end PdfVerif.Ccitt

namespace PdfVerif.Ccitt
open PdfVerif.Gen PdfVerif.Spec

/-! ### unassigned code words, EOL -/

/-- Every `_accept` callback answers `None` (a code word that no table entry owns) with `InvalidData`. -/
theorem accept_none (st : St) : accept st none = .error .invalidData := by
  cases ha : st.acc <;> simp only [accept, ha, parseMode, parseHoriz1, parseHoriz2, parseUncompressed] <;> rfl

/-- Bits that lead from the current node to an unassigned slot of the table end in `_accept(None)`. -/
theorem feed_follow_empty : ∀ (code : List Bool) (st : St) (pos : Nat) (rest : List Bool),
    code ≠ [] → Trie.follow st.node code = some .empty →
    feedFlat st pos 0 (code ++ rest) = .error .invalidData := by
  intro code
  induction code with
  | nil => intro st pos rest h; exact absurd rfl h
  | cons b bs ih =>
    intro st pos rest _ h
    obtain ⟨l, r, hn, hf⟩ := follow_cons_node h
    simp only [List.cons_append, feedFlat, stepBit, hn]
    cases hc : (if b then r else l) with
    | leaf s =>
      rw [hc] at hf
      cases bs <;> simp [Trie.follow] at hf
    | empty =>
      rw [hc] at hf
      cases bs with
      | cons b' bs' => simp [Trie.follow] at hf
      | nil => simp only [accept_none]
    | node a' c' =>
      simp only []
      rw [hc] at hf
      have hne : bs ≠ [] := by
        intro hb; subst hb; simp [Trie.follow] at hf
      exact ih { st with node := .node a' c' } (pos + 1) rest hne hf

/-- The T.4 end-of-line code (not part of T.6 data; EOFB is two of them). -/
def codeEOL : List Bool := List.replicate 11 false ++ [true]

theorem codeEOFB_eq : T6.codeEOFB = codeEOL ++ codeEOL := by decide

/-- The twelve ways in which the bits after one EOL can fail to be a second EOL. -/
def eolDeviation (k : Nat) : List Bool := if k < 11 then List.replicate k false ++ [true] else List.replicate 12 false

theorem eol_deviation_ok : ∀ k : Fin 12,
    Trie.follow modeTrie (codeEOL ++ eolDeviation k.val) = some .empty := by decide +kernel

end PdfVerif.Ccitt
