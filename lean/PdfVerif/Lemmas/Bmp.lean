/-
Helper lemmas for C18: little-endian fields, header parsing, row placement (chunks of a
flattened list), row decoders against the model's row writers.
-/
import PdfVerif.Model.Image
import PdfVerif.Spec.Bmp

namespace PdfVerif.BmpLemmas
open PdfVerif PdfVerif.Image PdfVerif.Bmp PdfVerif.Gen.ImageGen

theorem rd32_le32 (n : Nat) (h : n < 4294967296) :
    rd32 (UInt8.ofNat (n % 256)) (UInt8.ofNat (n / 256 % 256)) (UInt8.ofNat (n / 65536 % 256))
      (UInt8.ofNat (n / 16777216 % 256)) = n := by
  simp only [rd32, UInt8.toNat_ofNat']
  omega

theorem rd16_le16 (n : Nat) (h : n < 65536) :
    rd16 (UInt8.ofNat (n % 256)) (UInt8.ofNat (n / 256 % 256)) = n := by
  simp only [rd16, UInt8.toNat_ofNat']
  omega

/-- The regenerated `linesize` expression is "row bytes rounded up to a multiple of 4". -/
theorem bmpLinesize_cast (bits w : Nat) : bmpLinesize (w : Int) (bits : Int) = ((align4 ((w * bits + 7) / 8) : Nat) : Int) := by
  simp only [bmpLinesize, align32, align4, pyDiv]
  have hm : (w : Int) * (bits : Int) = ((w * bits : Nat) : Int) := by simp
  rw [hm]
  generalize w * bits = m
  rw [Int.fdiv_eq_ediv_of_nonneg _ (by omega), Int.fdiv_eq_ediv_of_nonneg _ (by omega)]
  omega

theorem lineSize_eq (bits w : Nat) : lineSize bits w = align4 ((w * bits + 7) / 8) := by
  unfold lineSize
  rw [bmpLinesize_cast]
  simp

/-- The header the writer produces when every field fits. -/
def headerBytes (bits w h ncols : Nat) : Bytes :=
  [66, 77] ++ le32 (54 + ncols * 4 + lineSize bits w * h) ++ le16 0 ++ le16 0 ++ le32 (54 + ncols * 4) ++
  le32 40 ++ le32 w ++ le32 h ++ le16 1 ++ le16 bits ++ le32 0 ++ le32 (lineSize bits w * h) ++ le32 0 ++ le32 0 ++
  le32 ncols ++ le32 0

def fitsNat (f : Nat × Nat) : Prop :=
  (f.1 = 99 ∧ f.2 < 256) ∨ (f.1 = 72 ∧ f.2 < 65536) ∨ (f.1 = 73 ∧ f.2 < 4294967296) ∨ (f.1 = 105 ∧ f.2 < 2147483648)

def packNat (f : Nat × Nat) : Bytes :=
  if f.1 = 99 then [UInt8.ofNat f.2] else if f.1 = 72 then le16 f.2 else le32 f.2

theorem packField_nat (f : Nat × Nat) (hf : fitsNat f) : packField (f.1, (f.2 : Int)) = .ok (packNat f) := by
  obtain ⟨c, n⟩ := f
  rcases hf with ⟨rfl, h⟩ | ⟨rfl, h⟩ | ⟨rfl, h⟩ | ⟨rfl, h⟩ <;> simp only at h
  · simp only [packField, packNat, if_true]
    rw [if_pos (by omega)]; simp
  · simp only [packField, packNat, show (72 : Nat) ≠ 99 by decide, if_false, if_true]
    rw [if_pos (by omega)]; simp
  · simp only [packField, packNat, show (73 : Nat) ≠ 99 by decide, show (73 : Nat) ≠ 72 by decide, if_false, if_true]
    rw [if_pos (by omega)]; simp
  · simp only [packField, packNat, show (105 : Nat) ≠ 99 by decide, show (105 : Nat) ≠ 72 by decide,
      show (105 : Nat) ≠ 73 by decide, if_false, if_true]
    rw [if_pos (by omega)]
    have : ((n : Int) % 4294967296).toNat = n := by omega
    rw [this]

theorem packAll_nat : ∀ (fs : List (Nat × Nat)), (∀ f ∈ fs, fitsNat f) →
    packAll (fs.map (fun f => (f.1, (f.2 : Int)))) = .ok (fs.flatMap packNat)
  | [], _ => rfl
  | f :: fs, h => by
    simp only [List.map_cons, packAll, List.flatMap_cons]
    rw [packField_nat f (h f (by simp)), packAll_nat fs (fun g hg => h g (by simp [hg]))]

theorem fitsC (n : Nat) (h : n < 256) : fitsNat (99, n) := Or.inl ⟨rfl, h⟩
theorem fitsH (n : Nat) (h : n < 65536) : fitsNat (72, n) := Or.inr (Or.inl ⟨rfl, h⟩)
theorem fitsI (n : Nat) (h : n < 4294967296) : fitsNat (73, n) := Or.inr (Or.inr (Or.inl ⟨rfl, h⟩))
theorem fitsSI (n : Nat) (h : n < 2147483648) : fitsNat (105, n) := Or.inr (Or.inr (Or.inr ⟨rfl, h⟩))

theorem bmpHeader_explicit (bits w h ncols : Nat) (hb : bits < 65536) (hw : w < 2147483648) (hh : h < 2147483648)
    (hs : 54 + ncols * 4 + lineSize bits w * h < 4294967296) :
    bmpHeader bits w h ncols = .ok (headerBytes bits w h ncols) := by
  have hL : bmpLinesize (w : Int) (bits : Int) = ((lineSize bits w : Nat) : Int) := by
    rw [lineSize_eq, bmpLinesize_cast]
  unfold bmpHeader headerBytes
  simp only [bmpFileFields, bmpInfoFields, bmpDatasize, bmpHeadersize, hL, List.cons_append, List.nil_append]
  generalize lineSize bits w = L at *
  have hfit : ∀ f ∈ ([(99, 66), (99, 77), (73, 54 + ncols * 4 + L * h), (72, 0), (72, 0), (73, 54 + ncols * 4),
     (73, 40), (105, w), (105, h), (72, 1), (72, bits), (73, 0), (73, L * h), (73, 0), (73, 0), (73, ncols), (73, 0)] :
     List (Nat × Nat)), fitsNat f := by
    intro f hf
    simp only [List.mem_cons, List.not_mem_nil, or_false] at hf
    rcases hf with rfl | rfl | rfl | rfl | rfl | rfl | rfl | rfl | rfl | rfl | rfl | rfl | rfl | rfl | rfl | rfl | rfl
    all_goals first
      | exact fitsC _ (by omega)
      | exact fitsH _ (by omega)
      | exact fitsI _ (by omega)
      | exact fitsSI _ (by omega)
  have key := packAll_nat _ hfit
  simp only [List.map_cons, List.map_nil, List.flatMap_cons, List.flatMap_nil, packNat] at key
  have e1 : (14 : Int) + 40 + (ncols : Int) * 4 + (L : Int) * (h : Int) = ((54 + ncols * 4 + L * h : Nat) : Int) := by
    simp only [Int.natCast_add, Int.natCast_mul]; omega
  have e2 : (14 : Int) + 40 + (ncols : Int) * 4 = ((54 + ncols * 4 : Nat) : Int) := by
    simp only [Int.natCast_add, Int.natCast_mul]; omega
  have e3 : (L : Int) * (h : Int) = ((L * h : Nat) : Int) := by simp
  rw [e1, e2, e3]
  exact key

theorem le_align4 (x : Nat) : x ≤ align4 x := by
  unfold align4; omega

theorem parse_headerBytes (bits w h ncols : Nat) (rest : Bytes) (hb : bits < 65536) (hw : w < 2147483648)
    (hh : h < 2147483648) (hs : 54 + ncols * 4 + lineSize bits w * h < 4294967296) :
    (headerBytes bits w h ncols).length = 54 ∧
    parseHeader (headerBytes bits w h ncols ++ rest) =
      some (Header.mk true (54 + ncols * 4 + lineSize bits w * h) (54 + ncols * 4) 40 w h 1 bits 0 ncols, rest) := by
  constructor
  · simp [headerBytes, le32, le16]
  · simp only [headerBytes, le32, le16, List.cons_append, List.nil_append, parseHeader]
    rw [rd32_le32 _ (by omega), rd32_le32 _ (by omega), rd32_le32 _ (by omega), rd32_le32 _ (by omega),
        rd32_le32 _ (by omega), rd32_le32 _ (by omega), rd32_le32 _ (by omega), rd16_le16 _ (by omega),
        rd16_le16 _ (by omega)]
    simp

/-! ### rows as chunks of the pixel area -/

theorem chunk_at {L : Nat} : ∀ (chunks : List Bytes) (k : Nat) (hk : k < chunks.length),
    (∀ c ∈ chunks, c.length = L) → ((chunks.flatten).drop (k * L)).take L = chunks[k]
  | [], k, hk, _ => by simp at hk
  | c :: cs, 0, _, hL => by
    have : c.length = L := hL c (by simp)
    simp [← this]
  | c :: cs, k + 1, hk, hL => by
    have hc : c.length = L := hL c (by simp)
    have : (k + 1) * L = c.length + k * L := by rw [hc, Nat.add_mul]; omega
    rw [List.flatten_cons, this, List.drop_length_add_append]
    simp only [List.getElem_cons_succ]
    exact chunk_at cs k (by simpa using hk) (fun c hc => hL c (by simp [hc]))

theorem length_flatten_chunks {L : Nat} : ∀ (chunks : List Bytes), (∀ c ∈ chunks, c.length = L) →
    chunks.flatten.length = L * chunks.length
  | [], _ => by simp
  | c :: cs, hL => by
    have hc : c.length = L := hL c (by simp)
    have := length_flatten_chunks cs (fun c hc => hL c (by simp [hc]))
    simp only [List.flatten_cons, List.length_append, List.length_cons, this, hc, Nat.mul_add]
    omega

theorem decodeRows_chunks (bpp w L : Nat) (pal : Bytes) (npal h : Nat) (chunks : List Bytes) (E : Bytes → Bytes)
    (hL : ∀ c ∈ chunks, c.length = L)
    (hD : ∀ c ∈ chunks, decodeRow bpp w pal npal c = some (E c)) :
    ∀ k, k ≤ chunks.length →
      decodeRows bpp w L pal npal chunks.flatten h k = some (((chunks.take k).reverse).flatMap E)
  | 0, _ => by simp [decodeRows]
  | k + 1, hk => by
    have hk' : k < chunks.length := hk
    rw [decodeRows, chunk_at chunks k hk' hL, hD _ (List.getElem_mem hk'),
      decodeRows_chunks bpp w L pal npal h chunks E hL hD k (by omega)]
    rw [List.take_succ_eq_append_getElem hk', List.reverse_append]
    simp only [List.reverse_cons, List.reverse_nil, List.nil_append, List.cons_append, List.flatMap_cons]

theorem rowsOf_length (bpl : Nat) : ∀ (h : Nat) (data : Bytes), (rowsOf bpl h data).length = h
  | 0, _ => rfl
  | h + 1, data => by simp [rowsOf, rowsOf_length bpl h]

theorem rowsOf_row_length (bpl : Nat) : ∀ (h : Nat) (data : Bytes), data.length = h * bpl →
    ∀ r ∈ rowsOf bpl h data, r.length = bpl
  | 0, _, _ => by simp [rowsOf]
  | h + 1, data, hlen => by
    intro r hr
    have hge : bpl ≤ data.length := by rw [hlen, Nat.add_mul]; omega
    simp only [rowsOf, List.mem_cons] at hr
    rcases hr with rfl | hr
    · simp [hge]
    · exact rowsOf_row_length bpl h (data.drop bpl) (by simp [hlen, Nat.add_mul]) r hr

/-! ### row decoders undo the model's row writers -/

theorem swapRB_length : ∀ (row : Bytes), (swapRB row).length = row.length
  | [] => rfl
  | [_] => rfl
  | [_, _] => rfl
  | _ :: _ :: _ :: rest => by simp [swapRB, swapRB_length rest]

theorem decode24_swap : ∀ (w : Nat) (row tail : Bytes), row.length = 3 * w →
    decode24 w (swapRB row ++ tail) = some row
  | 0, row, tail, h => by
    have : row = [] := List.eq_nil_of_length_eq_zero (by omega)
    subst this; simp [decode24]
  | w + 1, r :: g :: b :: rest, tail, h => by
    have : rest.length = 3 * w := by simp at h; omega
    simp [swapRB, decode24, decode24_swap w rest tail this]
  | w + 1, [], _, h => by simp at h
  | w + 1, [_], _, h => by simp at h; omega
  | w + 1, [_, _], _, h => by simp at h; omega

theorem grayPal_lookup :
    ∀ i, i < 256 → palRGB (palette 256) i = [UInt8.ofNat i, UInt8.ofNat i, UInt8.ofNat i] := by
  decide +kernel

theorem bwPal_lookup : ∀ i, i < 2 →
    palRGB (palette 2) i = [UInt8.ofNat (255 * i), UInt8.ofNat (255 * i), UInt8.ofNat (255 * i)] := by
  decide +kernel

theorem decodeIdx_gray : ∀ (row : Bytes),
    decodeIdx (palette 256) 256 (row.map (·.toNat)) = some (row.flatMap grayPx)
  | [] => by simp [decodeIdx]
  | v :: rest => by
    have hv : v.toNat < 256 := v.toNat_lt
    simp only [List.map_cons, decodeIdx, hv, if_true, decodeIdx_gray rest, Option.map_some, List.flatMap_cons]
    rw [grayPal_lookup _ hv]
    simp [grayPx]

theorem decodeIdx_bw : ∀ (bits : List Nat), (∀ b ∈ bits, b < 2) →
    decodeIdx (palette 2) 2 bits = some (bits.flatMap bitPx)
  | [], _ => by simp [decodeIdx]
  | b :: rest, h => by
    have hb : b < 2 := h b (by simp)
    simp only [decodeIdx, hb, if_true, decodeIdx_bw rest (fun x hx => h x (by simp [hx])), Option.map_some,
      List.flatMap_cons]
    rw [bwPal_lookup _ hb]
    simp [bitPx]

theorem bitsOfByte_lt (v : UInt8) : ∀ b ∈ bitsOfByte v, b < 2 := by
  intro b hb
  simp only [bitsOfByte, List.mem_cons, List.not_mem_nil, or_false] at hb
  omega

theorem length_flatMap_bits : ∀ (row : Bytes), (row.flatMap bitsOfByte).length = 8 * row.length
  | [] => rfl
  | v :: rest => by
    simp only [List.flatMap_cons, List.length_append, length_flatMap_bits rest, List.length_cons]
    simp [bitsOfByte]; omega

def bitsOfKind : Kind → Nat
  | .gray8 => 8 | .rgb8 => 24 | .bit1 => 1

def ncolsOfKind : Kind → Nat
  | .gray8 => 256 | .rgb8 => 0 | .bit1 => 2

theorem decodeRow_written (k : Kind) (w line : Nat) (row : Bytes) (hr : row.length = rowBytes k w) :
    decodeRow (bitsOfKind k) w (palette (ncolsOfKind k)) (ncolsOfKind k)
      (padRow line (if bitsOfKind k = 24 then swapRB row else row)) = some (rowRGB k w row) := by
  cases k with
  | gray8 =>
    simp only [bitsOfKind, ncolsOfKind, rowRGB, rowBytes] at *
    unfold decodeRow padRow
    simp only [show (8 : Nat) ≠ 24 by decide, if_false, if_true]
    rw [if_neg (by simp; omega)]
    rw [List.take_append_of_le_length (by omega), ← hr, List.take_length]
    exact decodeIdx_gray row
  | rgb8 =>
    simp only [bitsOfKind, ncolsOfKind, rowRGB, rowBytes] at *
    unfold decodeRow padRow
    simp only [if_true]
    exact decode24_swap w row _ hr
  | bit1 =>
    simp only [bitsOfKind, ncolsOfKind, rowRGB, rowBytes] at *
    unfold decodeRow padRow
    simp only [show (1 : Nat) ≠ 24 by decide, show (1 : Nat) ≠ 8 by decide, if_false]
    rw [if_neg (by simp; omega)]
    rw [List.flatMap_append, List.take_append_of_le_length (by rw [length_flatMap_bits]; omega)]
    apply decodeIdx_bw
    intro b hb
    have := List.mem_of_mem_take hb
    rcases List.mem_flatMap.mp this with ⟨v, _, hv⟩
    exact bitsOfByte_lt v b hv

theorem rowsOf_eq_splitRows (bpl : Nat) : ∀ (h : Nat) (data : Bytes), rowsOf bpl h data = splitRows bpl h data
  | 0, _ => rfl
  | h + 1, data => by simp [rowsOf, splitRows, rowsOf_eq_splitRows bpl h]

theorem flatMap_congr' {α β} (l : List α) (f g : α → List β) (h : ∀ a ∈ l, f a = g a) :
    l.flatMap f = l.flatMap g := by
  induction l with
  | nil => rfl
  | cons a t ih =>
    simp only [List.flatMap_cons]
    rw [h a (by simp), ih (fun b hb => h b (by simp [hb]))]

theorem ncolsOf_kind (k : Kind) : ncolsOf (bitsOfKind k) = some (ncolsOfKind k) := by
  cases k <;> rfl

theorem palette_length (k : Kind) : (palette (ncolsOfKind k)).length = 4 * ncolsOfKind k := by
  cases k <;> decide +kernel

theorem rowBytes_le_line (k : Kind) (w : Nat) : rowBytes k w ≤ lineSize (bitsOfKind k) w := by
  rw [lineSize_eq]
  refine Nat.le_trans ?_ (le_align4 _)
  cases k <;> simp only [rowBytes, bitsOfKind] <;> omega

/-- Reading back header ++ palette ++ pixel area, with the line size and the rows abstract. -/
theorem readBMP_written (k : Kind) (w h line : Nat) (hdr : Bytes) (rows : List Bytes)
    (hw1 : 1 ≤ w) (hh1 : 1 ≤ h) (hw : w < 2147483648) (hh : h < 2147483648)
    (hle : rowBytes k w ≤ line) (hline : align4 ((w * bitsOfKind k + 7) / 8) = line)
    (hhl : hdr.length = 54)
    (hparse : ∀ rest, parseHeader (hdr ++ rest) =
      some (Header.mk true (54 + ncolsOfKind k * 4 + line * h) (54 + ncolsOfKind k * 4) 40 w h 1 (bitsOfKind k) 0
        (ncolsOfKind k), rest))
    (hrowlen : ∀ r ∈ rows, r.length = rowBytes k w) (hcount : rows.length = h) :
    readBMP (hdr ++ palette (ncolsOfKind k) ++ writeBody (bitsOfKind k) line rows) =
      some (w, h, rows.flatMap (rowRGB k w)) := by
  let f : Bytes → Bytes := fun r => padRow line (if bitsOfKind k = 24 then swapRB r else r)
  let chunks := rows.reverse.map f
  have hchunkL : ∀ c ∈ chunks, c.length = line := by
    intro c hc
    rcases List.mem_map.mp hc with ⟨r, hr, rfl⟩
    have hr' := hrowlen r (List.mem_reverse.mp hr)
    simp only [f, padRow, List.length_append, List.length_replicate]
    split <;> (try simp only [swapRB_length]) <;> omega
  have hchunksLen : chunks.length = h := by simp [chunks, hcount]
  have hbody : writeBody (bitsOfKind k) line rows = chunks.flatten := rfl
  have hbodylen : (writeBody (bitsOfKind k) line rows).length = line * h := by
    rw [hbody, length_flatten_chunks chunks hchunkL, hchunksLen]
  have hfilelen : (hdr ++ palette (ncolsOfKind k) ++ writeBody (bitsOfKind k) line rows).length =
      54 + ncolsOfKind k * 4 + line * h := by
    simp only [List.length_append, hhl, palette_length, hbodylen]; omega
  unfold readBMP
  rw [List.append_assoc, hparse]
  simp only []
  have hnpal : (if bitsOfKind k = 24 then ncolsOfKind k
      else if ncolsOfKind k = 0 then 2 ^ bitsOfKind k else ncolsOfKind k) = ncolsOfKind k := by
    cases k <;> rfl
  have hpow : bitsOfKind k ≠ 24 → ncolsOfKind k ≤ 2 ^ bitsOfKind k := by cases k <;> decide
  have hkind : ¬ (bitsOfKind k ≠ 1 ∧ bitsOfKind k ≠ 8 ∧ bitsOfKind k ≠ 24) := by cases k <;> decide
  rw [hnpal, hline, ← List.append_assoc, hfilelen]
  rw [if_neg (by decide), if_neg (by omega), if_neg hkind, if_neg (by intro ⟨h1, h2⟩; have := hpow h1; omega),
    if_neg (by omega), if_neg (by simp), if_neg (by omega)]
  have hpal : List.take (4 * ncolsOfKind k) (palette (ncolsOfKind k) ++ writeBody (bitsOfKind k) line rows) =
      palette (ncolsOfKind k) := by
    rw [← palette_length k, List.take_left]
  have hdrop : List.drop (54 + ncolsOfKind k * 4)
      (hdr ++ palette (ncolsOfKind k) ++ writeBody (bitsOfKind k) line rows) = chunks.flatten := by
    have : 54 + ncolsOfKind k * 4 = (hdr ++ palette (ncolsOfKind k)).length := by
      simp only [List.length_append, hhl, palette_length]; omega
    rw [this, List.drop_left, hbody]
  rw [hpal, hdrop]
  let E : Bytes → Bytes := fun c =>
    (decodeRow (bitsOfKind k) w (palette (ncolsOfKind k)) (ncolsOfKind k) c).getD []
  have hD : ∀ r ∈ rows, decodeRow (bitsOfKind k) w (palette (ncolsOfKind k)) (ncolsOfKind k) (f r) =
      some (rowRGB k w r) := fun r hr => decodeRow_written k w line r (hrowlen r hr)
  have hD' : ∀ c ∈ chunks, decodeRow (bitsOfKind k) w (palette (ncolsOfKind k)) (ncolsOfKind k) c = some (E c) := by
    intro c hc
    rcases List.mem_map.mp hc with ⟨r, hr, rfl⟩
    simp only [E, hD r (List.mem_reverse.mp hr), Option.getD_some]
  rw [decodeRows_chunks (bitsOfKind k) w line _ _ h chunks E hchunkL hD' h (by omega)]
  simp only []
  have : (List.take h chunks).reverse = rows.map f := by
    rw [← hchunksLen, List.take_length]
    simp [chunks]
  rw [this, List.flatMap_map]
  refine congrArg (fun x => some (w, h, x)) ?_
  apply flatMap_congr'
  intro r hr
  simp only [E, hD r hr, Option.getD_some]

theorem withName_ok (existing : List Bytes) (name ext nm file : Bytes) (c : Except Err Bytes)
    (hn : ImageName.uniqueName existing name ext = some nm) (hc : c = .ok file) :
    withName existing name ext c = .ok (nm, file) := by
  subst hc
  simp [withName, hn]

/-- The regenerated `_save_bmp` arguments of the three bitmap branches of `export_image`. -/
theorem bmpArgs_bit1 (w : Nat) :
    (bmpDepth0 (w : Int) ((1 : Nat) : Int)).toNat = 1 ∧ (bmpBpl0 (w : Int) ((1 : Nat) : Int)).toNat = (w + 7) / 8 := by
  simp only [bmpDepth0, bmpBpl0, pyDiv]
  rw [Int.fdiv_eq_ediv_of_nonneg _ (by omega)]
  omega

theorem bmpArgs_rgb (w : Nat) :
    (bmpDepth1 (w : Int) ((8 : Nat) : Int)).toNat = 24 ∧ (bmpBpl1 (w : Int) ((8 : Nat) : Int)).toNat = 3 * w := by
  simp only [bmpDepth1, bmpBpl1]
  omega

theorem bmpArgs_gray (w : Nat) :
    (bmpDepth2 (w : Int) ((8 : Nat) : Int)).toNat = 8 ∧ (bmpBpl2 (w : Int) ((8 : Nat) : Int)).toNat = w := by
  simp only [bmpDepth2, bmpBpl2]
  omega

theorem saveBmp_ok (bits w h bpl ncols : Nat) (data hdr : Bytes) (hn : ncolsOf bits = some ncols)
    (hh : bmpHeader bits w h ncols = .ok hdr) :
    saveBmp bits w h bpl data = .ok (hdr ++ palette ncols ++ writeBody bits (lineSize bits w) (rowsOf bpl h data)) := by
  unfold saveBmp
  rw [hn]
  show saveBmpWith ncols bits w h bpl data = _
  unfold saveBmpWith
  rw [hh]
  rfl

theorem saveBmp_read (k : Kind) (w h : Nat) (data : Bytes)
    (hw1 : 1 ≤ w) (hh1 : 1 ≤ h) (hw : w < 2147483648) (hh : h < 2147483648)
    (hs : 54 + ncolsOfKind k * 4 + lineSize (bitsOfKind k) w * h < 4294967296)
    (hlen : data.length = h * rowBytes k w) :
    ∃ file, saveBmp (bitsOfKind k) w h (rowBytes k w) data = .ok file ∧
      readBMP file = some (w, h, samplesRGB k w h data) := by
  have hbits : bitsOfKind k < 65536 := by cases k <;> decide
  have hhdr := bmpHeader_explicit (bitsOfKind k) w h (ncolsOfKind k) hbits hw hh hs
  refine ⟨headerBytes (bitsOfKind k) w h (ncolsOfKind k) ++ palette (ncolsOfKind k) ++
    writeBody (bitsOfKind k) (lineSize (bitsOfKind k) w) (rowsOf (rowBytes k w) h data), ?_, ?_⟩
  · exact saveBmp_ok _ _ _ _ _ _ _ (ncolsOf_kind k) hhdr
  · have hcore := readBMP_written k w h (lineSize (bitsOfKind k) w) (headerBytes (bitsOfKind k) w h (ncolsOfKind k))
      (rowsOf (rowBytes k w) h data) hw1 hh1 hw hh (rowBytes_le_line k w) (lineSize_eq _ _).symm
      (parse_headerBytes (bitsOfKind k) w h (ncolsOfKind k) [] hbits hw hh hs).1
      (fun rest => (parse_headerBytes (bitsOfKind k) w h (ncolsOfKind k) rest hbits hw hh hs).2)
      (rowsOf_row_length _ h data hlen) (rowsOf_length _ h data)
    rw [hcore]
    unfold samplesRGB
    rw [rowsOf_eq_splitRows]

/-- Filters whose decoding is lossless (their decoders are C03's subject; here `data` is what
    `stream.get_data()` returns). -/
def Lossless (f : Flt) : Prop := f = .flate ∨ f = .lzw ∨ f = .a85 ∨ f = .ahx ∨ f = .rl

theorem lossless_getLast (filters : List Flt) (hl : ∀ f ∈ filters, Lossless f) :
    filters.getLast? ≠ some .dct ∧ filters.getLast? ≠ some .jpx ∧ filters.contains .jbig2 = false := by
  refine ⟨?_, ?_, ?_⟩
  · intro h
    have := hl _ (List.mem_of_getLast? h)
    rcases this with h | h | h | h | h <;> cases h
  · intro h
    have := hl _ (List.mem_of_getLast? h)
    rcases this with h | h | h | h | h <;> cases h
  · cases hc : filters.contains Flt.jbig2 with
    | false => rfl
    | true =>
      have := hl _ (by simpa using hc)
      rcases this with h | h | h | h | h <;> cases h

/-! ### the row-wise meaning of samples equals the pixel-by-pixel (indexed) one -/

theorem splitRows_range (bpl : Nat) : ∀ (h : Nat) (data : Bytes),
    splitRows bpl h data = (List.range h).map (fun r => (data.drop (r * bpl)).take bpl)
  | 0, _ => rfl
  | h + 1, data => by
    rw [splitRows, splitRows_range bpl h, List.range_succ_eq_map]
    simp only [List.map_cons, List.map_map, Nat.zero_mul, List.drop_zero]
    congr 1
    apply List.map_congr_left
    intro r _
    simp only [Function.comp, List.drop_drop]
    congr 2
    rw [Nat.succ_mul]; omega

theorem row_getD (data : Bytes) (r bpl i : Nat) (hi : i < bpl) :
    ((data.drop (r * bpl)).take bpl).getD i 0 = data.getD (r * bpl + i) 0 := by
  simp only [List.getD_eq_getElem?_getD, List.getElem?_take, hi, if_true, List.getElem?_drop]

theorem eq_range_map (l : Bytes) : l = (List.range l.length).map (fun c => l.getD c 0) := by
  apply List.ext_getElem
  · simp
  · intro i h1 h2
    simp [List.getD_eq_getElem?_getD, List.getElem?_eq_getElem h1]

theorem take_eq_range_map {α} (d : α) (l : List α) (w : Nat) (hw : w ≤ l.length) :
    l.take w = (List.range w).map (fun c => l.getD c d) := by
  apply List.ext_getElem
  · simp [hw]
  · intro i h1 h2
    have hi : i < w := by simpa using h2
    have : i < l.length := by omega
    simp [List.getD_eq_getElem?_getD, List.getElem?_eq_getElem this]

theorem triples : ∀ (w : Nat) (l : Bytes), l.length = 3 * w →
    l = (List.range w).flatMap (fun c => [l.getD (3 * c) 0, l.getD (3 * c + 1) 0, l.getD (3 * c + 2) 0])
  | 0, l, h => by
    have : l = [] := List.eq_nil_of_length_eq_zero (by omega)
    simp [this]
  | w + 1, a :: b :: c :: rest, h => by
    have hr : rest.length = 3 * w := by simp at h; omega
    rw [List.range_succ_eq_map, List.flatMap_cons, List.flatMap_map]
    have ih := triples w rest hr
    simp only [Nat.mul_zero, List.getD_cons_zero, Nat.zero_add, List.getD_cons_succ, List.cons_append, List.nil_append]
    congr 3
  | w + 1, [], h => by simp at h
  | w + 1, [_], h => by simp at h; omega
  | w + 1, [_, _], h => by simp at h; omega

theorem bits_getD : ∀ (row : Bytes) (c : Nat), c < 8 * row.length →
    (row.flatMap bitsOfByte).getD c 0 = (row.getD (c / 8) 0).toNat / 2 ^ (7 - c % 8) % 2
  | [], c, h => by simp at h
  | v :: rest, c, h => by
    by_cases hc : c < 8
    · have h8 : (bitsOfByte v).length = 8 := rfl
      have hd : c / 8 = 0 := by omega
      simp only [List.flatMap_cons, List.getD_eq_getElem?_getD, hd, List.getElem?_cons_zero, Option.getD_some]
      rw [List.getElem?_append_left (by omega)]
      have : c = 0 ∨ c = 1 ∨ c = 2 ∨ c = 3 ∨ c = 4 ∨ c = 5 ∨ c = 6 ∨ c = 7 := by omega
      rcases this with rfl | rfl | rfl | rfl | rfl | rfl | rfl | rfl <;> simp [bitsOfByte]
    · have h8 : (bitsOfByte v).length = 8 := rfl
      have ih := bits_getD rest (c - 8) (by simp at h; omega)
      have e1 : c / 8 = (c - 8) / 8 + 1 := by omega
      have e2 : c % 8 = (c - 8) % 8 := by omega
      simp only [List.flatMap_cons, List.getD_eq_getElem?_getD] at ih ⊢
      rw [List.getElem?_append_right (by omega), h8, ih, e1, e2, List.getElem?_cons_succ]

theorem rowRGB_eq_pixels (k : Kind) (w h : Nat) (data : Bytes) (hlen : data.length = h * rowBytes k w)
    (r : Nat) (hr : r < h) :
    rowRGB k w ((data.drop (r * rowBytes k w)).take (rowBytes k w)) =
      (List.range w).flatMap (fun c => pixel k w data r c) := by
  have hrowlen : ((data.drop (r * rowBytes k w)).take (rowBytes k w)).length = rowBytes k w := by
    simp only [List.length_take, List.length_drop, hlen]
    have : r * rowBytes k w + rowBytes k w ≤ h * rowBytes k w := by
      have := Nat.mul_le_mul_right (rowBytes k w) (show r + 1 ≤ h from hr)
      rw [Nat.add_mul] at this; omega
    omega
  cases k with
  | gray8 =>
    simp only [rowBytes] at *
    simp only [rowRGB]
    conv => lhs; rw [eq_range_map ((data.drop (r * w)).take w), hrowlen]
    rw [List.flatMap_map]
    apply flatMap_congr'
    intro c hc
    have hc' : c < w := by simpa using hc
    simp only [row_getD data r w c hc', grayPx, pixel]
  | rgb8 =>
    simp only [rowBytes] at *
    simp only [rowRGB]
    conv => lhs; rw [triples w _ hrowlen]
    apply flatMap_congr'
    intro c hc
    have hc' : c < w := by simpa using hc
    simp only [pixel]
    rw [row_getD data r (3 * w) (3 * c) (by omega), row_getD data r (3 * w) (3 * c + 1) (by omega),
      row_getD data r (3 * w) (3 * c + 2) (by omega)]
    simp only [Nat.add_assoc]
  | bit1 =>
    simp only [rowBytes] at *
    simp only [rowRGB]
    have hB : w ≤ (List.flatMap bitsOfByte ((data.drop (r * ((w + 7) / 8))).take ((w + 7) / 8))).length := by
      rw [length_flatMap_bits, hrowlen]; omega
    rw [take_eq_range_map 0 _ w hB, List.flatMap_map]
    apply flatMap_congr'
    intro c hc
    have hc' : c < w := by simpa using hc
    rw [bits_getD _ c (by rw [hrowlen]; omega), row_getD data r ((w + 7) / 8) (c / 8) (by omega)]
    simp only [bitPx, pixel]

theorem samplesRGB_eq_idx (k : Kind) (w h : Nat) (data : Bytes) (hlen : data.length = h * rowBytes k w) :
    samplesRGB k w h data = samplesRGBIdx k w h data := by
  unfold samplesRGB samplesRGBIdx
  rw [splitRows_range, List.flatMap_map]
  apply flatMap_congr'
  intro r hr
  exact rowRGB_eq_pixels k w h data hlen r (by simpa using hr)

end PdfVerif.BmpLemmas
