/- C11 helper lemmas: the raw lexer inverts a generic tag renderer. -/
import PdfVerif.Lemmas.Convert

namespace PdfVerif.Xml
open PdfVerif.Convert

def renderAttrs : List (Str × Str) → Str
  | [] => []
  | (k, v) :: r => ' ' :: (k ++ '=' :: '"' :: (v ++ '"' :: renderAttrs r))

def closeStr (sp sc : Bool) : Str := (if sp then [' '] else []) ++ (if sc then ['/', '>'] else ['>'])

/-- what follows the `<` of a tag -/
def tagBody : Tag → Str
  | .decl b => '?' :: (b ++ ['?', '>'])
  | .stag n as sp sc => n ++ (renderAttrs as ++ closeStr sp sc)
  | .etag n => '/' :: (n ++ ['>'])

def renderTok (t : Tok) : Str := '<' :: (tagBody t.tag ++ t.tail)

def NameOk (n : Str) : Prop := n ≠ [] ∧ ∀ c ∈ n, isNameChar c = true
def ValOk (v : Str) : Prop := ∀ c ∈ v, c ≠ '"' ∧ c ≠ '<'
def TailOk (t : Str) : Prop := ∀ c ∈ t, c ≠ '<'
def AttrsOk (as : List (Str × Str)) : Prop := ∀ kv ∈ as, NameOk kv.1 ∧ ValOk kv.2

def TagOk : Tag → Prop
  | .decl b => ∀ c ∈ b, c ≠ '?'
  | .stag n as _ _ => NameOk n ∧ AttrsOk as
  | .etag n => NameOk n

def TokOk (t : Tok) : Prop := TagOk t.tag ∧ TailOk t.tail

theorem nameChar_ne {c : Char} (h : isNameChar c = true) :
    c ≠ '?' ∧ c ≠ '/' ∧ c ≠ '>' ∧ c ≠ '=' ∧ isSpace c = false := by
  refine ⟨?_, ?_, ?_, ?_, ?_⟩
  · rintro rfl; simp [isNameChar] at h
  · rintro rfl; simp [isNameChar] at h
  · rintro rfl; simp [isNameChar] at h
  · rintro rfl; simp [isNameChar] at h
  · cases hsp : isSpace c with
    | false => rfl
    | true =>
      simp [isSpace] at hsp
      rcases hsp with ((rfl | rfl) | rfl) | rfl <;> simp [isNameChar] at h

theorem lex_sname (acc n rest : Str) (hn : ∀ c ∈ n, isNameChar c = true) :
    lexGo (.sname acc) (n ++ rest) = lexGo (.sname (acc ++ n)) rest := by
  induction n generalizing acc with
  | nil => simp
  | cons c n ih =>
    have hc := hn c (by simp)
    simp only [List.cons_append, lexGo, hc, if_true]
    rw [ih (acc ++ [c]) (fun d hd => hn d (by simp [hd]))]
    simp

theorem lex_ename (acc n rest : Str) (hn : ∀ c ∈ n, isNameChar c = true) :
    lexGo (.ename acc) (n ++ rest) = lexGo (.ename (acc ++ n)) rest := by
  induction n generalizing acc with
  | nil => simp
  | cons c n ih =>
    have hc := hn c (by simp)
    have hne := nameChar_ne hc
    simp only [List.cons_append, lexGo, hc, hne.2.2.1, if_true, if_false]
    rw [ih (acc ++ [c]) (fun d hd => hn d (by simp [hd]))]
    simp

theorem lex_aname (nm : Str) (as : List (Str × Str)) (acc n rest : Str) (hn : ∀ c ∈ n, isNameChar c = true) :
    lexGo (.aname nm as acc) (n ++ rest) = lexGo (.aname nm as (acc ++ n)) rest := by
  induction n generalizing acc with
  | nil => simp
  | cons c n ih =>
    have hc := hn c (by simp)
    have hne := nameChar_ne hc
    simp only [List.cons_append, lexGo, hc, hne.2.2.2.1, if_true, if_false]
    rw [ih (acc ++ [c]) (fun d hd => hn d (by simp [hd]))]
    simp

theorem lex_aval (nm : Str) (as : List (Str × Str)) (an acc v rest : Str) (hv : ValOk v) :
    lexGo (.aval nm as an acc) (v ++ '"' :: rest) = lexGo (.inTag nm (as ++ [(an, acc ++ v)]) false) rest := by
  induction v generalizing acc with
  | nil => simp [lexGo]
  | cons c v ih =>
    have hc := hv c (by simp)
    simp only [List.cons_append, lexGo, hc.1, hc.2, if_false]
    rw [ih (acc ++ [c]) (fun d hd => hv d (by simp [hd]))]
    simp

theorem lex_tail (tag : Tag) (acc t : Str) (ht : TailOk t) (rest : Str) :
    lexGo (.tail tag acc) (t ++ rest) = lexGo (.tail tag (acc ++ t)) rest := by
  induction t generalizing acc with
  | nil => simp
  | cons c t ih =>
    have hc := ht c (by simp)
    simp only [List.cons_append, lexGo, hc, if_false]
    rw [ih (acc ++ [c]) (fun d hd => ht d (by simp [hd]))]
    simp

theorem lex_pi (acc b rest : Str) (hb : ∀ c ∈ b, c ≠ '?') :
    lexGo (.pi acc false) (b ++ '?' :: '>' :: rest) = lexGo (.tail (.decl (acc ++ b)) []) rest := by
  induction b generalizing acc with
  | nil => simp [lexGo]
  | cons c b ih =>
    have hc := hb c (by simp)
    simp only [List.cons_append, lexGo, hc, if_false]
    simp only [Bool.and_false, Bool.false_eq_true, if_false]
    rw [ih (acc ++ [c]) (fun d hd => hb d (by simp [hd]))]
    simp

theorem lex_attrs (nm : Str) (as0 as : List (Str × Str)) (has : AttrsOk as) (rest : Str) :
    lexGo (.inTag nm as0 false) (renderAttrs as ++ rest) = lexGo (.inTag nm (as0 ++ as) false) rest := by
  induction as generalizing as0 with
  | nil => simp [renderAttrs]
  | cons kv as ih =>
    obtain ⟨k, v⟩ := kv
    have hkv := has (k, v) (by simp)
    obtain ⟨⟨hk0, hk⟩, hv⟩ := hkv
    cases k with
    | nil => exact absurd rfl hk0
    | cons c k =>
      have hc := hk c (by simp)
      have hne := nameChar_ne hc
      have hsp : isSpace ' ' = true := by simp [isSpace]
      simp only [renderAttrs, List.cons_append, List.append_assoc, lexGo, hsp, if_true, hne.2.2.2.2, hne.2.2.1,
        hne.2.1, hc, Bool.false_eq_true, if_false]
      rw [lex_aname nm as0 [c] k _ (fun d hd => hk d (by simp [hd]))]
      simp only [lexGo, if_true]
      rw [lex_aval nm as0 _ [] v _ hv]
      have := ih (as0 ++ [(c :: k, v)]) (fun kv hkv => has kv (by simp [hkv]))
      simpa using this

theorem lex_close_inTag (nm : Str) (as : List (Str × Str)) (sp sc : Bool) (rest : Str) :
    lexGo (.inTag nm as false) (closeStr sp sc ++ rest) = lexGo (.tail (.stag nm as sp sc) []) rest := by
  cases sp <;> cases sc <;> simp [closeStr, lexGo, isSpace, isNameChar]

theorem lex_close_sname (nm : Str) (sp sc : Bool) (rest : Str) :
    lexGo (.sname nm) (closeStr sp sc ++ rest) = lexGo (.tail (.stag nm [] sp sc) []) rest := by
  cases sp <;> cases sc <;> simp [closeStr, lexGo, isSpace, isNameChar]

/-- one tag -/
theorem lex_tag (tag : Tag) (h : TagOk tag) (rest : Str) :
    lexGo .lt (tagBody tag ++ rest) = lexGo (.tail tag []) rest := by
  cases tag with
  | decl b =>
    simp only [tagBody, List.cons_append, List.append_assoc, lexGo, if_true]
    have := lex_pi [] b rest h
    simpa using this
  | etag n =>
    obtain ⟨h0, hn⟩ := h
    have hq : ('/' : Char) ≠ '?' := by decide
    simp only [tagBody, List.cons_append, List.append_assoc, lexGo, hq, if_true, if_false]
    rw [lex_ename [] n _ hn]
    simp [lexGo, h0]
  | stag n as sp sc =>
    obtain ⟨⟨h0, hn⟩, has⟩ := h
    cases n with
    | nil => exact absurd rfl h0
    | cons c n =>
      have hc := hn c (by simp)
      have hne := nameChar_ne hc
      simp only [tagBody, List.cons_append, List.append_assoc, lexGo, hne.1, hne.2.1, hc, if_true, if_false]
      rw [lex_sname [c] n _ (fun d hd => hn d (by simp [hd]))]
      simp only [List.singleton_append]
      cases as with
      | nil => simpa [renderAttrs] using lex_close_sname (c :: n) sp sc rest
      | cons kv as' =>
        -- after the name a space follows: same as continuing from `inTag … false`
        have hstep : ∀ Y, lexGo (.sname (c :: n)) (' ' :: Y) = lexGo (.inTag (c :: n) [] false) (' ' :: Y) := by
          intro Y; simp [lexGo, isSpace, isNameChar]
        obtain ⟨k, v⟩ := kv
        have := lex_attrs (c :: n) [] ((k, v) :: as') has (closeStr sp sc ++ rest)
        simp only [renderAttrs, List.cons_append, List.append_assoc, List.nil_append] at this ⊢
        rw [hstep, this, lex_close_inTag]

theorem renderTok_flatMap_head (ts : List Tok) :
    ts.flatMap renderTok = [] ∨ ∃ r, ts.flatMap renderTok = '<' :: r := by
  cases ts with
  | nil => left; rfl
  | cons t ts => right; exact ⟨tagBody t.tag ++ (t.tail ++ ts.flatMap renderTok), by simp [renderTok, List.flatMap_cons]⟩

/-- The raw lexer inverts the renderer on every sequence of well-formed tokens. -/
theorem lex_render (ts : List Tok) (h : ∀ t ∈ ts, TokOk t) : lexRaw (ts.flatMap renderTok) = some ts := by
  induction ts with
  | nil => simp [lexRaw, lexGo]
  | cons t ts ih =>
    have ht := h t (by simp)
    have ih' := ih (fun u hu => h u (by simp [hu]))
    obtain ⟨tag, tail⟩ := t
    simp only [lexRaw, List.flatMap_cons, renderTok, List.cons_append, List.append_assoc, lexGo, if_true]
    rw [lex_tag tag ht.1, lex_tail tag [] tail ht.2]
    rcases renderTok_flatMap_head ts with hnil | ⟨r, hr⟩
    · cases ts with
      | nil => simp [lexGo]
      | cons u us => simp [renderTok, List.flatMap_cons] at hnil
    · rw [hr]
      simp only [lexRaw, hr, lexGo, if_true] at ih'
      simp [lexGo, ih']

end PdfVerif.Xml
