/-
Token positions of the lexer model: every token carries the position at which `_parse_main` saw
its first byte; positions never decrease and stay inside the input.
-/
import PdfVerif.Lemmas.Lexer

namespace PdfVerif.Lexer
open PdfVerif PdfVerif.Gen.LexTables

/-- positions of `ts` are non-decreasing and lie in `[lo, hi]` -/
def Between (lo hi : Nat) (ts : List PTok) : Prop :=
  ts.Pairwise (fun a b => a.1 ≤ b.1) ∧ ∀ t ∈ ts, lo ≤ t.1 ∧ t.1 ≤ hi

theorem between_nil (lo hi : Nat) : Between lo hi [] := by simp [Between]

theorem between_append {a b c : Nat} {t1 t2 : List PTok} (h1 : Between a b t1) (h2 : Between b c t2)
    (hab : a ≤ b) (hbc : b ≤ c) : Between a c (t1 ++ t2) := by
  refine ⟨List.pairwise_append.mpr ⟨h1.1, h2.1, ?_⟩, ?_⟩
  · intro x hx y hy
    have := (h1.2 x hx).2; have := (h2.2 y hy).1; omega
  · intro t ht
    rcases List.mem_append.mp ht with h | h
    · have := h1.2 t h; omega
    · have := h2.2 t h; omega

theorem hit_tpos_other (st : St) (c : UInt8) (j : Nat) (hm : st.mode ≠ .main) :
    (atHit st c j).st.tpos = st.tpos := by
  unfold atHit
  cases hmode : st.mode <;> simp only [hmode] at hm ⊢
  · exact absurd rfl hm
  · simp [parseCommentHit]
  · simp only [parseLiteralHit]; split <;> simp
  · simp only [parseLiteralHexHit, raise]; repeat' split
    all_goals simp
  · simp only [parseNumberHit]; split <;> simp
  · simp [parseFloatHit]
  · simp [parseKeywordHit]
  · simp only [parseStringHit]; repeat' split
    all_goals simp
  · simp only [parseString1Hit, raise]; repeat' split
    all_goals simp
  · simp [parseString2Hit]
  · simp only [parseWopenHit]; split <;> simp
  · simp only [parseWcloseHit]; split <;> simp
  · simp only [parseHexstringHit, raise]; split <;> simp

theorem hit_tpos_main (st : St) (c : UInt8) (j : Nat) (hm : st.mode = .main) :
    (atHit st c j).st.tpos = j := by
  unfold atHit
  simp only [hm, parseMainHit]
  repeat' split
  all_goals simp

/-- Every token a scanner adds carries `_curtokenpos`. -/
theorem hit_toks (st : St) (c : UInt8) (j : Nat) :
    ∀ t ∈ (atHit st c j).toks, t.1 = (atHit st c j).st.tpos := by
  unfold atHit
  cases hmode : st.mode <;> simp only
  · simp only [parseMainHit]; repeat' split
    all_goals simp [emit]
  · simp [parseCommentHit]
  · simp only [parseLiteralHit]; split <;> simp [emit]
  · simp only [parseLiteralHexHit, raise]; repeat' split
    all_goals simp [emit]
  · simp only [parseNumberHit]; repeat' split
    all_goals simp [emit]
  · simp only [parseFloatHit]; split <;> simp [emit]
  · simp [parseKeywordHit, emit]
  · simp only [parseStringHit]; repeat' split
    all_goals simp [emit]
  · simp only [parseString1Hit, raise]; repeat' split
    all_goals simp [emit]
  · simp [parseString2Hit]
  · simp only [parseWopenHit]; split <;> simp [emit]
  · simp only [parseWcloseHit]; split <;> simp [emit]
  · simp only [parseHexstringHit, raise]; split <;> simp [emit]
  · simp

theorem hit_toks_len (st : St) (c : UInt8) (j : Nat) : (atHit st c j).toks.length ≤ 1 := by
  unfold atHit
  cases hmode : st.mode <;> simp only
  · simp only [parseMainHit]; repeat' split
    all_goals simp [emit]
  · simp [parseCommentHit]
  · simp only [parseLiteralHit]; split <;> simp [emit]
  · simp only [parseLiteralHexHit, raise]; repeat' split
    all_goals simp [emit]
  · simp only [parseNumberHit]; repeat' split
    all_goals simp [emit]
  · simp only [parseFloatHit]; split <;> simp [emit]
  · simp [parseKeywordHit, emit]
  · simp only [parseStringHit]; repeat' split
    all_goals simp [emit]
  · simp only [parseString1Hit, raise]; repeat' split
    all_goals simp [emit]
  · simp [parseString2Hit]
  · simp only [parseWopenHit]; split <;> simp [emit]
  · simp only [parseWcloseHit]; split <;> simp [emit]
  · simp only [parseHexstringHit, raise]; split <;> simp [emit]
  · simp

/-- One scanner step at byte position `j ≥ tpos`: new `tpos` in `[old tpos, j]`, tokens between. -/
theorem hit_between (st : St) (c : UInt8) (j : Nat) (h : st.tpos ≤ j) :
    st.tpos ≤ (atHit st c j).st.tpos ∧ (atHit st c j).st.tpos ≤ j ∧
    Between (atHit st c j).st.tpos (atHit st c j).st.tpos (atHit st c j).toks := by
  have ht := hit_toks st c j
  have hl := hit_toks_len st c j
  have hb : Between (atHit st c j).st.tpos (atHit st c j).st.tpos (atHit st c j).toks := by
    refine ⟨?_, fun t htm => by rw [ht t htm]; omega⟩
    match hts : (atHit st c j).toks with
    | [] => simp
    | [_] => simp
    | _ :: _ :: _ => rw [hts] at hl; simp at hl
  by_cases hm : st.mode = .main
  · rw [hit_tpos_main st c j hm] at hb ⊢; exact ⟨h, Nat.le_refl _, hb⟩
  · rw [hit_tpos_other st c j hm] at hb ⊢; exact ⟨Nat.le_refl _, h, hb⟩

theorem between_weaken {a b a' b' : Nat} {ts : List PTok} (h : Between a b ts) (ha : a' ≤ a) (hb : b ≤ b') :
    Between a' b' ts :=
  ⟨h.1, fun t ht => by have := h.2 t ht; omega⟩

theorem stepN_between : ∀ (n : Nat) (st : St) (c : UInt8) (pos : Nat), st.tpos ≤ pos →
    st.tpos ≤ (stepN n st c pos).1.tpos ∧ (stepN n st c pos).1.tpos ≤ pos ∧
    Between st.tpos (stepN n st c pos).1.tpos (stepN n st c pos).2
  | 0, st, c, pos, h => by simp [stepN, between_nil, h]
  | n + 1, st, c, pos, h => by
    have hh := hit_between st c pos h
    have ih := stepN_between n (atHit st c pos).st c pos hh.2.1
    have hacc : (accum st [c]).tpos = st.tpos := by unfold accum; split <;> rfl
    have hit_case : st.tpos ≤ (if (atHit st c pos).consumed = true then ((atHit st c pos).st, (atHit st c pos).toks)
          else ((stepN n (atHit st c pos).st c pos).1, (atHit st c pos).toks ++ (stepN n (atHit st c pos).st c pos).2)).1.tpos ∧
        (if (atHit st c pos).consumed = true then ((atHit st c pos).st, (atHit st c pos).toks)
          else ((stepN n (atHit st c pos).st c pos).1, (atHit st c pos).toks ++ (stepN n (atHit st c pos).st c pos).2)).1.tpos ≤ pos ∧
        Between st.tpos (if (atHit st c pos).consumed = true then ((atHit st c pos).st, (atHit st c pos).toks)
          else ((stepN n (atHit st c pos).st c pos).1, (atHit st c pos).toks ++ (stepN n (atHit st c pos).st c pos).2)).1.tpos
          (if (atHit st c pos).consumed = true then ((atHit st c pos).st, (atHit st c pos).toks)
          else ((stepN n (atHit st c pos).st c pos).1, (atHit st c pos).toks ++ (stepN n (atHit st c pos).st c pos).2)).2 := by
      by_cases hc : (atHit st c pos).consumed = true
      · simp only [hc, if_true]
        exact ⟨hh.1, hh.2.1, between_weaken hh.2.2 hh.1 (Nat.le_refl _)⟩
      · have hc' : (atHit st c pos).consumed = false := by simpa using hc
        simp only [hc', Bool.false_eq_true, if_false]
        refine ⟨by have := ih.1; omega, ih.2.1, ?_⟩
        exact between_append (between_weaken hh.2.2 hh.1 (Nat.le_refl _)) ih.2.2 hh.1 ih.1
    rw [stepN]
    cases hs : searchClass st.mode with
    | none => simpa using hit_case
    | some p =>
      simp only
      by_cases hp : p c = true
      · simpa [hp] using hit_case
      · simp [hp, hacc, h, between_nil]

theorem foldBytes_between : ∀ (bytes : Bytes) (st : St) (pos : Nat), st.tpos ≤ pos →
    st.tpos ≤ (foldBytes st bytes pos).1.tpos ∧
    (foldBytes st bytes pos).1.tpos ≤ max st.tpos (pos + bytes.length - 1) ∧
    Between st.tpos (foldBytes st bytes pos).1.tpos (foldBytes st bytes pos).2
  | [], st, pos, h => by simp [foldBytes, between_nil, Nat.le_max_left]
  | c :: t, st, pos, h => by
    have h1 := stepN_between 3 st c pos h
    have h2 := foldBytes_between t (stepByte st c pos).1 (pos + 1) (by unfold stepByte; omega)
    simp only [foldBytes]
    unfold stepByte at h2 ⊢
    refine ⟨by omega, ?_, between_append h1.2.2 h2.2.2 h1.1 h2.1⟩
    have := h2.2.1
    simp only [List.length_cons]
    omega

/-- Processing the flushed newline never starts a token: `_curtokenpos` stays, tokens carry it. -/
theorem stepN_nl (hnl : isNONSPC 10 = false) : ∀ (n : Nat) (st : St) (pos : Nat),
    (stepN n st 10 pos).1.tpos = st.tpos ∧ ∀ t ∈ (stepN n st 10 pos).2, t.1 = st.tpos
  | 0, st, pos => by simp [stepN]
  | n + 1, st, pos => by
    have hacc : (accum st [10]).tpos = st.tpos := by unfold accum; split <;> rfl
    rw [stepN]
    by_cases hm : st.mode = .main
    · simp [hm, searchClass, hnl, hacc]
    · have ht := hit_tpos_other st 10 pos hm
      have htk := hit_toks st 10 pos
      have ih := stepN_nl hnl n (atHit st 10 pos).st pos
      have hit_case : (if (atHit st 10 pos).consumed = true then ((atHit st 10 pos).st, (atHit st 10 pos).toks)
            else ((stepN n (atHit st 10 pos).st 10 pos).1, (atHit st 10 pos).toks ++ (stepN n (atHit st 10 pos).st 10 pos).2)).1.tpos = st.tpos ∧
          ∀ t ∈ (if (atHit st 10 pos).consumed = true then ((atHit st 10 pos).st, (atHit st 10 pos).toks)
            else ((stepN n (atHit st 10 pos).st 10 pos).1, (atHit st 10 pos).toks ++ (stepN n (atHit st 10 pos).st 10 pos).2)).2, t.1 = st.tpos := by
        by_cases hc : (atHit st 10 pos).consumed = true
        · simp only [hc, if_true]
          exact ⟨ht, fun t h => by rw [htk t h, ht]⟩
        · have hc' : (atHit st 10 pos).consumed = false := by simpa using hc
          simp only [hc', Bool.false_eq_true, if_false]
          refine ⟨by rw [ih.1, ht], fun t h => ?_⟩
          rcases List.mem_append.mp h with h | h
          · rw [htk t h, ht]
          · rw [ih.2 t h, ht]
      cases hs : searchClass st.mode with
      | none => simpa using hit_case
      | some p =>
        simp only
        by_cases hp : p 10 = true
        · simpa [hp] using hit_case
        · simp [hp, hacc]

end PdfVerif.Lexer
