/-
`LTAnno` insertion (C08, round 6): the members of every line that `group_objects` yields are exactly what the
documented word-margin specification `Spec.lineElems` prescribes for the line's glyphs.
-/
import PdfVerif.Lemmas.LayoutSpec
import PdfVerif.Spec.LayoutAnno

set_option linter.unusedSimpArgs false

namespace PdfVerif.Layout
open PdfVerif PdfVerif.Gen.Layout

theorem lineElemsFrom_snoc (v : Bool) (wm : Rat) : ∀ (gs : List Glyph) (prev a g : Glyph),
    (prev :: gs).getLast? = some a →
    Spec.lineElemsFrom v wm prev (gs ++ [g]) =
      Spec.lineElemsFrom v wm prev gs ++ (if Spec.spaceBetween v wm a.bb g.bb then [Elem.anno 32] else []) ++ [Elem.ch g]
  | [], prev, a, g, h => by
    simp only [List.getLast?_singleton, Option.some.injEq] at h
    subst h
    simp [Spec.lineElemsFrom]
  | x :: rest, prev, a, g, h => by
    have h' : (x :: rest).getLast? = some a := by simpa [List.getLast?_cons_cons] using h
    simp only [List.cons_append, Spec.lineElemsFrom]
    rw [lineElemsFrom_snoc v wm rest x a g h']
    simp [List.append_assoc]

theorem lineElems_snoc (v : Bool) (wm : Rat) (gs : List Glyph) (a g : Glyph) (h : gs.getLast? = some a) :
    Spec.lineElems v wm (gs ++ [g]) =
      Spec.lineElems v wm gs ++ (if Spec.spaceBetween v wm a.bb g.bb then [Elem.anno 32] else []) ++ [Elem.ch g] := by
  cases gs with
  | nil => simp at h
  | cons x rest =>
    simp only [List.cons_append, Spec.lineElems]
    rw [lineElemsFrom_snoc v wm rest x a g h]

/-- Invariant of an open line: `_x1` / `_y0` is the edge of the latest glyph and the members are the specified ones. -/
structure AnnoInv (wm : Rat) (l : Line) : Prop where
  last : ∀ a, l.glyphs.getLast? = some a → l.last = if l.vertical then a.bb.y0 else a.bb.x1
  elems : l.elems = Spec.lineElems l.vertical wm l.glyphs

theorem annoInv_new (wm : Rat) (v : Bool) (g : Glyph) : AnnoInv wm (newLine v g) := by
  refine ⟨?_, ?_⟩
  · intro a ha
    rw [glyphs_newLine] at ha
    simp only [List.getLast?_singleton, Option.some.injEq] at ha
    subst ha
    cases v <;> simp [newLine, next_last_h, next_last_v]
  · rw [glyphs_newLine]; simp [newLine, Spec.lineElems, Spec.lineElemsFrom]

theorem needSpace_eq_spec (wm : Rat) (l : Line) (a g : Glyph)
    (hl : l.last = if l.vertical then a.bb.y0 else a.bb.x1) :
    needSpace wm l g = Spec.spaceBetween l.vertical wm a.bb g.bb := by
  unfold needSpace Spec.spaceBetween
  cases hv : l.vertical
  · simp only [hv, Bool.false_eq_true, if_false] at hl ⊢
    rw [hl, need_space_h_eq]
  · simp only [hv, if_true] at hl ⊢
    rw [hl, need_space_v_eq]

theorem annoInv_add (wm : Rat) (l : Line) (a g : Glyph) (h : AnnoInv wm l) (hl : l.glyphs.getLast? = some a) :
    AnnoInv wm (l.add wm g) := by
  refine ⟨?_, ?_⟩
  · intro b hb
    rw [glyphs_add] at hb
    simp only [List.getLast?_append, List.getLast?_singleton, Option.some_or, Option.some.injEq] at hb
    subst hb
    cases hv : l.vertical <;> simp [Line.add, hv, next_last_h, next_last_v]
  · rw [glyphs_add, lineElems_snoc _ wm l.glyphs a g hl]
    show l.elems ++ _ ++ _ = _
    rw [h.elems, needSpace_eq_spec wm l a g (h.last a hl)]
    rfl

theorem go_anno (p : LAParams) (rest : List Glyph) :
    ∀ (obj0 : Glyph) (line : Option Line),
      (∀ l, line = some l → AnnoInv p.word_margin l ∧ l.glyphs.getLast? = some obj0) →
      ∀ l' ∈ go p obj0 line rest, AnnoInv p.word_margin l' := by
  induction rest with
  | nil =>
    intro obj0 line hline l' hl'
    cases line with
    | some l =>
      have := (hline l rfl).1
      simp [go] at hl'; subst hl'; exact this
    | none => simp [go] at hl'; subst hl'; exact annoInv_new _ false obj0
  | cons obj1 rest ih =>
    intro obj0 line hline l' hl'
    cases line with
    | some l =>
      have hl := hline l rfl
      simp only [go] at hl'
      split at hl'
      · refine ih obj1 _ ?_ l' hl'
        intro l2 h2
        cases h2
        exact ⟨annoInv_add _ l obj0 obj1 hl.1 hl.2, by simp [glyphs_add]⟩
      · simp only [List.mem_cons] at hl'
        rcases hl' with rfl | hl'
        · exact hl.1
        · exact ih obj1 none (by simp) l' hl'
    | none =>
      simp only [go] at hl'
      split at hl'
      · refine ih obj1 _ ?_ l' hl'
        intro l2 h2
        cases h2
        exact ⟨annoInv_add _ _ obj0 obj1 (annoInv_new _ true obj0) (by simp [glyphs_newLine]), by simp [glyphs_add]⟩
      · split at hl'
        · refine ih obj1 _ ?_ l' hl'
          intro l2 h2
          cases h2
          exact ⟨annoInv_add _ _ obj0 obj1 (annoInv_new _ false obj0) (by simp [glyphs_newLine]), by simp [glyphs_add]⟩
        · simp only [List.mem_cons] at hl'
          rcases hl' with rfl | hl'
          · exact annoInv_new _ false obj0
          · exact ih obj1 none (by simp) l' hl'

/-- Every line that `group_objects` yields has exactly the specified members. -/
theorem groupObjects_anno (p : LAParams) (gs : List Glyph) :
    ∀ l ∈ groupObjects p gs, l.elems = Spec.lineElems l.vertical p.word_margin l.glyphs := by
  cases gs with
  | nil => simp [groupObjects]
  | cons g rest => exact fun l hl => (go_anno p rest g none (by simp) l hl).elems

/-- … and after `LTTextLine.analyze` the specified members followed by the line break. -/
theorem analyze_anno (wm : Rat) (l : Line) (h : l.elems = Spec.lineElems l.vertical wm l.glyphs) :
    l.analyze.elems = Spec.lineElemsBreak l.analyze.vertical wm l.analyze.glyphs := by
  rw [glyphs_analyze]
  simp only [Line.analyze, Spec.lineElemsBreak, h]

end PdfVerif.Layout
