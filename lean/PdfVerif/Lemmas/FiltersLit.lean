/-
C03 helper lemmas (round 6) - the model functions that use definitions regenerated from the Python
(`Gen.Filters`), unfolded to the literal constants the older proofs were written against.  These
equations are where an edit of the Python source breaks the build.  Core Lean only.
-/
import PdfVerif.Spec.FilterEnc

namespace PdfVerif.Filters
open PdfVerif PdfVerif.FilterEnc PdfVerif.Gen.Filters

theorem u8_toNat_eq_iff (l : UInt8) (k : Nat) (hk : k < 256) : (l == UInt8.ofNat k) = decide (l.toNat = k) := by
  have hto : (UInt8.ofNat k).toNat = k := by simp [UInt8.toNat_ofNat']; omega
  by_cases h : l.toNat = k
  · have : l = UInt8.ofNat k := by
      apply UInt8.toNat_inj.mp; rw [hto]; exact h
    simp [this, hto]
  · have : l ≠ UInt8.ofNat k := by
      intro e; apply h; rw [e, hto]
    simp [this, h]

/-- One step of `rldecodeAux` with the constants of runlength.py written out. -/
theorem rldecodeAux_cons_lit (fuel : Nat) (l : UInt8) (rest : Bytes) :
    rldecodeAux (fuel + 1) (l :: rest) =
      (if l == 128 then .ok []
       else if l.toNat < 128 then
         (if rest.length < l.toNat + 1 then .error .runtimeError
          else match rldecodeAux fuel (rest.drop (l.toNat + 1)) with
            | .ok r => .ok (rest.take (l.toNat + 1) ++ r)
            | .error e => .error e)
       else match rest with
         | [] => .error .stopIteration
         | b :: rest' =>
           match rldecodeAux fuel rest' with
           | .ok r => .ok (List.replicate (257 - l.toNat) b ++ r)
           | .error e => .error e) := by
  have h' : (l == 128) = decide (l.toNat = 128) := u8_toNat_eq_iff l 128 (by omega)
  simp only [rldecodeAux, h', RL_EOD, rlIsLiteral, rlLiteralCount, rlRepeatCount]
  by_cases h1 : l.toNat = 128
  · simp [h1]
  · by_cases h2 : l.toNat < 128 <;> simp [h1, h2]
    · by_cases h3 : List.length rest < l.toNat + 1
      · simp [h3]
      · simp only [h3, if_false]
        cases rldecodeAux fuel (List.drop (l.toNat + 1) rest) <;> rfl
    · cases rest with
      | nil => rfl
      | cons b r => simp only []; cases rldecodeAux fuel r <;> rfl

end PdfVerif.Filters
