/-
C03 helper lemmas (round 6) - the model functions that use definitions regenerated from the Python
(`Gen.Filters`), unfolded to the literal constants the older proofs were written against.  These
equations are where an edit of the Python source breaks the build.  Core Lean only.
-/
import PdfVerif.Spec.FilterEnc

namespace PdfVerif.Filters
open PdfVerif PdfVerif.FilterEnc PdfVerif.Gen.Filters

theorem u8_toNat_eq_iff (l : UInt8) (k : Nat) (hk : k < 256) : (l == UInt8.ofNat k) = decide (l.toNat = k) := by
  have hto : (UInt8.ofNat k).toNat = k := by simp [UInt8.toNat_ofNat']; omega
  by_cases h : l.toNat = k
  · have : l = UInt8.ofNat k := by
      apply UInt8.toNat_inj.mp; rw [hto]; exact h
    simp [this, hto]
  · have : l ≠ UInt8.ofNat k := by
      intro e; apply h; rw [e, hto]
    simp [this, h]

/-- One step of `rldecodeAux` with the constants of runlength.py written out. -/
theorem rldecodeAux_cons_lit (fuel : Nat) (l : UInt8) (rest : Bytes) :
    rldecodeAux (fuel + 1) (l :: rest) =
      (if l == 128 then .ok []
       else if l.toNat < 128 then
         (if rest.length < l.toNat + 1 then .error .runtimeError
          else match rldecodeAux fuel (rest.drop (l.toNat + 1)) with
            | .ok r => .ok (rest.take (l.toNat + 1) ++ r)
            | .error e => .error e)
       else match rest with
         | [] => .error .stopIteration
         | b :: rest' =>
           match rldecodeAux fuel rest' with
           | .ok r => .ok (List.replicate (257 - l.toNat) b ++ r)
           | .error e => .error e) := by
  have h' : (l == 128) = decide (l.toNat = 128) := u8_toNat_eq_iff l 128 (by omega)
  simp only [rldecodeAux, h', RL_EOD, rlIsLiteral, rlLiteralCount, rlRepeatCount]
  by_cases h1 : l.toNat = 128
  · simp [h1]
  · by_cases h2 : l.toNat < 128 <;> simp [h1, h2]
    · by_cases h3 : List.length rest < l.toNat + 1
      · simp [h3]
      · simp only [h3, if_false]
        cases rldecodeAux fuel (List.drop (l.toNat + 1) rest) <;> rfl
    · cases rest with
      | nil => rfl
      | cons b r => simp only []; cases rldecodeAux fuel r <;> rfl

/-! ### LZW: the model with the constants of lzw.py written out -/

theorem lzwInit_lit : lzwInit = { nbits := 9, init := false, ext := [], prev := none } := rfl

theorem tableLen_lit (st : LzwSt) : tableLen st = if st.init then 258 + st.ext.length else 0 := rfl

theorem tableGet_lit (st : LzwSt) (code : Nat) :
    tableGet st code =
      (if !st.init then none
       else if code < 256 then some [UInt8.ofNat code]
       else if code < 258 then none
       else st.ext[code - 258]?) := rfl

theorem feedGrow_lit (st : LzwSt) (entry x : Bytes) :
    feedGrow st entry x =
      .ok { st with ext := st.ext ++ [entry], nbits := nbitsAfter st.nbits (258 + (st.ext ++ [entry]).length),
                    prev := some x } x := rfl

theorem feed_lit (st : LzwSt) (code : Nat) :
    feed st code =
      (if code == 256 then .ok { nbits := 9, init := true, ext := [], prev := some [] } []
       else if code == 257 then .ok st []
       else
         match st.prev with
         | none | some [] =>
           match tableGet st code with
           | some x => .ok { st with prev := some x } x
           | none => .indexError
         | some p =>
           if code < tableLen st then
             match tableGet st code with
             | some x => feedGrow st (p ++ x.take 1) x
             | none => .indexError
           else if code == tableLen st then feedGrow st (p ++ p.take 1) (p ++ p.take 1)
           else .corrupt) := by
  unfold feed
  rfl

theorem lzwdecode_lit (data : Bytes) : lzwdecode data = lzwRunB (8 * data.length + 1) lzwInit data 0 8 := rfl

/-! ### Predictors: the model with the constants of utils.py / pdftypes.py written out -/

theorem apply_png_predictor_lit (colors columns bpc : Nat) (data : Bytes) :
    apply_png_predictor colors columns bpc data =
      (if bpc != 8 && bpc != 1 then .error .pdfValue
       else pngRows (pngNbytes colors columns bpc) (pngBpp colors bpc) data.length
              (List.replicate (pngNbytes colors columns bpc) 0) data) := by
  unfold apply_png_predictor
  by_cases h8 : bpc = 8 <;> by_cases h1 : bpc = 1 <;> simp [PNG_BPC, h8, h1]

theorem apply_tiff_predictor_lit (colors columns bpc : Nat) (data : Bytes) :
    apply_tiff_predictor colors columns bpc data =
      (if bpc != 8 then .error .pdfValue
       else if columns * colors == 0 then .error .valueError
       else tiffRows (columns * colors) colors data.length data) := by
  unfold apply_tiff_predictor
  by_cases h : bpc = 8
  · subst h; simp [TIFF_BPC, tiffNbytes, tiffBpp]
  · simp [TIFF_BPC, h]

theorem applyPredictor_lit (pr : Option Parms) (data : Bytes) :
    applyPredictor pr data =
      (match pr with
       | none => .ok data
       | some p =>
         match p.predictor with
         | none => .ok data
         | some pred =>
           if pred == 1 then .ok data
           else if pred == 2 then apply_tiff_predictor (p.colors.getD 1) (p.columns.getD 1) (p.bpc.getD 8) data
           else if pred ≥ 10 then apply_png_predictor (p.colors.getD 1) (p.columns.getD 1) (p.bpc.getD 8) data
           else .error .pdfNotImplemented) := by
  unfold applyPredictor
  cases pr with
  | none => rfl
  | some p =>
    cases hp : p.predictor with
    | none => simp only [hp]
    | some pred =>
      simp only [hp, predKind, PRED_TIFF_DEFAULTS, PRED_PNG_DEFAULTS]
      by_cases h1 : pred = 1
      · simp [h1]
      · by_cases h2 : pred = 2
        · simp [h2]
        · by_cases h3 : pred ≥ 10
          · simp [h1, h2, h3]
          · simp [h1, h2, h3]

/-! ### ASCIIHex / ASCII85: the model with the constants of ascii85.py / base64.py written out -/

theorem asciihexdecode_lit (data : Bytes) :
    asciihexdecode data =
      (let d := data.filter (fun b => !isWs b)
       let t := d.takeWhile (fun b => b != 62)
       if t.length < d.length then unhexlify (if t.length % 2 == 1 then t ++ [48] else t)
       else unhexlify d) := by
  have hf : (fun b : UInt8 => [b] != AHX_EOD) = (fun b => b != 62) := by
    funext b; by_cases hb : b = 62 <;> simp [AHX_EOD, bne, hb]
  simp only [asciihexdecode, hf, ahxNeedsPad, AHX_PAD]
  by_cases h : (List.takeWhile (fun b => b != 62) (List.filter (fun b => !isWs b) data)).length % 2 = 1 <;> simp [h]

theorem a85decode_lit (b : Bytes) :
    a85decode b =
      (match a85loop [] (b ++ [117, 117, 117, 117]) with
       | .error e => .error e
       | .ok (res, curr) =>
         .ok (if 4 - curr.length != 0 then res.take (res.length - (4 - curr.length)) else res)) := by
  simp only [a85decode, A85_PAD, a85Padding]
  cases a85loop [] (b ++ [117, 117, 117, 117]) with
  | error e => rfl
  | ok p => rfl

end PdfVerif.Filters
