/-
C03 helper lemmas — the filter pipeline: name dispatch of `decodeStep` (over the regenerated
`LITERALS_*` tuples) and the predictor dispatch.  Core Lean only.
-/
import PdfVerif.Lemmas.FiltersPred
import PdfVerif.Lemmas.FiltersCodec

namespace PdfVerif.Filters
open PdfVerif PdfVerif.FilterEnc PdfVerif.Gen.Filters

/-- Continue with the predictor after a decoder result. -/
def thenPredictor (pr : Option Parms) (r : Except Err Bytes) : Except Err Bytes :=
  match r with
  | .ok d => applyPredictor pr d
  | .error e => .error e

theorem decodeStep_ahx (inflate : Bytes → Bytes) (name : Bytes) (pr : Option Parms) (d : Bytes)
    (h : name ∈ LITERALS_ASCIIHEX_DECODE) :
    decodeStep inflate (name, pr) d = thenPredictor pr (asciihexdecode d) := by
  simp only [LITERALS_ASCIIHEX_DECODE, List.mem_cons, List.not_mem_nil, or_false] at h
  rcases h with rfl | rfl <;> rfl

theorem decodeStep_a85 (inflate : Bytes → Bytes) (name : Bytes) (pr : Option Parms) (d : Bytes)
    (h : name ∈ LITERALS_ASCII85_DECODE) :
    decodeStep inflate (name, pr) d = thenPredictor pr (ascii85decode d) := by
  simp only [LITERALS_ASCII85_DECODE, List.mem_cons, List.not_mem_nil, or_false] at h
  rcases h with rfl | rfl <;> rfl

theorem decodeStep_rl (inflate : Bytes → Bytes) (name : Bytes) (pr : Option Parms) (d : Bytes)
    (h : name ∈ LITERALS_RUNLENGTH_DECODE) :
    decodeStep inflate (name, pr) d = thenPredictor pr (rldecode d) := by
  simp only [LITERALS_RUNLENGTH_DECODE, List.mem_cons, List.not_mem_nil, or_false] at h
  rcases h with rfl | rfl <;> rfl

theorem decodeStep_lzw (inflate : Bytes → Bytes) (name : Bytes) (pr : Option Parms) (d : Bytes)
    (h : name ∈ LITERALS_LZW_DECODE) :
    decodeStep inflate (name, pr) d = thenPredictor pr (lzwdecode d) := by
  simp only [LITERALS_LZW_DECODE, List.mem_cons, List.not_mem_nil, or_false] at h
  rcases h with rfl | rfl <;> rfl

theorem decodeStep_fl (inflate : Bytes → Bytes) (name : Bytes) (pr : Option Parms) (d : Bytes)
    (h : name ∈ LITERALS_FLATE_DECODE) :
    decodeStep inflate (name, pr) d = thenPredictor pr (.ok (inflate d)) := by
  simp only [LITERALS_FLATE_DECODE, List.mem_cons, List.not_mem_nil, or_false] at h
  rcases h with rfl | rfl <;> rfl

end PdfVerif.Filters
