/-
C03 helper lemmas — the filter pipeline: name dispatch of `decodeStep` over the regenerated
`LITERALS_*` tuples.  The proofs only use membership in the tuple and the (decided) fact that the
tuples tested earlier in the `if` chain do not contain the name, so adding an alias to a tuple
keeps them valid while overlapping tuples break them.  Core Lean only.
-/
import PdfVerif.Lemmas.FiltersPred
import PdfVerif.Lemmas.FiltersCodec

namespace PdfVerif.Filters
open PdfVerif PdfVerif.FilterEnc PdfVerif.Gen.Filters

/-- Continue with the predictor after a decoder result. -/
def thenPredictor (pr : Option Parms) (r : Except Err Bytes) : Except Err Bytes :=
  match r with
  | .ok d => applyPredictor pr d
  | .error e => .error e

theorem lzw_not_earlier : ∀ n ∈ LITERALS_LZW_DECODE, LITERALS_FLATE_DECODE.contains n = false := by decide

theorem a85_not_earlier : ∀ n ∈ LITERALS_ASCII85_DECODE,
    LITERALS_FLATE_DECODE.contains n = false ∧ LITERALS_LZW_DECODE.contains n = false := by decide

theorem ahx_not_earlier : ∀ n ∈ LITERALS_ASCIIHEX_DECODE,
    LITERALS_FLATE_DECODE.contains n = false ∧ LITERALS_LZW_DECODE.contains n = false ∧
    LITERALS_ASCII85_DECODE.contains n = false := by decide

theorem rl_not_earlier : ∀ n ∈ LITERALS_RUNLENGTH_DECODE,
    LITERALS_FLATE_DECODE.contains n = false ∧ LITERALS_LZW_DECODE.contains n = false ∧
    LITERALS_ASCII85_DECODE.contains n = false ∧ LITERALS_ASCIIHEX_DECODE.contains n = false := by decide

theorem decodeStep_fl (inflate : Bytes → Bytes) (name : Bytes) (pr : Option Parms) (d : Bytes)
    (h : name ∈ LITERALS_FLATE_DECODE) :
    decodeStep inflate (name, pr) d = thenPredictor pr (.ok (inflate d)) := by
  have h1 : LITERALS_FLATE_DECODE.contains name = true := by simpa using h
  simp only [decodeStep, h1, if_true]
  rfl

theorem decodeStep_lzw (inflate : Bytes → Bytes) (name : Bytes) (pr : Option Parms) (d : Bytes)
    (h : name ∈ LITERALS_LZW_DECODE) :
    decodeStep inflate (name, pr) d = thenPredictor pr (lzwdecode d) := by
  have h0 := lzw_not_earlier name h
  have h1 : LITERALS_LZW_DECODE.contains name = true := by simpa using h
  simp only [decodeStep, h0, h1, Bool.false_eq_true, if_false, if_true]
  rfl

theorem decodeStep_a85 (inflate : Bytes → Bytes) (name : Bytes) (pr : Option Parms) (d : Bytes)
    (h : name ∈ LITERALS_ASCII85_DECODE) :
    decodeStep inflate (name, pr) d = thenPredictor pr (ascii85decode d) := by
  obtain ⟨h0, h0'⟩ := a85_not_earlier name h
  have h1 : LITERALS_ASCII85_DECODE.contains name = true := by simpa using h
  simp only [decodeStep, h0, h0', h1, Bool.false_eq_true, if_false, if_true]
  rfl

theorem decodeStep_ahx (inflate : Bytes → Bytes) (name : Bytes) (pr : Option Parms) (d : Bytes)
    (h : name ∈ LITERALS_ASCIIHEX_DECODE) :
    decodeStep inflate (name, pr) d = thenPredictor pr (asciihexdecode d) := by
  obtain ⟨h0, h0', h0''⟩ := ahx_not_earlier name h
  have h1 : LITERALS_ASCIIHEX_DECODE.contains name = true := by simpa using h
  simp only [decodeStep, h0, h0', h0'', h1, Bool.false_eq_true, if_false, if_true]
  rfl

theorem decodeStep_rl (inflate : Bytes → Bytes) (name : Bytes) (pr : Option Parms) (d : Bytes)
    (h : name ∈ LITERALS_RUNLENGTH_DECODE) :
    decodeStep inflate (name, pr) d = thenPredictor pr (rldecode d) := by
  obtain ⟨h0, h0', h0'', h0'''⟩ := rl_not_earlier name h
  have h1 : LITERALS_RUNLENGTH_DECODE.contains name = true := by simpa using h
  simp only [decodeStep, h0, h0', h0'', h0''', h1, Bool.false_eq_true, if_false, if_true]
  rfl

end PdfVerif.Filters
