/-
C03 helper lemmas — stream delimitation, RunLength, ASCIIHex.  Core Lean only.
-/
import PdfVerif.Spec.FilterEnc
import PdfVerif.Lemmas.FiltersLit

namespace PdfVerif.Filters
open PdfVerif PdfVerif.FilterEnc

theorem toNat_ofNat_lt (k : Nat) (hk : k < 256) : (UInt8.ofNat k).toNat = k := by
  simp [UInt8.toNat_ofNat']; omega

theorem ofNat_beq_false (k m : Nat) (hk : k < 256) (hm : m < 256) (h : k ≠ m) :
    (UInt8.ofNat k == UInt8.ofNat m) = false := by
  rw [beq_eq_false_iff_ne]
  intro he
  have := congrArg UInt8.toNat he
  rw [toNat_ofNat_lt k hk, toNat_ofNat_lt m hm] at this
  exact h this

/-! ## nextline / stream delimitation -/

/-- An end-of-line marker after the keyword line, as ISO 32000-1 7.3.8.1 allows it (LF or CRLF),
or a lone CR when the next byte is not LF. -/
def EolOk (eol rest : Bytes) : Prop :=
  eol = [10] ∨ eol = [13, 10] ∨ (eol = [13] ∧ ∃ c t, rest = c :: t ∧ c ≠ 10)

theorem nextline_kw (kw : Bytes) (hkw : ∀ c ∈ kw, c ≠ 10 ∧ c ≠ 13) (eol rest : Bytes) (heol : EolOk eol rest) :
    nextline (kw ++ eol ++ rest) = some (kw ++ eol) := by
  induction kw with
  | nil =>
    rcases heol with rfl | rfl | ⟨rfl, c, t, rfl, hc⟩
    · simp [nextline]
    · simp [nextline]
    · simp [nextline, hc]
  | cons c kw ih =>
    have h1 := (hkw c (by simp)).1
    have h2 := (hkw c (by simp)).2
    have ih' := ih (fun c hc => hkw c (by simp [hc]))
    simp only [List.cons_append, nextline]
    simp only [List.append_assoc] at ih'
    simp [h1, h2, ih']

/-! ## RunLength -/

theorem rlBody_rt (t : Bytes) (ht : t = [] ∨ t = [128]) :
    ∀ (segs : List RlSeg) (fuel : Nat), (∀ s ∈ segs, s.valid = true) → (rlBody segs ++ t).length < fuel →
      rldecodeAux fuel (rlBody segs ++ t) = .ok (rlFlat segs) := by
  intro segs
  induction segs with
  | nil =>
    intro fuel _ hf
    cases fuel with
    | zero => omega
    | succ fuel =>
      rcases ht with rfl | rfl
      · simp [rlBody, rlFlat, rldecodeAux]
      · simp [rlBody, rlFlat, rldecodeAux, rldecodeAux_cons_lit]
  | cons s segs ih =>
    intro fuel hv hf
    have hs := hv s (by simp)
    have ih' := ih
    cases fuel with
    | zero => omega
    | succ fuel =>
      cases s with
      | lit bs =>
        simp only [RlSeg.valid, Bool.and_eq_true, decide_eq_true_eq] at hs
        have hl : (UInt8.ofNat (bs.length - 1)).toNat = bs.length - 1 := toNat_ofNat_lt _ (by omega)
        have h128 : (UInt8.ofNat (bs.length - 1) == 128) = false :=
          ofNat_beq_false _ 128 (by omega) (by omega) (by omega)
        simp only [rlBody, RlSeg.enc, List.cons_append, List.append_assoc, rlFlat, RlSeg.flat] at hf ⊢
        have hrec := ih fuel (fun s hs => hv s (by simp [hs])) (by simp at hf ⊢; omega)
        have hn : bs.length - 1 + 1 = bs.length := by omega
        simp only [rldecodeAux_cons_lit, h128, hl, hn]
        have hlt : bs.length - 1 < 128 := by omega
        have hnl : ¬ (bs ++ (rlBody segs ++ t)).length < bs.length := by simp
        simp only [Bool.false_eq_true, if_false, hlt, if_true, hnl]
        rw [List.drop_left' rfl, List.take_left' rfl, hrec]
      | run n b =>
        simp only [RlSeg.valid, Bool.and_eq_true, decide_eq_true_eq] at hs
        have hl : (UInt8.ofNat (257 - n)).toNat = 257 - n := toNat_ofNat_lt _ (by omega)
        have h128 : (UInt8.ofNat (257 - n) == 128) = false :=
          ofNat_beq_false _ 128 (by omega) (by omega) (by omega)
        simp only [rlBody, RlSeg.enc, List.cons_append, List.nil_append, rlFlat, RlSeg.flat] at hf ⊢
        have hrec := ih fuel (fun s hs => hv s (by simp [hs])) (by simp at hf ⊢; omega)
        have hlt : ¬ (257 - n < 128) := by omega
        have hn : 257 - (257 - n) = n := by omega
        simp only [rldecodeAux_cons_lit, h128, hl, Bool.false_eq_true, if_false, hlt, hrec, hn]

/-! ## ASCIIHex -/

theorem hexv_hexDigitB (n : Nat) (u : Bool) (hn : n < 16) : hexv (hexDigitB n u) = some n := by
  unfold hexDigitB hexv
  by_cases h10 : n < 10
  · have h := toNat_ofNat_lt (48 + n) (by omega)
    simp only [h10, if_true, h]
    have : 48 ≤ 48 + n ∧ 48 + n ≤ 57 := by omega
    simp [this]
  · cases u
    · have h := toNat_ofNat_lt (87 + n) (by omega)
      simp only [h10, if_false, Bool.false_eq_true, h]
      have h1 : ¬ (48 ≤ 87 + n ∧ 87 + n ≤ 57) := by omega
      have h2 : 97 ≤ 87 + n ∧ 87 + n ≤ 102 := by omega
      simp [h1, h2]
    · have h := toNat_ofNat_lt (55 + n) (by omega)
      simp only [h10, if_false, if_true, h]
      have h1 : ¬ (48 ≤ 55 + n ∧ 55 + n ≤ 57) := by omega
      have h2 : ¬ (97 ≤ 55 + n ∧ 55 + n ≤ 102) := by omega
      have h3 : 65 ≤ 55 + n ∧ 55 + n ≤ 70 := by omega
      simp [h1, h2, h3]

theorem hexDigitB_props (n : Nat) (u : Bool) (hn : n < 16) :
    isWs (hexDigitB n u) = false ∧ hexDigitB n u ≠ 62 := by
  have hv := hexv_hexDigitB n u hn
  constructor
  · cases hw : isWs (hexDigitB n u) with
    | false => rfl
    | true =>
      exfalso
      simp only [isWs, Bool.or_eq_true, beq_iff_eq] at hw
      rcases hw with ((((h | h) | h) | h) | h) | h <;> (rw [h] at hv; simp [hexv] at hv)
  · intro h; rw [h] at hv; simp [hexv] at hv

theorem ws7_filter (i : Nat) : (ws7 i).filter (fun b => !isWs b) = [] := by
  unfold ws7
  repeat' split
  all_goals decide

/-- The digits of `x` without white space, the last low digit dropped when `drop`. -/
def ahxDigits : List Nat → Bool → Bytes → Bytes
  | _, _, [] => []
  | cs, t2, [b] =>
    hexDigitB (b.toNat / 16) (hd0 cs % 2 == 1) ::
      (if t2 && b.toNat % 16 == 0 then [] else [hexDigitB (b.toNat % 16) (hd0 cs / 2 % 2 == 1)])
  | cs, t2, b :: b' :: rest =>
    hexDigitB (b.toNat / 16) (hd0 cs % 2 == 1) :: hexDigitB (b.toNat % 16) (hd0 cs / 2 % 2 == 1) ::
      ahxDigits cs.tail t2 (b' :: rest)

theorem div16_lt (b : UInt8) : b.toNat / 16 < 16 := by
  have := b.toNat_lt; omega

theorem ahx_filter (cs : List Nat) (t2 : Bool) (x : Bytes) :
    (ahxEncGo cs t2 x).filter (fun b => !isWs b) = ahxDigits cs t2 x := by
  induction x generalizing cs with
  | nil => simp [ahxEncGo, ahxDigits]
  | cons b rest ih =>
    have hhi := (hexDigitB_props (b.toNat / 16) (hd0 cs % 2 == 1) (div16_lt b)).1
    have hlo := (hexDigitB_props (b.toNat % 16) (hd0 cs / 2 % 2 == 1) (Nat.mod_lt _ (by omega))).1
    cases rest with
    | nil =>
      simp only [ahxEncGo, ahxDigits, ahxEncByte, List.filter_append, ws7_filter, List.append_nil]
      by_cases hd : (t2 && b.toNat % 16 == 0) = true
      · simp [hd, hhi]
      · simp [hd, hhi, hlo]
    | cons b' rest' =>
      simp only [ahxEncGo, ahxDigits, ahxEncByte, List.filter_append, ws7_filter, List.append_nil, ih]
      simp [hhi, hlo]

theorem ahxDigits_no_gt (cs : List Nat) (t2 : Bool) (x : Bytes) : ∀ c ∈ ahxDigits cs t2 x, (c != 62) = true := by
  induction x generalizing cs with
  | nil => simp [ahxDigits]
  | cons b rest ih =>
    have hhi := (hexDigitB_props (b.toNat / 16) (hd0 cs % 2 == 1) (div16_lt b)).2
    have hlo := (hexDigitB_props (b.toNat % 16) (hd0 cs / 2 % 2 == 1) (Nat.mod_lt _ (by omega))).2
    cases rest with
    | nil =>
      intro c hc
      simp only [ahxDigits] at hc
      by_cases hd : (t2 && b.toNat % 16 == 0) = true
      · simp only [hd, if_true, List.mem_singleton] at hc; subst hc; simpa using hhi
      · simp only [hd, Bool.false_eq_true, if_false, List.mem_cons, List.not_mem_nil, or_false] at hc
        rcases hc with rfl | rfl
        · simpa using hhi
        · simpa using hlo
    | cons b' rest' =>
      intro c hc
      simp only [ahxDigits, List.mem_cons] at hc
      rcases hc with rfl | rfl | hc
      · simpa using hhi
      · simpa using hlo
      · exact ih cs.tail c hc

theorem byte_of_nibbles (b : UInt8) : UInt8.ofNat (b.toNat / 16 * 16 + b.toNat % 16) = b := by
  have : b.toNat / 16 * 16 + b.toNat % 16 = b.toNat := by omega
  rw [this, UInt8.ofNat_toNat]

/-- Full digit string (nothing dropped) decodes to `x`. -/
theorem unhexlify_digits (cs : List Nat) (x : Bytes) : unhexlify (ahxDigits cs false x) = .ok x := by
  induction x generalizing cs with
  | nil => simp [ahxDigits, unhexlify]
  | cons b rest ih =>
    have hhi := hexv_hexDigitB (b.toNat / 16) (hd0 cs % 2 == 1) (div16_lt b)
    have hlo := hexv_hexDigitB (b.toNat % 16) (hd0 cs / 2 % 2 == 1) (Nat.mod_lt _ (by omega))
    cases rest with
    | nil =>
      simp only [ahxDigits, Bool.false_and, Bool.false_eq_true, if_false, unhexlify, hhi, hlo, byte_of_nibbles]
    | cons b' rest' =>
      simp only [ahxDigits, unhexlify, hhi, hlo, ih cs.tail, byte_of_nibbles]

/-- With the final `0` digit dropped, appending `0` restores a digit string that decodes to `x`;
and the number of digits is odd exactly when a digit was dropped. -/
theorem ahxDigits_dropped (cs : List Nat) (x : Bytes) :
    (unhexlify (ahxDigits cs true x) = .ok x ∧ (ahxDigits cs true x).length % 2 = 0) ∨
    (unhexlify (ahxDigits cs true x ++ [48]) = .ok x ∧ (ahxDigits cs true x).length % 2 = 1) := by
  induction x generalizing cs with
  | nil => left; simp [ahxDigits, unhexlify]
  | cons b rest ih =>
    have hhi := hexv_hexDigitB (b.toNat / 16) (hd0 cs % 2 == 1) (div16_lt b)
    have hlo := hexv_hexDigitB (b.toNat % 16) (hd0 cs / 2 % 2 == 1) (Nat.mod_lt _ (by omega))
    cases rest with
    | nil =>
      by_cases hd : b.toNat % 16 = 0
      · right
        have h0 : hexv 48 = some 0 := by decide
        have hb : UInt8.ofNat (b.toNat / 16 * 16 + 0) = b := by
          have := byte_of_nibbles b; rw [hd] at this; exact this
        have hd' : (b.toNat % 16 == 0) = true := by simp [hd]
        simp only [ahxDigits, hd', Bool.true_and, if_true, List.cons_append, List.nil_append, unhexlify, hhi, h0, hb,
          List.length_cons, List.length_nil]
        exact ⟨trivial, trivial⟩
      · left
        have hd' : (b.toNat % 16 == 0) = false := by simp [hd]
        simp only [ahxDigits, hd', Bool.and_false, Bool.false_eq_true, if_false, unhexlify, hhi, hlo, byte_of_nibbles,
          List.length_cons, List.length_nil]
        exact ⟨trivial, trivial⟩
    | cons b' rest' =>
      rcases ih cs.tail with ⟨h1, h2⟩ | ⟨h1, h2⟩
      · left
        simp only [ahxDigits, unhexlify, hhi, hlo, h1, byte_of_nibbles, List.length_cons]
        exact ⟨trivial, by omega⟩
      · right
        simp only [ahxDigits, List.cons_append, unhexlify, hhi, hlo, h1, byte_of_nibbles, List.length_cons]
        exact ⟨trivial, by omega⟩

theorem ahxDigits_false_even (cs : List Nat) (x : Bytes) : (ahxDigits cs false x).length % 2 = 0 := by
  induction x generalizing cs with
  | nil => simp [ahxDigits]
  | cons b rest ih =>
    cases rest with
    | nil => simp [ahxDigits]
    | cons b' rest' =>
      have := ih cs.tail
      simp only [ahxDigits, List.length_cons] at this ⊢
      omega

theorem takeWhile_append_stop {α : Type} (p : α → Bool) (l : List α) (a : α) (r : List α)
    (hl : ∀ c ∈ l, p c = true) (ha : p a = false) : (l ++ a :: r).takeWhile p = l := by
  induction l with
  | nil => simp [ha]
  | cons c l ih =>
    have hc := hl c (by simp)
    simp only [List.cons_append, List.takeWhile, hc]
    rw [ih (fun c hc => hl c (by simp [hc]))]

theorem takeWhile_all {α : Type} (p : α → Bool) (l : List α) (hl : ∀ c ∈ l, p c = true) : l.takeWhile p = l := by
  induction l with
  | nil => rfl
  | cons c l ih =>
    have hc := hl c (by simp)
    simp only [List.takeWhile, hc]
    rw [ih (fun c hc => hl c (by simp [hc]))]

end PdfVerif.Filters
