/-
C17 — the walk over the object graph (`searchG`, visited set and all) yields exactly what the
term model `search` yields on the entry stored there.
-/
import PdfVerif.Lemmas.OutlineGraph
import PdfVerif.Spec.OutlineStore

namespace PdfVerif.Lemmas.OutlineStore
open PdfVerif PdfVerif.Outline PdfVerif.OutlineGraph PdfVerif.Spec.OutlineStore PdfVerif.Lemmas.OutlineGraph

/-- The `First` part of one visit. -/
def kidsStep (g : Store) (fuel : Nat) (vis : List Nat) (level : Nat) (nd : GNode) : Option (List Item × List Nat) :=
  match nd.first, nd.hasLast with
  | some f, true => searchG g fuel vis f (level + 1)
  | _, _ => some ([], vis)

/-- The `Next` part of one visit. -/
def nextStep (g : Store) (fuel : Nat) (level : Nat) (nd : GNode) (p : List Item × List Nat) :
    Option (List Item × List Nat) :=
  match nd.next with
  | none => some (visible level nd.info ++ p.1, p.2)
  | some nx =>
    match searchG g fuel p.2 nx level with
    | none => none
    | some (rest, v3) => some (visible level nd.info ++ p.1 ++ rest, v3)

theorem searchG_visit (g : Store) (fuel : Nat) (vis : List Nat) (r level : Nat) (nd : GNode)
    (hc : vis.contains r = false) (hg : OutlineGraph.get g r = some nd) :
    searchG g (fuel + 1) vis r level =
      (kidsStep g fuel (r :: vis) level nd).bind (nextStep g fuel level nd) := by
  unfold searchG
  simp only [hc, Bool.false_eq_true, if_false, hg]
  unfold kidsStep
  cases nd.first with
  | none =>
    cases nd.hasLast <;> (simp only [Option.bind]; unfold nextStep; cases nd.next <;> rfl)
  | some f =>
    cases nd.hasLast with
    | false => simp only [Option.bind]; unfold nextStep; cases nd.next <;> rfl
    | true =>
      simp only []
      cases searchG g fuel (r :: vis) f (level + 1) with
      | none => rfl
      | some p =>
        obtain ⟨kids, v2⟩ := p
        simp only [Option.bind]; unfold nextStep; cases nd.next <;> rfl

theorem searchG_stored (g : Store) : ∀ (fuel : Nat) (vis : List Nat) (r level : Nat) (e : Entry) (ids : List Nat),
    Stored g (some r) e ids → (∀ x ∈ ids, x ∉ vis) → unvisited g vis < fuel →
    ∃ vis', searchG g fuel vis r level = some (search e level, vis') ∧ (∀ x ∈ vis, x ∈ vis') ∧
      (∀ x ∈ vis', x ∈ ids ∨ x ∈ vis)
  | 0, _, _, _, _, _, _, _, h => by omega
  | fuel + 1, vis, r, level, e, ids, hs, hdis, hfu => by
    cases hs with
    | mk _ nd first next idsF idsN hg hF hN hrF hrN hFN =>
      have hrv : r ∉ vis := hdis r (by simp)
      have hc : vis.contains r = false := by simpa using hrv
      have hlt := unvisited_lt g vis r nd hg hc
      have hfuel : unvisited g (r :: vis) < fuel := by omega
      have hdisF : ∀ x ∈ idsF, x ∉ r :: vis := by
        intro x hx hm
        simp only [List.mem_cons] at hm
        rcases hm with rfl | hm
        · exact hrF hx
        · exact hdis x (by simp [hx]) hm
      have hkids : ∃ v2, kidsStep g fuel (r :: vis) level nd
              = some ((if nd.hasLast = true then search first (level + 1) else []), v2)
            ∧ (∀ x ∈ r :: vis, x ∈ v2) ∧ (∀ x ∈ v2, x ∈ idsF ∨ x ∈ r :: vis) := by
        unfold kidsStep
        cases hfst : nd.first with
        | none =>
          rw [hfst] at hF
          cases hF
          refine ⟨r :: vis, ?_, fun x hx => hx, fun x hx => Or.inr hx⟩
          cases nd.hasLast <;> simp [search]
        | some f =>
          rw [hfst] at hF
          cases hl : nd.hasLast with
          | false => exact ⟨r :: vis, by simp, fun x hx => hx, fun x hx => Or.inr hx⟩
          | true =>
            obtain ⟨v2, h1, h2, h3⟩ := searchG_stored g fuel (r :: vis) f (level + 1) first idsF hF hdisF hfuel
            exact ⟨v2, by simp [h1], h2, h3⟩
      obtain ⟨v2, hk, hsub2, hsup2⟩ := hkids
      have hsub : ∀ x ∈ vis, x ∈ v2 := fun x hx => hsub2 x (List.mem_cons_of_mem _ hx)
      have hsup : ∀ x ∈ v2, x ∈ r :: (idsF ++ idsN) ∨ x ∈ vis := by
        intro x hx
        rcases hsup2 x hx with h | h
        · exact Or.inl (by simp [h])
        · simp only [List.mem_cons] at h
          rcases h with rfl | h
          · exact Or.inl (by simp)
          · exact Or.inr h
      rw [searchG_visit g fuel vis r level nd hc hg, hk]
      simp only [Option.bind, nextStep]
      cases hnx : nd.next with
      | none =>
        rw [hnx] at hN
        cases hN
        refine ⟨v2, ?_, hsub, hsup⟩
        simp [search]
      | some nx =>
        rw [hnx] at hN
        have hv2 : unvisited g v2 < fuel := by
          have := unvisited_mono g (r :: vis) v2 hsub2
          omega
        have hdisN : ∀ x ∈ idsN, x ∉ v2 := by
          intro x hx hm
          rcases hsup2 x hm with h | h
          · exact hFN x h hx
          · simp only [List.mem_cons] at h
            rcases h with rfl | h
            · exact hrN hx
            · exact hdis x (by simp [hx]) h
        obtain ⟨v3, h1, h2, h3⟩ := searchG_stored g fuel v2 nx level next idsN hN hdisN hv2
        refine ⟨v3, ?_, fun x hx => h2 x (hsub x hx), ?_⟩
        · simp [h1, search]
        · intro x hx
          rcases h3 x hx with h | h
          · exact Or.inl (by simp [h])
          · exact hsup x h

/-- `get_outlines()` on the object graph = the term model on the stored entry. -/
theorem getOutlinesG_stored (g : Store) (root : Nat) (e : Entry) (ids : List Nat)
    (hs : Stored g (some root) e ids) : getOutlinesG g root = some (getOutlines e) := by
  have hu : unvisited g [] < g.length + 1 := by
    unfold unvisited
    exact Nat.lt_succ_of_le (List.length_filter_le _ _)
  obtain ⟨v, h, _, _⟩ := searchG_stored g (g.length + 1) [] root 0 e ids hs (by simp) hu
  simp [getOutlinesG, h, getOutlines]

end PdfVerif.Lemmas.OutlineStore
