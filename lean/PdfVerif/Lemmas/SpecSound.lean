/-
The executable ISO reader `Syntax.spellcheck` (Spec/Syntax.lean) accepts every well-formed spelled
tree (`Roundtrip.STree`) and gives it the value the C01 theorems use (`intValue`, `nameValue`,
`strValue`, `pairUp`, …): the run-time oracle and the theorems speak about the same values.
-/
import PdfVerif.Spec.Syntax
import PdfVerif.Lemmas.Roundtrip

namespace PdfVerif.SpecSound
open PdfVerif PdfVerif.Lexer PdfVerif.Roundtrip PdfVerif.Gen.LexTables

/-! ### byte-level agreement between the spec's character classes and the lexer's (regenerated) ones -/

theorem white_eq (c : UInt8) : Syntax.isWhite c = isGapByte c := rfl
theorem digit_eq (c : UInt8) : Syntax.isDigit c = Lexer.isDigit c := rfl

theorem eol_facts : ∀ c : UInt8, (isEOL c == (c == 10 || c == 13)) = true := forall_byte _ (by decide +kernel)

theorem reg_facts : ∀ c : UInt8,
    ((!Lexer.isDigit c || Syntax.isRegular c) && (!isAlpha c || Syntax.isRegular c) &&
     (!isDW c || !Syntax.isRegular c) && (Syntax.isDelim c || isGapByte c) == isDW c) = true :=
  forall_byte _ (by decide +kernel)

theorem digit_regular (c : UInt8) (h : Lexer.isDigit c = true) : Syntax.isRegular c = true := by
  have := reg_facts c; simp [h] at this; exact this.1.1.1
theorem alpha_regular (c : UInt8) (h : isAlpha c = true) : Syntax.isRegular c = true := by
  have := reg_facts c; simp [h] at this; exact this.1.1.2
theorem dw_not_regular (c : UInt8) (h : isDW c = true) : Syntax.isRegular c = false := by
  have := reg_facts c; simp [h] at this; exact this.1.2

/-! ### white space and comments -/

theorem skip_sepItem (i : SepItem) (hi : i.ok) (rest : Bytes) :
    Syntax.skipWsC false (i.render ++ rest) = Syntax.skipWsC false rest := by
  cases i with
  | ws c =>
    simp only [SepItem.ok] at hi
    simp [SepItem.render, Syntax.skipWsC, white_eq, hi]
  | comment body eol =>
    obtain ⟨hbody, heol⟩ := hi
    have hnw : Syntax.isWhite 37 = false := by decide
    have hc : ∀ (b : Bytes), (∀ x ∈ b, isEOL x = false) →
        Syntax.skipWsC true (b ++ eol :: rest) = Syntax.skipWsC false rest := by
      intro b hb
      induction b with
      | nil =>
        rcases heol with rfl | rfl <;> simp [Syntax.skipWsC]
      | cons x t ih =>
        have hx := hb x (by simp)
        have he := eol_facts x
        simp only [hx, beq_iff_eq] at he
        have hx' : (x == 10 || x == 13) = false := he.symm
        simp only [List.cons_append, Syntax.skipWsC, hx', Bool.false_eq_true, if_false]
        exact ih (fun y hy => hb y (by simp [hy]))
    simp only [SepItem.render, List.cons_append, Syntax.skipWsC, hnw, Bool.false_eq_true, if_false, beq_self_eq_true,
      if_true, List.append_assoc]
    exact hc body hbody

theorem skip_sep : ∀ (g : List SepItem), sepOK g → ∀ rest,
    Syntax.skipWsAll (renderSep g ++ rest) = Syntax.skipWsAll rest
  | [], _, rest => by simp [renderSep]
  | i :: r, hg, rest => by
    simp only [renderSep, List.append_assoc, Syntax.skipWsAll]
    rw [skip_sepItem i (hg i (by simp))]
    exact skip_sep r (fun x hx => hg x (by simp [hx])) rest

/-- nothing to skip in front of a byte that is neither white space nor `%` -/
theorem skip_stop (c : UInt8) (t : Bytes) (hw : Syntax.isWhite c = false) (hp : c ≠ 37) :
    Syntax.skipWsAll (c :: t) = c :: t := by
  have : (c == 37) = false := by simpa using hp
  simp [Syntax.skipWsAll, Syntax.skipWsC, hw, this]

theorem skip_nil : Syntax.skipWsAll [] = [] := rfl

/-! ### runs of regular characters -/

theorem takeRegular_run : ∀ (run rest : Bytes), (∀ c ∈ run, Syntax.isRegular c = true) →
    (rest.headD 32 |> Syntax.isRegular) = false → Syntax.takeRegular (run ++ rest) = (run, rest)
  | [], rest, _, hr => by
    cases rest with
    | nil => rfl
    | cons c t => simp at hr; simp [Syntax.takeRegular, hr]
  | c :: t, rest, h, hr => by
    have hc := h c (by simp)
    simp only [List.cons_append, Syntax.takeRegular, hc, if_true]
    rw [takeRegular_run t rest (fun x hx => h x (by simp [hx])) hr]

/-! ### numbers -/

theorem decimal_eq (ds : Bytes) : Syntax.decimalNat ds = Lexer.decimalNat ds := rfl

theorem all_digits_take (ds : Bytes) (hd : ∀ c ∈ ds, Lexer.isDigit c = true) :
    ds.takeWhile Syntax.isDigit = ds ∧ ds.dropWhile Syntax.isDigit = [] := by
  induction ds with
  | nil => simp
  | cons c t ih =>
    have hc : Syntax.isDigit c = true := hd c (by simp)
    have := ih (fun x hx => hd x (by simp [hx]))
    simp [List.takeWhile, List.dropWhile, hc, this.1, this.2]

/-- the rational a real spelling denotes -/
def realRat (sign ip fp : Bytes) : Rat :=
  let q : Rat := ((Lexer.decimalNat (ip ++ fp) : Nat) : Int) / ((10 ^ fp.length : Nat) : Rat)
  if sign = [45] then -q else q

theorem first_digit_not_sign (c : UInt8) (h : Lexer.isDigit c = true) : c ≠ 45 ∧ c ≠ 43 := by
  constructor <;> (intro e; subst e; revert h; decide)

theorem splitSign_plain (c : UInt8) (t : Bytes) (h45 : c ≠ 45) (h43 : c ≠ 43) :
    Syntax.splitSign (c :: t) = (false, c :: t) := by
  unfold Syntax.splitSign
  split
  · rename_i heq; simp at heq; exact absurd heq.1 h45
  · rename_i heq; simp at heq; exact absurd heq.1 h43
  · rfl

theorem parseNumber_int (sign ds : Bytes) (hs : signOK sign) (hne : ds ≠ [])
    (hd : ∀ c ∈ ds, Lexer.isDigit c = true) :
    Syntax.parseNumber (sign ++ ds) = some (.int (intValue sign ds)) := by
  have ht := all_digits_take ds hd
  have hemp : ds.isEmpty = false := by cases ds <;> simp_all
  have hsp : Syntax.splitSign (sign ++ ds) = (sign == [45], ds) := by
    rcases hs with rfl | rfl | rfl
    · cases ds with
      | nil => exact absurd rfl hne
      | cons c t =>
        have hc := first_digit_not_sign c (hd c (by simp))
        simpa using splitSign_plain c t hc.1 hc.2
    · rfl
    · rfl
  simp only [Syntax.parseNumber, hsp, ht.1, ht.2, hemp, Bool.false_eq_true, if_false]
  rcases hs with rfl | rfl | rfl <;> simp [intValue, decimal_eq]

theorem digits_dot_take (ip fp : Bytes) (hip : ∀ c ∈ ip, Lexer.isDigit c = true) :
    (ip ++ 46 :: fp).takeWhile Syntax.isDigit = ip ∧ (ip ++ 46 :: fp).dropWhile Syntax.isDigit = 46 :: fp := by
  have d46 : Syntax.isDigit 46 = false := by decide
  induction ip with
  | nil => simp [List.takeWhile, List.dropWhile, d46]
  | cons c t ih =>
    have hc : Syntax.isDigit c = true := hip c (by simp)
    have := ih (fun x hx => hip x (by simp [hx]))
    simp [List.takeWhile, List.dropWhile, hc, this.1, this.2]

theorem parseNumber_real (sign ip fp : Bytes) (hs : signOK sign) (hip : ∀ c ∈ ip, Lexer.isDigit c = true)
    (hfp : ∀ c ∈ fp, Lexer.isDigit c = true) (hne : ¬ (ip = [] ∧ fp = [])) :
    Syntax.parseNumber (sign ++ ip ++ 46 :: fp) = some (.real (realRat sign ip fp)) := by
  have ht := digits_dot_take ip fp hip
  have hall : fp.all Syntax.isDigit = true := List.all_eq_true.mpr hfp
  have hnon : (ip.isEmpty && fp.isEmpty) = false := by
    cases ip with
    | nil => cases fp with
      | nil => simp at hne
      | cons _ _ => simp
    | cons _ _ => simp
  have hsp : Syntax.splitSign (sign ++ ip ++ 46 :: fp) = (sign == [45], ip ++ 46 :: fp) := by
    rcases hs with rfl | rfl | rfl
    · cases ip with
      | nil => simpa using splitSign_plain 46 fp (by decide) (by decide)
      | cons c t =>
        have hc := first_digit_not_sign c (hip c (by simp))
        simpa using splitSign_plain c (t ++ 46 :: fp) hc.1 hc.2
    · rfl
    · rfl
  simp only [Syntax.parseNumber, hsp, ht.1, ht.2, hall, hnon, Bool.true_and, Bool.not_false, if_true]
  rcases hs with rfl | rfl | rfl <;> simp [realRat, decimal_eq]

/-! ### names -/

theorem nameRaw_spec : ∀ c : UInt8,
    (!nameRaw c || (!Syntax.isWhite c && !Syntax.isDelim c && c != 35 && decide (33 ≤ c) && decide (c ≤ 126))) = true :=
  forall_byte _ (by decide +kernel)

theorem hex_spec : ∀ c : UInt8, (!isHEX c || (Syntax.hexNibble c == some (hexCharVal c))) = true :=
  forall_byte _ (by decide +kernel)

theorem hexNibble_of (c : UInt8) (h : isHEX c = true) : Syntax.hexNibble c = some (hexCharVal c) := by
  have := hex_spec c; simpa [h] using this

theorem parseName_items : ∀ (items : List NameItem) (rest : Bytes), nameOK items →
    isDW (rest.headD 32) = true →
    Syntax.parseNameBody (renderName items ++ rest) = some (nameValue items, rest)
  | [], rest, _, hr => by
    cases rest with
    | nil => rfl
    | cons c t =>
      simp only [List.headD_cons] at hr
      have h2 := reg_facts c
      simp only [Bool.and_eq_true, beq_iff_eq] at h2
      have hwd : (Syntax.isWhite c || Syntax.isDelim c) = true := by
        have := h2.2; rw [hr] at this; rw [white_eq, Bool.or_comm]; exact this
      simp only [renderName, List.nil_append, nameValue]
      unfold Syntax.parseNameBody
      simp [hwd]
  | .raw c :: r, rest, h, hr => by
    have hc := (h (.raw c) (by simp)).1
    simp only [NameItem.ok] at hc
    have hf := nameRaw_spec c
    simp only [hc, Bool.not_true, Bool.false_or, Bool.and_eq_true, Bool.not_eq_true', bne_iff_ne, ne_eq,
      decide_eq_true_eq] at hf
    obtain ⟨⟨⟨⟨hw, hdl⟩, h35⟩, h33⟩, h126⟩ := hf
    have h35' : (c == 35) = false := by simpa using h35
    have ih := parseName_items r rest (fun i hi => h i (by simp [hi])) hr
    simp only [renderName, NameItem.render, List.cons_append, List.nil_append, nameValue, NameItem.value]
    unfold Syntax.parseNameBody
    simp [hw, hdl, h35', h33, h126, ih]
  | .esc hh ll :: r, rest, h, hr => by
    have hc := h (.esc hh ll) (by simp)
    simp only [NameItem.ok, NameItem.nonzero] at hc
    obtain ⟨⟨h1, h2⟩, hnz⟩ := hc
    have ih := parseName_items r rest (fun i hi => h i (by simp [hi])) hr
    have hw : (Syntax.isWhite 35 || Syntax.isDelim 35) = false := by decide
    have hnz' : (hexCharVal hh * 16 + hexCharVal ll == 0) = false := by simpa using hnz
    simp only [renderName, NameItem.render, List.cons_append, List.nil_append, nameValue, NameItem.value]
    unfold Syntax.parseNameBody
    simp [hw, hexNibble_of hh h1, hexNibble_of ll h2, hnz', ih]

/-! ### hexadecimal strings -/

theorem hexws_spec : ∀ c : UInt8, (!(isHEX c || isGapByte c) || ((isSPC c == isGapByte c) && c != 62 &&
    (!isHEX c || !isGapByte c))) = true :=
  forall_byte _ (by decide +kernel)

/-- digit pairs with a pending high nibble -/
def pairFrom : Option Nat → Bytes → Bytes
  | none, ds => pairUp ds
  | some hi, [] => [UInt8.ofNat (hi * 16)]
  | some hi, d :: ds => UInt8.ofNat (hi * 16 + hexCharVal d) :: pairUp ds

theorem pairUp_cons (d : UInt8) (ds : Bytes) : pairUp (d :: ds) = pairFrom (some (hexCharVal d)) ds := by
  cases ds <;> simp [pairUp, pairFrom]

theorem parseHex_body : ∀ (body : Bytes) (p : Option Nat) (rest : Bytes),
    (∀ c ∈ body, isHEX c = true ∨ isGapByte c = true) →
    Syntax.parseHexBody p (body ++ 62 :: rest) = some (pairFrom p (body.filter (fun c => !isGapByte c)), rest)
  | [], p, rest, _ => by
    cases p <;> simp [Syntax.parseHexBody, pairFrom, pairUp]
  | c :: t, p, rest, h => by
    have hc := h c (by simp)
    have hf := hexws_spec c
    have hor : (isHEX c || isGapByte c) = true := by rcases hc with h | h <;> simp [h]
    simp only [hor, Bool.not_true, Bool.false_or, Bool.and_eq_true, bne_iff_ne, ne_eq, beq_iff_eq] at hf
    obtain ⟨⟨_, h62⟩, hex_or⟩ := hf
    have h62' : (c == 62) = false := by simpa using h62
    have ih := fun p' => parseHex_body t p' rest (fun x hx => h x (by simp [hx]))
    by_cases hg : isGapByte c = true
    · simp [Syntax.parseHexBody, h62', white_eq, hg, ih]
    · have hg' : isGapByte c = false := by simpa using hg
      have hx : isHEX c = true := by rcases hc with h | h; exact h; simp [hg'] at h
      cases p with
      | none =>
        simp [Syntax.parseHexBody, h62', white_eq, hg', hexNibble_of c hx, ih, pairFrom, pairUp_cons]
      | some hi =>
        simp [Syntax.parseHexBody, h62', white_eq, hg', hexNibble_of c hx, ih, pairFrom]

/-- on a body of hex digits and ISO white space the lexer's stripping (`SPC`) and the ISO one agree -/
theorem hexDigits_eq (body : Bytes) (h : ∀ c ∈ body, isHEX c = true ∨ isGapByte c = true) :
    hexDigitsOf body = body.filter (fun c => !isGapByte c) := by
  unfold hexDigitsOf
  apply List.filter_congr
  intro c hc
  have hf := hexws_spec c
  have hor : (isHEX c || isGapByte c) = true := by rcases h c hc with h | h <;> simp [h]
  simp only [hor, Bool.not_true, Bool.false_or, Bool.and_eq_true, beq_iff_eq] at hf
  rw [hf.1.1]

/-! ### literal strings -/

theorem str_spec : ∀ c : UInt8,
    ((escLookup c == Syntax.escapeLetter c) && (isOCT_STRING c == Syntax.isOctal c) &&
     (isEND_STRING c == (c == 40 || c == 41 || c == 92)) &&
     (!isOCT_STRING c || (digitVal c == some (c.toNat - 48) && decide (c.toNat - 48 < 8))) &&
     (!(escLookup c).isSome || !isOCT_STRING c)) = true :=
  forall_byte _ (by decide +kernel)

theorem esc_eq (c : UInt8) : Syntax.escapeLetter c = escLookup c := by
  have := str_spec c; simp only [Bool.and_eq_true, beq_iff_eq] at this; exact this.1.1.1.1.symm
theorem oct_eq (c : UInt8) : Syntax.isOctal c = isOCT_STRING c := by
  have := str_spec c; simp only [Bool.and_eq_true, beq_iff_eq] at this; exact this.1.1.1.2.symm
theorem oct_val (c : UInt8) (h : isOCT_STRING c = true) : digitVal c = some (c.toNat - 48) ∧ c.toNat - 48 < 8 := by
  have := str_spec c
  simp only [Bool.and_eq_true, beq_iff_eq, h, Bool.not_true, Bool.false_or, decide_eq_true_eq] at this
  exact this.1.2
theorem endstring_eq (c : UInt8) : isEND_STRING c = (c == 40 || c == 41 || c == 92) := by
  have := str_spec c; simp only [Bool.and_eq_true, beq_iff_eq] at this; exact this.1.1.2

theorem octByte1 (a : UInt8) (ha : isOCT_STRING a = true) : octByte [a] = UInt8.ofNat ((a.toNat - 48) % 256) := by
  have h := oct_val a ha
  have e : natOfDigits 8 [a] 0 = some (a.toNat - 48) := by
    simp only [natOfDigits, h.1, h.2, if_true, Nat.zero_mul, Nat.zero_add]
  unfold octByte; rw [e]; rfl
theorem octByte2 (a b : UInt8) (ha : isOCT_STRING a = true) (hb : isOCT_STRING b = true) :
    octByte [a, b] = UInt8.ofNat (((a.toNat - 48) * 8 + (b.toNat - 48)) % 256) := by
  have h1 := oct_val a ha; have h2 := oct_val b hb
  have e : natOfDigits 8 [a, b] 0 = some ((a.toNat - 48) * 8 + (b.toNat - 48)) := by
    simp only [natOfDigits, h1.1, h1.2, h2.1, h2.2, if_true, Nat.zero_mul, Nat.zero_add]
  unfold octByte; rw [e]; rfl
theorem octByte3 (a b c : UInt8) (ha : isOCT_STRING a = true) (hb : isOCT_STRING b = true) (hc : isOCT_STRING c = true) :
    octByte [a, b, c] = UInt8.ofNat (((a.toNat - 48) * 64 + (b.toNat - 48) * 8 + (c.toNat - 48)) % 256) := by
  have h1 := oct_val a ha; have h2 := oct_val b hb; have h3 := oct_val c hc
  have e : natOfDigits 8 [a, b, c] 0 = some (((a.toNat - 48) * 8 + (b.toNat - 48)) * 8 + (c.toNat - 48)) := by
    simp only [natOfDigits, h1.1, h1.2, h2.1, h2.2, h3.1, h3.2, if_true, Nat.zero_mul, Nat.zero_add]
  have e2 : ((a.toNat - 48) * 8 + (b.toNat - 48)) * 8 + (c.toNat - 48)
      = (a.toNat - 48) * 64 + (b.toNat - 48) * 8 + (c.toNat - 48) := by omega
  unfold octByte; rw [e, e2]; rfl

/-- one item of a literal string's body is read by one call of `parseLitBody` -/
theorem lit_step (i : StrItem) (hi : i.ok) (x : UInt8) (tl : Bytes) (hn : i.nextOK x) (f d d' : Nat)
    (hd : depthAfter d [i] = some d') :
    Syntax.parseLitBody (f + 1) d (i.render ++ x :: tl) =
      (fun r => (i.value ++ r.1, r.2)) <$> Syntax.parseLitBody f d' (x :: tl) := by
  cases i with
  | raw c =>
    simp only [StrItem.ok] at hi
    simp only [depthAfter, Option.some.injEq] at hd; subst hd
    have he := endstring_eq c
    rw [hi.1] at he
    have he' : (c == 40 || c == 41 || c == 92) = false := he.symm
    simp only [Bool.or_eq_false_iff] at he'
    obtain ⟨⟨h40, h41⟩, h92⟩ := he'
    have h13 : (c == 13) = false := by simpa using hi.2
    simp [StrItem.render, StrItem.value, Syntax.parseLitBody, h41, h40, h92, h13]
  | esc e =>
    simp only [StrItem.ok] at hi
    simp only [depthAfter, Option.some.injEq] at hd; subst hd
    obtain ⟨v, hv⟩ := Option.isSome_iff_exists.mp hi
    simp [StrItem.render, StrItem.value, Syntax.parseLitBody, esc_eq, hv]
  | oct1 a =>
    simp only [StrItem.ok] at hi
    simp only [depthAfter, Option.some.injEq] at hd; subst hd
    simp only [StrItem.nextOK] at hn
    have hne : escLookup a = none := by
      have := str_spec a; simp only [Bool.and_eq_true, hi, Bool.not_true, Bool.or_false, Bool.not_eq_true'] at this
      cases h : escLookup a <;> simp_all
    have hx : Syntax.isOctal x = false := by rw [oct_eq]; exact hn
    simp [StrItem.render, StrItem.value, Syntax.parseLitBody, esc_eq, hne, oct_eq, hi, Syntax.takeOctal, hn,
      octByte1 a hi]
  | oct2 a b =>
    simp only [StrItem.ok] at hi
    simp only [depthAfter, Option.some.injEq] at hd; subst hd
    simp only [StrItem.nextOK] at hn
    have hne : escLookup a = none := by
      have := str_spec a; simp only [Bool.and_eq_true, hi.1, Bool.not_true, Bool.or_false, Bool.not_eq_true'] at this
      cases h : escLookup a <;> simp_all
    have hx : Syntax.isOctal x = false := by rw [oct_eq]; exact hn
    simp [StrItem.render, StrItem.value, Syntax.parseLitBody, esc_eq, hne, oct_eq, hi.1, hi.2, Syntax.takeOctal, hn,
      octByte2 a b hi.1 hi.2]
  | oct3 a b c =>
    simp only [StrItem.ok] at hi
    simp only [depthAfter, Option.some.injEq] at hd; subst hd
    have hne : escLookup a = none := by
      have := str_spec a; simp only [Bool.and_eq_true, hi.1, Bool.not_true, Bool.or_false, Bool.not_eq_true'] at this
      cases h : escLookup a <;> simp_all
    simp [StrItem.render, StrItem.value, Syntax.parseLitBody, esc_eq, hne, oct_eq, hi.1, hi.2.1, hi.2.2,
      Syntax.takeOctal, octByte3 a b c hi.1 hi.2.1 hi.2.2]
  | cont e =>
    simp only [depthAfter, Option.some.injEq] at hd; subst hd
    have hf := string_byte_facts
    simp only [Bool.and_eq_true, Bool.not_eq_true'] at hf
    have o10 : isOCT_STRING 10 = false := hf.1.1.1.1.2
    have o13 : isOCT_STRING 13 = false := hf.1.1.1.2
    cases e with
    | lf => simp [StrItem.render, StrItem.value, Syntax.parseLitBody, esc_eq, esc_eol_facts.1, oct_eq, o10]
    | cr =>
      simp only [StrItem.nextOK] at hn
      have hx : x ≠ 10 := hn
      simp only [StrItem.render, StrItem.value, List.cons_append, List.nil_append, Syntax.parseLitBody]
      simp [esc_eq, esc_eol_facts.2, oct_eq, o13]
      split
      · rename_i heq; simp at heq; exact absurd heq.1 hx
      · rfl
    | crlf => simp [StrItem.render, StrItem.value, Syntax.parseLitBody, esc_eq, esc_eol_facts.2, oct_eq, o13]
  | ign c =>
    simp only [StrItem.ok] at hi
    simp only [depthAfter, Option.some.injEq] at hd; subst hd
    obtain ⟨h1, h2, h3, h4⟩ := hi
    have h3' : (c == 13) = false := by simpa using h3
    have h4' : (c == 10) = false := by simpa using h4
    simp [StrItem.render, StrItem.value, Syntax.parseLitBody, esc_eq, h2, oct_eq, h1, h3', h4']
  | popen =>
    simp only [depthAfter, Option.some.injEq] at hd; subst hd
    simp [StrItem.render, StrItem.value, Syntax.parseLitBody]
  | pclose =>
    cases d with
    | zero => simp [depthAfter] at hd
    | succ k =>
      simp only [depthAfter, Option.some.injEq] at hd; subst hd
      simp [StrItem.render, StrItem.value, Syntax.parseLitBody]

theorem lit_items : ∀ (items : List StrItem) (f d : Nat) (rest : Bytes),
    (∀ i ∈ items, i.ok) → chainOK items → depthAfter d items = some 0 → items.length < f →
    Syntax.parseLitBody f d (renderStr items ++ 41 :: rest) = some (strValue items, rest)
  | [], f, d, rest, _, _, hd, hf => by
    simp only [depthAfter, Option.some.injEq] at hd; subst hd
    cases f with
    | zero => simp at hf
    | succ f' => simp [renderStr, strValue, Syntax.parseLitBody]
  | i :: r, f, d, rest, hok, hch, hd, hf => by
    cases f with
    | zero => simp at hf
    | succ f' =>
      rw [depthAfter_cons] at hd
      cases hd1 : depthAfter d [i] with
      | none => simp [hd1] at hd
      | some d1 =>
        simp only [hd1, Option.bind_some] at hd
        have hr : chainOK r := by
          cases r with
          | nil => trivial
          | cons j r' => simp only [chainOK] at hch; exact hch.2
        have ih := lit_items r f' d1 rest (fun j hj => hok j (by simp [hj])) hr hd (by simp at hf; omega)
        -- the byte after `i`
        obtain ⟨x, tl, hx, hnx⟩ : ∃ x tl, renderStr r ++ 41 :: rest = x :: tl ∧ i.nextOK x := by
          cases r with
          | nil => exact ⟨41, rest, by simp [renderStr], by simpa [chainOK] using hch⟩
          | cons j r' =>
            obtain ⟨c, t0, hj⟩ := render_ne j
            simp only [chainOK] at hch
            refine ⟨c, t0 ++ (renderStr r' ++ 41 :: rest), by simp [renderStr, hj], ?_⟩
            have := hch.1; rw [hj] at this; simpa using this
        have e : renderStr (i :: r) ++ 41 :: rest = i.render ++ x :: tl := by
          simp only [renderStr, List.append_assoc]; rw [hx]
        rw [e, lit_step i (hok i (by simp)) x tl hnx f' d d1 hd1, ← hx, ih]
        simp [strValue]

/-! ### trees -/

mutual
/-- the ISO value of a spelled tree, in the spec's own `Obj` -/
def specValue : STree → Syntax.Obj
  | .null _ => .null
  | .bool b _ => .bool b
  | .int sign ds _ => .int (intValue sign ds)
  | .real sign ip fp _ => .real (realRat sign ip fp)
  | .name items _ => .name (nameValue items)
  | .str items _ => .str (strValue items)
  | .hex body _ => .str (pairUp (hexDigitsOf body))
  | .ref ds _ _ _ _ => .ref (Lexer.decimalNat ds)
  | .arr _ items _ => .arr (specList items)
  | .dict _ es _ => .dict (specEntries es)
def specList : List STree → List Syntax.Obj
  | [] => []
  | t :: r => specValue t :: specList r
def specEntries : List (List NameItem × List SepItem × STree) → List (Bytes × Syntax.Obj)
  | [] => []
  | (k, _, v) :: r => (nameValue k, specValue v) :: specEntries r
end

/-- the spelling without its trailing separator -/
def coreOf : STree → Bytes
  | .null _ => wNull
  | .bool b _ => if b then kwTrue else kwFalse
  | .int sign ds _ => sign ++ ds
  | .real sign ip fp _ => sign ++ ip ++ 46 :: fp
  | .name items _ => 47 :: renderName items
  | .str items _ => 40 :: (renderStr items ++ [41])
  | .hex body _ => 60 :: (body ++ [62])
  | .ref ds g1 gs g2 _ => (ds ++ renderSep g1) ++ ((gs ++ renderSep g2) ++ [82])
  | .arr g0 items _ => ([91] ++ renderSep g0) ++ (bytesList items ++ [93])
  | .dict g0 es _ => ([60, 60] ++ renderSep g0) ++ (bytesEntries es ++ [62, 62])

def trailOf : STree → List SepItem
  | .null g => g
  | .bool _ g => g
  | .int _ _ g => g
  | .real _ _ _ g => g
  | .name _ g => g
  | .str _ g => g
  | .hex _ g => g
  | .ref _ _ _ _ g3 => g3
  | .arr _ _ g1 => g1
  | .dict _ _ g1 => g1

theorem bytesOf_core (t : STree) : bytesOf t = coreOf t ++ renderSep (trailOf t) := by
  cases t <;> simp [bytesOf, coreOf, trailOf]

theorem trail_ok {e : Bool} (t : STree) (h : wfE e t) : sepOK (trailOf t) := by
  cases t <;> simp only [wfE] at h <;> simp only [trailOf]
  · exact h
  · exact h
  · exact h.2.2
  · exact h.2.2.2.2
  · exact h.2
  · exact h.2.2.2
  · exact h.2.2
  · exact h.2.2.2.2.2.2
  · exact h.2.2
  · exact h.2.2.1

/-- does the core end in a run of regular characters? -/
def coreReg : STree → Bool
  | .null _ => true
  | .bool _ _ => true
  | .int _ _ _ => true
  | .real _ _ _ _ => true
  | .name _ _ => true
  | .ref _ _ _ _ _ => true
  | _ => false

theorem endsReg_eq (t : STree) : endsReg t = (coreReg t && (trailOf t).isEmpty) := by
  cases t <;> simp [endsReg, coreReg, trailOf]

/-! ### `parseObj` on single tokens -/

theorem regular_not_delim : ∀ c : UInt8,
    (!Syntax.isRegular c || (c != 40 && c != 47 && c != 91 && c != 60 && c != 37 && !Syntax.isWhite c)) = true :=
  forall_byte _ (by decide +kernel)

theorem po_regular (c : UInt8) (t rest : Bytes) (f : Nat) (hrun : ∀ x ∈ c :: t, Syntax.isRegular x = true)
    (hrest : Syntax.isRegular (rest.headD 32) = false) :
    Syntax.parseObj (f + 1) ((c :: t) ++ rest) = Syntax.regObj (c :: t) rest := by
  have hc := hrun c (by simp)
  have hf := regular_not_delim c
  simp only [hc, Bool.not_true, Bool.false_or, Bool.and_eq_true, bne_iff_ne, ne_eq] at hf
  obtain ⟨⟨⟨⟨⟨h40, h47⟩, h91⟩, h60⟩, _⟩, _⟩ := hf
  have htr := takeRegular_run (c :: t) rest hrun hrest
  simp only [List.cons_append] at htr ⊢
  unfold Syntax.parseObj
  split
  · rename_i heq; simp at heq
  · rename_i heq; simp at heq; exact absurd heq.1 h40
  · rename_i heq; simp at heq; exact absurd heq.1 h47
  · rename_i heq; simp at heq; exact absurd heq.1 h91
  · rename_i heq; simp at heq; exact absurd heq.1 h60
  · rename_i heq; simp at heq; exact absurd heq.1 h60
  · rename_i c' t' _ _ _ _ _ heq
    simp only [List.cons.injEq] at heq
    obtain ⟨rfl, rfl⟩ := heq
    simp only [hc, Bool.not_true, Bool.false_eq_true, if_false, htr]

theorem not_kw (c : UInt8) (t : Bytes) (h1 : c ≠ 110) (h2 : c ≠ 116) (h3 : c ≠ 102) :
    ((c :: t) == Syntax.kwNull) = false ∧ ((c :: t) == Syntax.kwTrue) = false ∧ ((c :: t) == Syntax.kwFalse) = false := by
  simp [Syntax.kwNull, Syntax.kwTrue, Syntax.kwFalse, h1, h2, h3]

theorem num_head (c : UInt8) (h : Lexer.isDigit c = true ∨ c = 43 ∨ c = 45 ∨ c = 46) :
    c ≠ 110 ∧ c ≠ 116 ∧ c ≠ 102 := by
  rcases h with h | rfl | rfl | rfl
  · refine ⟨?_, ?_, ?_⟩ <;> (intro e; subst e; revert h; decide)
  · decide
  · decide
  · decide

theorem regObj_null (rest : Bytes) : Syntax.regObj wNull rest = some (.null, rest) := by
  simp [Syntax.regObj, wNull, Syntax.kwNull]
theorem regObj_true (rest : Bytes) : Syntax.regObj kwTrue rest = some (.bool true, rest) := by
  simp [Syntax.regObj, kwTrue, Syntax.kwNull, Syntax.kwTrue]
theorem regObj_false (rest : Bytes) : Syntax.regObj kwFalse rest = some (.bool false, rest) := by
  simp [Syntax.regObj, kwFalse, Syntax.kwNull, Syntax.kwTrue, Syntax.kwFalse]

theorem unsignedInt_digits (ds : Bytes) (hne : ds ≠ []) (hd : ∀ c ∈ ds, Lexer.isDigit c = true) :
    Syntax.unsignedInt ds = some (Lexer.decimalNat ds) := by
  have hall : ds.all Syntax.isDigit = true := List.all_eq_true.mpr hd
  have hemp : ds.isEmpty = false := by cases ds <;> simp_all
  simp [Syntax.unsignedInt, hall, hemp, decimal_eq]

theorem unsignedInt_nondigit (run : Bytes) (x : UInt8) (hx : x ∈ run) (hnd : Lexer.isDigit x = false) :
    Syntax.unsignedInt run = none := by
  have : run.all Syntax.isDigit = false := by
    rw [List.all_eq_false]
    exact ⟨x, hx, by simpa [digit_eq] using hnd⟩
  simp [Syntax.unsignedInt, this]

/-- an integer that is not the start of `n g R` -/
theorem regObj_int (sign ds rest : Bytes) (hs : signOK sign) (hne : ds ≠ []) (hd : ∀ c ∈ ds, Lexer.isDigit c = true)
    (hnr : sign = [] → Syntax.parseRefTail rest = none) :
    Syntax.regObj (sign ++ ds) rest = some (.int (intValue sign ds), rest) := by
  obtain ⟨c, t, hct, hc⟩ : ∃ c t, sign ++ ds = c :: t ∧ (Lexer.isDigit c = true ∨ c = 43 ∨ c = 45 ∨ c = 46) := by
    rcases hs with rfl | rfl | rfl
    · cases ds with
      | nil => exact absurd rfl hne
      | cons c t => exact ⟨c, t, rfl, Or.inl (hd c (by simp))⟩
    · exact ⟨43, ds, rfl, Or.inr (Or.inl rfl)⟩
    · exact ⟨45, ds, rfl, Or.inr (Or.inr (Or.inl rfl))⟩
  have hk := num_head c hc
  have hnk := not_kw c t hk.1 hk.2.1 hk.2.2
  have hpn := parseNumber_int sign ds hs hne hd
  rw [hct] at hpn
  simp only [Syntax.regObj, hct, hnk.1, hnk.2.1, hnk.2.2, Bool.false_eq_true, if_false]
  rcases hs with rfl | rfl | rfl
  · have hu := unsignedInt_digits ds hne hd
    simp only [List.nil_append] at hct
    rw [← hct, hu, hnr rfl]
    simp
    exact parseNumber_int [] ds (Or.inl rfl) hne hd
  · have hu : Syntax.unsignedInt (c :: t) = none := by
      rw [← hct]; exact unsignedInt_nondigit _ 43 (by simp) (by decide)
    simp [hu, hpn]
  · have hu : Syntax.unsignedInt (c :: t) = none := by
      rw [← hct]; exact unsignedInt_nondigit _ 45 (by simp) (by decide)
    simp [hu, hpn]

theorem regObj_real (sign ip fp rest : Bytes) (hs : signOK sign) (hip : ∀ c ∈ ip, Lexer.isDigit c = true)
    (hfp : ∀ c ∈ fp, Lexer.isDigit c = true) (hne : ¬ (ip = [] ∧ fp = [])) :
    Syntax.regObj (sign ++ ip ++ 46 :: fp) rest = some (.real (realRat sign ip fp), rest) := by
  obtain ⟨c, t, hct, hc⟩ : ∃ c t, sign ++ ip ++ 46 :: fp = c :: t ∧ (Lexer.isDigit c = true ∨ c = 43 ∨ c = 45 ∨ c = 46) := by
    rcases hs with rfl | rfl | rfl
    · cases ip with
      | nil => exact ⟨46, fp, rfl, Or.inr (Or.inr (Or.inr rfl))⟩
      | cons c t => exact ⟨c, t ++ 46 :: fp, rfl, Or.inl (hip c (by simp))⟩
    · exact ⟨43, ip ++ 46 :: fp, rfl, Or.inr (Or.inl rfl)⟩
    · exact ⟨45, ip ++ 46 :: fp, rfl, Or.inr (Or.inr (Or.inl rfl))⟩
  have hk := num_head c hc
  have hnk := not_kw c t hk.1 hk.2.1 hk.2.2
  have hpn := parseNumber_real sign ip fp hs hip hfp hne
  have hu : Syntax.unsignedInt (sign ++ ip ++ 46 :: fp) = none :=
    unsignedInt_nondigit _ 46 (by simp) (by decide)
  rw [hct] at hpn hu
  simp [Syntax.regObj, hct, hnk.1, hnk.2.1, hnk.2.2, hu, hpn]

/-! ### `n g R` and integers that are not the start of a reference -/

theorem renderSep_pos (g : List SepItem) (hne : g ≠ []) : 0 < (renderSep g).length := by
  cases g with
  | nil => exact absurd rfl hne
  | cons i r => cases i <;> simp [renderSep, SepItem.render]

theorem sep_head_nonreg (g : List SepItem) (hg : sepOK g) (hne : g ≠ []) (rest : Bytes) :
    Syntax.isRegular ((renderSep g ++ rest).headD 32) = false := by
  have h := sep_head_dw g hg hne rest
  have e : (renderSep g ++ rest).headD 32 = (renderSep g ++ rest).headD 0 := by
    have := renderSep_pos g hne
    cases hh : renderSep g ++ rest with
    | nil => have h2 := congrArg List.length hh; simp only [List.length_append, List.length_nil] at h2; omega
    | cons _ _ => rfl
  rw [e]; exact dw_not_regular _ h

theorem digit_head_skip (c : UInt8) (t : Bytes) (hr : Syntax.isRegular c = true) :
    Syntax.skipWsAll (c :: t) = c :: t := by
  have hf := regular_not_delim c
  simp only [hr, Bool.not_true, Bool.false_or, Bool.and_eq_true, bne_iff_ne, ne_eq, Bool.not_eq_true'] at hf
  exact skip_stop c t hf.2 hf.1.2

theorem refTail_ok (g1 : List SepItem) (gs : Bytes) (g2 : List SepItem) (rest : Bytes)
    (hg1 : sepOK g1) (hg1n : g1 ≠ []) (hne : gs ≠ []) (hd : ∀ c ∈ gs, Lexer.isDigit c = true)
    (hg2 : sepOK g2) (hg2n : g2 ≠ []) (hrest : Syntax.isRegular (rest.headD 32) = false) :
    Syntax.parseRefTail (renderSep g1 ++ (gs ++ (renderSep g2 ++ 82 :: rest))) = some rest := by
  obtain ⟨c, t, hct⟩ : ∃ c t, gs = c :: t := by cases gs with
    | nil => exact absurd rfl hne
    | cons c t => exact ⟨c, t, rfl⟩
  have hcr : Syntax.isRegular c = true := digit_regular c (hd c (by simp [hct]))
  have s1 : Syntax.skipWsAll (renderSep g1 ++ (gs ++ (renderSep g2 ++ 82 :: rest))) = gs ++ (renderSep g2 ++ 82 :: rest) := by
    rw [skip_sep g1 hg1, hct]; exact digit_head_skip c _ hcr
  have t1 : Syntax.takeRegular (gs ++ (renderSep g2 ++ 82 :: rest)) = (gs, renderSep g2 ++ 82 :: rest) :=
    takeRegular_run gs _ (fun x hx => digit_regular x (hd x hx)) (sep_head_nonreg g2 hg2 hg2n _)
  have s2 : Syntax.skipWsAll (renderSep g2 ++ 82 :: rest) = 82 :: rest := by
    rw [skip_sep g2 hg2]; exact digit_head_skip 82 _ (by decide)
  have t2 : Syntax.takeRegular (82 :: rest) = ([82], rest) := by
    have := takeRegular_run [82] rest (by intro x hx; simp at hx; subst hx; decide) hrest
    simpa using this
  have l1 := renderSep_pos g1 hg1n
  have l2 := renderSep_pos g2 hg2n
  have hu := unsignedInt_digits gs hne hd
  have e1 : ((gs ++ (renderSep g2 ++ 82 :: rest)).length == (renderSep g1 ++ (gs ++ (renderSep g2 ++ 82 :: rest))).length) = false := by
    simp only [List.length_append, beq_eq_false_iff_ne, ne_eq]; omega
  have e2 : ((82 :: rest).length == (renderSep g2 ++ 82 :: rest).length) = false := by
    simp only [List.length_append, beq_eq_false_iff_ne, ne_eq]; omega
  unfold Syntax.parseRefTail
  simp only [s1, t1, hu, s2, t2, e1, e2, Bool.false_eq_true, if_false, beq_self_eq_true, if_true]

/-- the first run of regular characters after white space/comments -/
def run1 (s : Bytes) : Bytes := (Syntax.takeRegular (Syntax.skipWsAll s)).1
def after1 (s : Bytes) : Bytes := (Syntax.takeRegular (Syntax.skipWsAll s)).2

theorem refTail_none_1 (rest : Bytes) (h : Syntax.unsignedInt (run1 rest) = none) : Syntax.parseRefTail rest = none := by
  unfold Syntax.parseRefTail
  simp only [run1] at h
  split
  · rfl
  · simp only [h]

theorem refTail_none_2 (rest : Bytes) (h : run1 (after1 rest) ≠ [82]) : Syntax.parseRefTail rest = none := by
  unfold Syntax.parseRefTail
  simp only [run1, after1] at h
  have hk : ((Syntax.takeRegular (Syntax.skipWsAll (Syntax.takeRegular (Syntax.skipWsAll rest)).2)).1 == [82]) = false := by
    simpa using h
  split
  · rfl
  · split
    · rfl
    · split
      · rfl
      · simp only [hk, Bool.false_eq_true, if_false]

theorem takeRegular_cons_reg (c : UInt8) (s : Bytes) (h : Syntax.isRegular c = true) :
    (Syntax.takeRegular (c :: s)).1 = c :: (Syntax.takeRegular s).1 := by
  simp [Syntax.takeRegular, h]

theorem takeRegular_cons_nonreg (c : UInt8) (s : Bytes) (h : Syntax.isRegular c = false) :
    Syntax.takeRegular (c :: s) = ([], c :: s) := by
  simp [Syntax.takeRegular, h]

theorem run_contains : ∀ (a : Bytes) (x : UInt8) (s : Bytes), (∀ c ∈ a, Syntax.isRegular c = true) →
    Syntax.isRegular x = true → x ∈ (Syntax.takeRegular (a ++ x :: s)).1
  | [], x, s, _, hx => by simp [takeRegular_cons_reg x s hx]
  | c :: t, x, s, ha, hx => by
    simp only [List.cons_append, takeRegular_cons_reg c _ (ha c (by simp))]
    exact List.mem_cons_of_mem _ (run_contains t x s (fun y hy => ha y (by simp [hy])) hx)

/-- the run starting at a byte other than `R` is not the keyword `R` -/
theorem run_ne_R (c : UInt8) (s : Bytes) (h : c ≠ 82) : (Syntax.takeRegular (c :: s)).1 ≠ [82] := by
  by_cases hr : Syntax.isRegular c = true
  · rw [takeRegular_cons_reg c s hr]; intro e; simp at e; exact h e.1
  · have hr' : Syntax.isRegular c = false := by simpa using hr
    rw [takeRegular_cons_nonreg c s hr']; simp

/-- first byte of a core: never white space, `%`, `R`, `]` -/
theorem core_head {e : Bool} (t : STree) (h : wfE e t) :
    ∃ c tl, coreOf t = c :: tl ∧ Syntax.isWhite c = false ∧ c ≠ 37 ∧ c ≠ 82 ∧ c ≠ 93 := by
  have dg : ∀ c : UInt8, Lexer.isDigit c = true → Syntax.isWhite c = false ∧ c ≠ 37 ∧ c ≠ 82 ∧ c ≠ 93 := by
    intro c hc
    refine ⟨?_, ?_, ?_, ?_⟩
    · have := regular_not_delim c; simp [digit_regular c hc] at this; exact this.2
    all_goals (intro e; subst e; revert hc; decide)
  have sd : ∀ (sign ds tail : Bytes), signOK sign → (∀ c ∈ ds, Lexer.isDigit c = true) → (ds ≠ [] ∨ tail.headD 0 = 46 ∧ tail ≠ []) →
      ∃ c tl, sign ++ ds ++ tail = c :: tl ∧ Syntax.isWhite c = false ∧ c ≠ 37 ∧ c ≠ 82 ∧ c ≠ 93 := by
    intro sign ds tail hs hd hne
    rcases hs with rfl | rfl | rfl
    · cases ds with
      | nil =>
        rcases hne with h | ⟨h1, h2⟩
        · exact absurd rfl h
        · cases tail with
          | nil => exact absurd rfl h2
          | cons x tl => simp at h1; subst h1; exact ⟨46, tl, rfl, by decide, by decide, by decide, by decide⟩
      | cons c t => exact ⟨c, t ++ tail, rfl, dg c (hd c (by simp))⟩
    · exact ⟨43, ds ++ tail, rfl, by decide, by decide, by decide, by decide⟩
    · exact ⟨45, ds ++ tail, rfl, by decide, by decide, by decide, by decide⟩
  cases t with
  | null g => exact ⟨110, [117, 108, 108], rfl, by decide, by decide, by decide, by decide⟩
  | bool b g => cases b
                · exact ⟨102, [97, 108, 115, 101], rfl, by decide, by decide, by decide, by decide⟩
                · exact ⟨116, [114, 117, 101], rfl, by decide, by decide, by decide, by decide⟩
  | int sign ds g =>
    simp only [wfE, digitsOK] at h
    have := sd sign ds [] h.1 h.2.1.2.1 (Or.inl h.2.1.1)
    simpa [coreOf] using this
  | real sign ip fp g =>
    simp only [wfE] at h
    have := sd sign ip (46 :: fp) h.1 h.2.1 (Or.inr ⟨rfl, by simp⟩)
    simpa [coreOf] using this
  | name items g => exact ⟨47, renderName items, rfl, by decide, by decide, by decide, by decide⟩
  | str items g => exact ⟨40, renderStr items ++ [41], rfl, by decide, by decide, by decide, by decide⟩
  | hex body g => exact ⟨60, body ++ [62], rfl, by decide, by decide, by decide, by decide⟩
  | ref ds g1 gs g2 g3 =>
    simp only [wfE, digitsOK] at h
    obtain ⟨c, tl, hct, hc⟩ := sd [] ds (renderSep g1 ++ ((gs ++ renderSep g2) ++ [82])) (Or.inl rfl) h.1.2.1 (Or.inl h.1.1)
    exact ⟨c, tl, by simpa [coreOf, List.append_assoc] using hct, hc⟩
  | arr g0 items g1 => exact ⟨91, renderSep g0 ++ (bytesList items ++ [93]), rfl, by decide, by decide, by decide, by decide⟩
  | dict g0 es g1 => exact ⟨60, 60 :: (renderSep g0 ++ (bytesEntries es ++ [62, 62])), rfl, by decide, by decide, by decide, by decide⟩

theorem skip_to_core {e : Bool} (g : List SepItem) (hg : sepOK g) (t : STree) (h : wfE e t) (Y : Bytes) :
    Syntax.skipWsAll (renderSep g ++ (coreOf t ++ Y)) = coreOf t ++ Y := by
  obtain ⟨c, tl, hct, hw, h37, _, _⟩ := core_head t h
  rw [skip_sep g hg, hct]
  exact skip_stop c _ hw h37

theorem skip_to_close (g : List SepItem) (hg : sepOK g) (x : UInt8) (Y : Bytes) (hw : Syntax.isWhite x = false)
    (h37 : x ≠ 37) : Syntax.skipWsAll (renderSep g ++ x :: Y) = x :: Y := by
  rw [skip_sep g hg]; exact skip_stop x Y hw h37

/-- after any separator, the siblings that follow (up to `]`) do not begin with the keyword `R` -/
theorem list_run_ne_R {e : Bool} (g : List SepItem) (hg : sepOK g) (r : List STree) (hr : wfListE e r) (restc : Bytes) :
    run1 (renderSep g ++ (bytesList r ++ 93 :: restc)) ≠ [82] := by
  unfold run1
  cases r with
  | nil =>
    simp only [bytesList, List.nil_append]
    rw [skip_to_close g hg 93 restc (by decide) (by decide)]
    exact run_ne_R 93 restc (by decide)
  | cons t r2 =>
    simp only [wfListE] at hr
    simp only [bytesList, bytesOf_core, List.append_assoc]
    rw [skip_to_core g hg t hr.1]
    obtain ⟨c, tl, hct, _, _, h82, _⟩ := core_head t hr.1
    rw [hct]
    exact run_ne_R c _ h82

/-- is the core an unsigned integer token (possibly the object number of a reference)? -/
def uintLike : STree → Bool
  | .int sign _ _ => sign.isEmpty
  | .ref _ _ _ _ _ => true
  | _ => false

theorem uint_run_none {e : Bool} (t : STree) (h : wfE e t) (hu : uintLike t = false) (Y : Bytes) :
    Syntax.unsignedInt (Syntax.takeRegular (coreOf t ++ Y)).1 = none := by
  have nonreg : ∀ (c : UInt8) (s : Bytes), Syntax.isRegular c = false →
      Syntax.unsignedInt (Syntax.takeRegular (c :: s)).1 = none := by
    intro c s hc; rw [takeRegular_cons_nonreg c s hc]; rfl
  have regnd : ∀ (c : UInt8) (s : Bytes), Syntax.isRegular c = true → Lexer.isDigit c = false →
      Syntax.unsignedInt (Syntax.takeRegular (c :: s)).1 = none := by
    intro c s hc hd
    rw [takeRegular_cons_reg c s hc]
    exact unsignedInt_nondigit _ c (by simp) hd
  cases t with
  | null g => exact regnd 110 _ (by decide) (by decide)
  | bool b g => cases b
                · exact regnd 102 _ (by decide) (by decide)
                · exact regnd 116 _ (by decide) (by decide)
  | int sign ds g =>
    simp only [wfE] at h
    simp only [uintLike] at hu
    rcases h.1 with rfl | rfl | rfl
    · simp at hu
    · exact regnd 43 _ (by decide) (by decide)
    · exact regnd 45 _ (by decide) (by decide)
  | real sign ip fp g =>
    simp only [wfE] at h
    simp only [coreOf]
    have hreg : ∀ c ∈ sign ++ ip, Syntax.isRegular c = true := by
      intro c hc
      rcases List.mem_append.mp hc with h1 | h1
      · rcases h.1 with rfl | rfl | rfl
        · simp at h1
        · simp at h1; subst h1; decide
        · simp at h1; subst h1; decide
      · exact digit_regular c (h.2.1 c h1)
    have := run_contains (sign ++ ip) 46 (fp ++ Y) hreg (by decide)
    have e1 : sign ++ ip ++ 46 :: fp ++ Y = (sign ++ ip) ++ 46 :: (fp ++ Y) := by simp
    rw [e1]
    exact unsignedInt_nondigit _ 46 this (by decide)
  | name items g => exact nonreg 47 _ (by decide)
  | str items g => exact nonreg 40 _ (by decide)
  | hex body g => exact nonreg 60 _ (by decide)
  | ref ds g1 gs g2 g3 => simp [uintLike] at hu
  | arr g0 items g1 => exact nonreg 91 _ (by decide)
  | dict g0 es g1 => exact nonreg 60 _ (by decide)

/-- what follows an array item never spells `<generation> R` -/
theorem noRef_after {e : Bool} (g : List SepItem) (hg : sepOK g) (r : List STree) (hr : wfListE e r) (restc : Bytes) :
    Syntax.parseRefTail (renderSep g ++ (bytesList r ++ 93 :: restc)) = none := by
  cases r with
  | nil =>
    apply refTail_none_1
    simp only [run1, bytesList, List.nil_append]
    rw [skip_to_close g hg 93 restc (by decide) (by decide), takeRegular_cons_nonreg 93 restc (by decide)]
    rfl
  | cons t r2 =>
    have hr' := hr
    simp only [wfListE] at hr
    obtain ⟨ht, hr2, hadj⟩ := hr
    have hskip : Syntax.skipWsAll (renderSep g ++ (bytesList (t :: r2) ++ 93 :: restc)) =
        coreOf t ++ (renderSep (trailOf t) ++ (bytesList r2 ++ 93 :: restc)) := by
      simp only [bytesList, bytesOf_core, List.append_assoc]
      exact skip_to_core g hg t ht _
    by_cases hu : uintLike t = false
    · apply refTail_none_1
      simp only [run1, hskip]
      exact uint_run_none t ht hu _
    · apply refTail_none_2
      have hgt := trail_ok t ht
      cases t with
      | int sign ds g2 =>
        simp only [uintLike] at hu
        have hs : sign = [] := by cases sign <;> simp_all
        subst hs
        simp only [wfE, digitsOK] at ht
        -- the run is exactly the digits
        have hZ : Syntax.isRegular ((renderSep g2 ++ (bytesList r2 ++ 93 :: restc)).headD 32) = false := by
          cases g2 with
          | cons i gr => exact sep_head_nonreg (i :: gr) ht.2.2 (by simp) _
          | nil =>
            simp only [renderSep, List.nil_append]
            cases r2 with
            | nil => simp [bytesList]; decide
            | cons t3 r3 =>
              have := hadj (by simp [endsReg]) (by simp) (93 :: restc)
              have hne : bytesList (t3 :: r3) ++ 93 :: restc ≠ [] := by simp
              have e : (bytesList (t3 :: r3) ++ 93 :: restc).headD 32 = (bytesList (t3 :: r3) ++ 93 :: restc).headD 0 := by
                cases hh : bytesList (t3 :: r3) ++ 93 :: restc with
                | nil => exact absurd hh hne
                | cons _ _ => rfl
              rw [e]; exact dw_not_regular _ this
        have htr := takeRegular_run ds _ (fun x hx => digit_regular x (ht.2.1.2.1 x hx)) hZ
        simp only [after1, hskip, coreOf, trailOf, List.nil_append, htr]
        exact list_run_ne_R g2 ht.2.2 r2 hr2 restc
      | ref ds g1 gs g2 g3 =>
        simp only [wfE, digitsOK] at ht
        obtain ⟨⟨hne1, hd1, _⟩, hg1, hg1n, ⟨hne2, hd2, _⟩, _⟩ := ht
        have htr := takeRegular_run ds (renderSep g1 ++ ((gs ++ renderSep g2) ++ [82] ++ (renderSep g3 ++ (bytesList r2 ++ 93 :: restc))))
          (fun x hx => digit_regular x (hd1 x hx)) (sep_head_nonreg g1 hg1 hg1n _)
        have e1 : coreOf (.ref ds g1 gs g2 g3) ++ (renderSep (trailOf (.ref ds g1 gs g2 g3)) ++ (bytesList r2 ++ 93 :: restc))
            = ds ++ (renderSep g1 ++ ((gs ++ renderSep g2) ++ [82] ++ (renderSep g3 ++ (bytesList r2 ++ 93 :: restc)))) := by
          simp [coreOf, trailOf, List.append_assoc]
        simp only [after1, hskip, e1, htr, run1]
        obtain ⟨c, t, hct⟩ : ∃ c t, gs = c :: t := by cases gs with
          | nil => exact absurd rfl hne2
          | cons c t => exact ⟨c, t, rfl⟩
        have hcd := hd2 c (by simp [hct])
        have e2 : (gs ++ renderSep g2) ++ [82] ++ (renderSep g3 ++ (bytesList r2 ++ 93 :: restc))
            = c :: (t ++ renderSep g2 ++ [82] ++ (renderSep g3 ++ (bytesList r2 ++ 93 :: restc))) := by
          simp [hct]
        rw [skip_sep g1 hg1, e2, digit_head_skip c _ (digit_regular c hcd)]
        exact run_ne_R c _ (by intro e; subst e; revert hcd; decide)
      | _ => simp [uintLike] at hu

/-! ### `parseObj` on whole trees -/

mutual
/-- fuel that certainly suffices for `parseObj` on the tree -/
def need : STree → Nat
  | .arr _ items _ => 1 + needList items
  | .dict _ es _ => 1 + needEntries es
  | _ => 1
def needList : List STree → Nat
  | [] => 1
  | t :: r => 1 + need t + needList r
def needEntries : List (List NameItem × List SepItem × STree) → Nat
  | [] => 1
  | (_, _, v) :: r => 1 + need v + needEntries r
end

/-- an unsigned integer token that is not part of a reference node -/
def uintInt : STree → Bool
  | .int sign _ _ => sign.isEmpty
  | _ => false

theorem renderStr_length : ∀ (items : List StrItem), items.length ≤ (renderStr items).length
  | [] => by simp [renderStr]
  | i :: r => by
    obtain ⟨c, tl, h⟩ := render_ne i
    have := renderStr_length r
    simp only [renderStr, List.length_cons, List.length_append, h]
    omega

theorem hexbody_not_60 : ∀ c : UInt8, (!(isHEX c || isGapByte c) || c != 60) = true :=
  forall_byte _ (by decide +kernel)

theorem po_str (items : List StrItem) (rest : Bytes) (f : Nat) (hok : ∀ i ∈ items, i.ok) (hch : chainOK items)
    (hbal : depthAfter 0 items = some 0) :
    Syntax.parseObj (f + 1) ((40 :: (renderStr items ++ [41])) ++ rest) = some (.str (strValue items), rest) := by
  have e : (40 :: (renderStr items ++ [41])) ++ rest = 40 :: (renderStr items ++ 41 :: rest) := by simp
  have hl := renderStr_length items
  rw [e]
  unfold Syntax.parseObj
  simp only
  rw [lit_items items _ 0 rest hok hch hbal (by simp only [List.length_append, List.length_cons]; omega)]
  rfl

theorem po_name (items : List NameItem) (rest : Bytes) (f : Nat) (hok : nameOK items) (hr : isDW (rest.headD 32) = true) :
    Syntax.parseObj (f + 1) ((47 :: renderName items) ++ rest) = some (.name (nameValue items), rest) := by
  simp only [List.cons_append]
  unfold Syntax.parseObj
  simp only
  rw [parseName_items items rest hok hr]
  rfl

theorem po_hex_aux (x : UInt8) (tl : Bytes) (hx : x ≠ 60) (f : Nat) :
    Syntax.parseObj (f + 1) (60 :: x :: tl) =
      (fun r => (Syntax.Obj.str r.1, r.2)) <$> Syntax.parseHexBody none (x :: tl) := by
  unfold Syntax.parseObj
  split
  · rename_i heq; simp at heq
  · rename_i heq; simp at heq
  · rename_i heq; simp at heq
  · rename_i heq; simp at heq
  · rename_i heq; simp at heq; exact absurd heq.1 hx
  · rename_i heq
    simp only [List.cons.injEq, true_and] at heq
    rw [← heq]
  · rename_i heq
    simp only [List.cons.injEq] at heq
    obtain ⟨rfl, rfl⟩ := heq
    simp_all

theorem po_hex (body rest : Bytes) (f : Nat) (hb : ∀ c ∈ body, isHEX c = true ∨ isGapByte c = true) :
    Syntax.parseObj (f + 1) ((60 :: (body ++ [62])) ++ rest) = some (.str (pairUp (hexDigitsOf body)), rest) := by
  have hp := parseHex_body body none rest hb
  rw [← hexDigits_eq body hb] at hp
  have e : (60 :: (body ++ [62])) ++ rest = 60 :: (body ++ 62 :: rest) := by simp
  rw [e]
  cases body with
  | nil =>
    simp only [List.nil_append] at hp ⊢
    rw [po_hex_aux 62 rest (by decide), hp]; rfl
  | cons c t =>
    have hc : c ≠ 60 := by
      intro e; subst e
      have h60a : isHEX 60 = false := by decide +kernel
      rcases hb 60 (by simp) with h | h
      · rw [h60a] at h; cases h
      · revert h; decide
    simp only [List.cons_append] at hp ⊢
    rw [po_hex_aux c _ hc, hp]; simp [pairFrom]

/-! ### unfolding lemmas for the containers -/

theorem po_arr_aux (t : Bytes) (f : Nat) :
    Syntax.parseObj (f + 1) (91 :: t) = (fun r => (Syntax.Obj.arr r.1, r.2)) <$> Syntax.parseItems f (Syntax.skipWsAll t) := by
  unfold Syntax.parseObj
  split
  · rename_i heq; simp at heq
  · rename_i heq; simp at heq
  · rename_i heq; simp at heq
  · rename_i heq; simp only [List.cons.injEq, true_and] at heq; rw [← heq]
  · rename_i heq; simp at heq
  · rename_i heq; simp at heq
  · rename_i heq
    simp only [List.cons.injEq] at heq
    obtain ⟨rfl, rfl⟩ := heq
    simp_all

theorem po_dict_aux (t : Bytes) (f : Nat) (es : List (Bytes × Syntax.Obj)) (rest : Bytes)
    (h : Syntax.parseEntries f (Syntax.skipWsAll t) = some (es, rest)) (hnd : (es.map (·.1)).Nodup) :
    Syntax.parseObj (f + 1) (60 :: 60 :: t) = some (.dict es, rest) := by
  unfold Syntax.parseObj
  split
  · rename_i heq; simp at heq
  · rename_i heq; simp at heq
  · rename_i heq; simp at heq
  · rename_i heq; simp at heq
  · rename_i heq
    simp only [List.cons.injEq, true_and] at heq
    rw [← heq, h]
    simp [hnd]
  · rename_i h5 heq
    simp only [List.cons.injEq, true_and] at heq
    exact (h5 t heq.symm).elim
  · rename_i heq
    simp only [List.cons.injEq] at heq
    obtain ⟨rfl, rfl⟩ := heq
    simp_all

theorem pi_close (t : Bytes) (f : Nat) : Syntax.parseItems (f + 1) (93 :: t) = some ([], t) := by
  unfold Syntax.parseItems
  simp

theorem pi_item (c : UInt8) (tl : Bytes) (f : Nat) (hc : c ≠ 93) (o : Syntax.Obj) (rest : Bytes)
    (h : Syntax.parseObj f (c :: tl) = some (o, rest)) :
    Syntax.parseItems (f + 1) (c :: tl) =
      (fun r => (o :: r.1, r.2)) <$> Syntax.parseItems f (Syntax.skipWsAll rest) := by
  conv => lhs; unfold Syntax.parseItems
  split
  · rename_i heq; simp at heq
  · rename_i heq; simp at heq; exact absurd heq.1 hc
  · rw [h]

theorem pe_close (t : Bytes) (f : Nat) : Syntax.parseEntries (f + 1) (62 :: 62 :: t) = some ([], t) := by
  unfold Syntax.parseEntries
  simp

theorem pe_entry (t : Bytes) (f : Nat) (k : Bytes) (r1 : Bytes) (v : Syntax.Obj) (r2 : Bytes)
    (hk : Syntax.parseNameBody t = some (k, r1)) (hv : Syntax.parseObj f (Syntax.skipWsAll r1) = some (v, r2)) :
    Syntax.parseEntries (f + 1) (47 :: t) =
      (fun r => ((k, v) :: r.1, r.2)) <$> Syntax.parseEntries f (Syntax.skipWsAll r2) := by
  conv => lhs; unfold Syntax.parseEntries
  split
  · rename_i heq; simp at heq
  · rename_i heq; simp at heq
  · rename_i heq
    simp only [List.cons.injEq, true_and] at heq
    rw [← heq, hk]
    simp only [hv]
  · rename_i h3
    exact (h3 t rfl).elim

/-! ### the main induction -/

theorem nonreg_dw : ∀ c : UInt8, (Syntax.isRegular c || isDW c) = true := forall_byte _ (by decide +kernel)

theorem dw_of_nonreg (c : UInt8) (h : Syntax.isRegular c = false) : isDW c = true := by
  have := nonreg_dw c; simpa [h] using this

theorem headD_irrel (l : Bytes) (h : l ≠ []) (a b : UInt8) : l.headD a = l.headD b := by
  cases l with
  | nil => exact absurd rfl h
  | cons _ _ => rfl

theorem headD_append_ne (a b : Bytes) (d1 d2 : UInt8) (h : a ≠ []) : (a ++ b).headD d1 = a.headD d2 := by
  cases a with
  | nil => exact absurd rfl h
  | cons _ _ => rfl

/-- what follows an array item does not continue its last run of regular characters -/
theorem follow_nonreg {e : Bool} (t : STree) (r : List STree) (h : wfListE e (t :: r)) (hreg : coreReg t = true)
    (restc : Bytes) :
    Syntax.isRegular ((renderSep (trailOf t) ++ (bytesList r ++ 93 :: restc)).headD 32) = false := by
  simp only [wfListE] at h
  obtain ⟨ht, _, hadj⟩ := h
  cases hg : trailOf t with
  | cons i gr =>
    have := trail_ok t ht
    rw [hg] at this
    exact sep_head_nonreg (i :: gr) this (by simp) _
  | nil =>
    simp only [renderSep, List.nil_append]
    cases r with
    | nil => simp [bytesList]; decide
    | cons t3 r3 =>
      have hend : endsReg t = true := by rw [endsReg_eq, hreg, hg]; rfl
      have := hadj hend (by simp) (93 :: restc)
      have hne : bytesList (t3 :: r3) ++ 93 :: restc ≠ [] := by simp
      have e2 : (bytesList (t3 :: r3) ++ 93 :: restc).headD 32 = (bytesList (t3 :: r3) ++ 93 :: restc).headD 0 := by
        cases hh : bytesList (t3 :: r3) ++ 93 :: restc with
        | nil => exact absurd hh hne
        | cons _ _ => rfl
      rw [e2]; exact dw_not_regular _ this

theorem skip_to_list {e : Bool} (g : List SepItem) (hg : sepOK g) (r : List STree) (hr : wfListE e r) (restc : Bytes) :
    Syntax.skipWsAll (renderSep g ++ (bytesList r ++ 93 :: restc)) = bytesList r ++ 93 :: restc := by
  cases r with
  | nil => simpa [bytesList] using skip_to_close g hg 93 restc (by decide) (by decide)
  | cons t r2 =>
    simp only [wfListE] at hr
    simp only [bytesList, bytesOf_core, List.append_assoc]
    exact skip_to_core g hg t hr.1 _

theorem skip_to_entries (g : List SepItem) (hg : sepOK g) (es : List (List NameItem × List SepItem × STree)) (restc : Bytes) :
    Syntax.skipWsAll (renderSep g ++ (bytesEntries es ++ 62 :: 62 :: restc)) = bytesEntries es ++ 62 :: 62 :: restc := by
  cases es with
  | nil => simpa [bytesEntries] using skip_to_close g hg 62 (62 :: restc) (by decide) (by decide)
  | cons x r =>
    obtain ⟨k, gk, v⟩ := x
    simp only [bytesEntries, List.cons_append, List.append_assoc]
    exact skip_to_close g hg 47 _ (by decide) (by decide)

theorem keys_spec : ∀ (es : List (List NameItem × List SepItem × STree)),
    (specEntries es).map (·.1) = StackParser.keysOf (valueEntries es)
  | [] => rfl
  | (k, g, v) :: r => by simp [specEntries, valueEntries, StackParser.keysOf, keys_spec r]

mutual
/-- The ISO reader accepts the core of every well-formed spelled tree and gives it its value. -/
theorem parse_tree {e : Bool} : ∀ (t : STree), wfE e t → ∀ (f : Nat) (rest : Bytes), need t ≤ f →
    (coreReg t = true → Syntax.isRegular (rest.headD 32) = false) →
    (uintInt t = true → Syntax.parseRefTail rest = none) →
    Syntax.parseObj f (coreOf t ++ rest) = some (specValue t, rest)
  | .null g, _, f, rest, hf, hr, _ => by
    obtain ⟨f', rfl⟩ : ∃ f', f = f' + 1 := ⟨f - 1, by simp [need] at hf; omega⟩
    have := po_regular 110 [117, 108, 108] rest f' (by intro x hx; simp at hx; rcases hx with rfl | rfl | rfl | rfl <;> decide) (hr rfl)
    simpa [coreOf, wNull, specValue] using this.trans (regObj_null rest)
  | .bool b g, _, f, rest, hf, hr, _ => by
    obtain ⟨f', rfl⟩ : ∃ f', f = f' + 1 := ⟨f - 1, by simp [need] at hf; omega⟩
    cases b with
    | true =>
      have := po_regular 116 [114, 117, 101] rest f' (by intro x hx; simp at hx; rcases hx with rfl | rfl | rfl | rfl <;> decide) (hr rfl)
      simpa [coreOf, kwTrue, specValue] using this.trans (regObj_true rest)
    | false =>
      have := po_regular 102 [97, 108, 115, 101] rest f' (by intro x hx; simp at hx; rcases hx with rfl | rfl | rfl | rfl | rfl <;> decide) (hr rfl)
      simpa [coreOf, kwFalse, specValue] using this.trans (regObj_false rest)
  | .int sign ds g, h, f, rest, hf, hr, hu => by
    obtain ⟨f', rfl⟩ : ∃ f', f = f' + 1 := ⟨f - 1, by simp [need] at hf; omega⟩
    simp only [wfE, digitsOK] at h
    obtain ⟨hs, ⟨hne, hd, _⟩, _⟩ := h
    have hreg : ∀ x ∈ sign ++ ds, Syntax.isRegular x = true := by
      intro x hx
      rcases List.mem_append.mp hx with h1 | h1
      · rcases hs with rfl | rfl | rfl
        · simp at h1
        · simp at h1; subst h1; decide
        · simp at h1; subst h1; decide
      · exact digit_regular x (hd x h1)
    obtain ⟨c, t, hct⟩ : ∃ c t, sign ++ ds = c :: t := by
      cases hh : sign ++ ds with
      | nil => simp at hh; exact absurd hh.2 hne
      | cons c t => exact ⟨c, t, rfl⟩
    have hpo := po_regular c t rest f' (by rw [← hct]; exact hreg) (hr rfl)
    rw [← hct] at hpo
    simp only [coreOf, specValue]
    rw [hpo]
    exact regObj_int sign ds rest hs hne hd (fun hs0 => hu (by simp [uintInt, hs0]))
  | .real sign ip fp g, h, f, rest, hf, hr, _ => by
    obtain ⟨f', rfl⟩ : ∃ f', f = f' + 1 := ⟨f - 1, by simp [need] at hf; omega⟩
    simp only [wfE] at h
    obtain ⟨hs, hip, hfp, hne, _⟩ := h
    have hreg : ∀ x ∈ sign ++ ip ++ 46 :: fp, Syntax.isRegular x = true := by
      intro x hx
      simp only [List.mem_append, List.mem_cons] at hx
      rcases hx with (h1 | h1) | h1 | h1
      · rcases hs with rfl | rfl | rfl
        · simp at h1
        · simp at h1; subst h1; decide
        · simp at h1; subst h1; decide
      · exact digit_regular x (hip x h1)
      · subst h1; decide
      · exact digit_regular x (hfp x h1)
    obtain ⟨c, t, hct⟩ : ∃ c t, sign ++ ip ++ 46 :: fp = c :: t := by
      cases hh : sign ++ ip ++ 46 :: fp with
      | nil => simp at hh
      | cons c t => exact ⟨c, t, rfl⟩
    have hpo := po_regular c t rest f' (by rw [← hct]; exact hreg) (hr rfl)
    rw [← hct] at hpo
    simp only [coreOf, specValue]
    rw [hpo]
    exact regObj_real sign ip fp rest hs hip hfp hne
  | .name items g, h, f, rest, hf, hr, _ => by
    obtain ⟨f', rfl⟩ : ∃ f', f = f' + 1 := ⟨f - 1, by simp [need] at hf; omega⟩
    simp only [wfE] at h
    simp only [coreOf, specValue]
    exact po_name items rest f' h.1 (dw_of_nonreg _ (hr rfl))
  | .str items g, h, f, rest, hf, _, _ => by
    obtain ⟨f', rfl⟩ : ∃ f', f = f' + 1 := ⟨f - 1, by simp [need] at hf; omega⟩
    simp only [wfE] at h
    simp only [coreOf, specValue]
    exact po_str items rest f' h.1 h.2.1 h.2.2.1
  | .hex body g, h, f, rest, hf, _, _ => by
    obtain ⟨f', rfl⟩ : ∃ f', f = f' + 1 := ⟨f - 1, by simp [need] at hf; omega⟩
    simp only [wfE] at h
    simp only [coreOf, specValue]
    exact po_hex body rest f' h.1
  | .ref ds g1 gs g2 g3, h, f, rest, hf, hr, _ => by
    obtain ⟨f', rfl⟩ : ∃ f', f = f' + 1 := ⟨f - 1, by simp [need] at hf; omega⟩
    simp only [wfE, digitsOK] at h
    obtain ⟨⟨hne1, hd1, _⟩, hg1, hg1n, ⟨hne2, hd2, _⟩, hg2, hg2n, _⟩ := h
    obtain ⟨c, t, hct⟩ : ∃ c t, ds = c :: t := by cases ds with
      | nil => exact absurd rfl hne1
      | cons c t => exact ⟨c, t, rfl⟩
    have e1 : coreOf (.ref ds g1 gs g2 g3) ++ rest = ds ++ (renderSep g1 ++ (gs ++ (renderSep g2 ++ 82 :: rest))) := by
      simp [coreOf, List.append_assoc]
    have hpo := po_regular c t (renderSep g1 ++ (gs ++ (renderSep g2 ++ 82 :: rest))) f'
      (by rw [← hct]; exact fun x hx => digit_regular x (hd1 x hx)) (sep_head_nonreg g1 hg1 hg1n _)
    rw [← hct] at hpo
    rw [e1, hpo]
    have hk := num_head c (Or.inl (hd1 c (by simp [hct])))
    have hnk := not_kw c t hk.1 hk.2.1 hk.2.2
    rw [← hct] at hnk
    have hu := unsignedInt_digits ds hne1 hd1
    have hrt := refTail_ok g1 gs g2 rest hg1 hg1n hne2 hd2 hg2 hg2n (hr rfl)
    simp [Syntax.regObj, hnk.1, hnk.2.1, hnk.2.2, hu, hrt, specValue]
  | .arr g0 items g1, h, f, rest, hf, _, _ => by
    obtain ⟨f', rfl⟩ : ∃ f', f = f' + 1 := ⟨f - 1, by simp [need] at hf; omega⟩
    simp only [wfE] at h
    obtain ⟨hg0, hitems, _⟩ := h
    have e1 : coreOf (.arr g0 items g1) ++ rest = 91 :: (renderSep g0 ++ (bytesList items ++ 93 :: rest)) := by
      simp [coreOf, List.append_assoc]
    rw [e1, po_arr_aux, skip_to_list g0 hg0 items hitems rest,
      parse_items items hitems f' rest (by simp [need] at hf; omega)]
    simp [specValue]
  | .dict g0 es g1, h, f, rest, hf, _, _ => by
    obtain ⟨f', rfl⟩ : ∃ f', f = f' + 1 := ⟨f - 1, by simp [need] at hf; omega⟩
    simp only [wfE] at h
    obtain ⟨hg0, hes, _, hnd, _⟩ := h
    have e1 : coreOf (.dict g0 es g1) ++ rest = 60 :: 60 :: (renderSep g0 ++ (bytesEntries es ++ 62 :: 62 :: rest)) := by
      simp [coreOf, List.append_assoc]
    have hpe := parse_entries es hes f' rest (by simp [need] at hf; omega)
    rw [e1]
    rw [po_dict_aux _ f' (specEntries es) rest (by rw [skip_to_entries g0 hg0 es rest]; exact hpe)
      (by rw [keys_spec]; exact hnd)]
    simp [specValue]
theorem parse_items {e : Bool} : ∀ (items : List STree), wfListE e items → ∀ (f : Nat) (restc : Bytes),
    needList items ≤ f →
    Syntax.parseItems f (bytesList items ++ 93 :: restc) = some (specList items, restc)
  | [], _, f, restc, hf => by
    obtain ⟨f', rfl⟩ : ∃ f', f = f' + 1 := ⟨f - 1, by simp [needList] at hf; omega⟩
    simpa [bytesList, specList] using pi_close restc f'
  | t :: r, h, f, restc, hf => by
    obtain ⟨f', rfl⟩ : ∃ f', f = f' + 1 := ⟨f - 1, by simp [needList] at hf; omega⟩
    have h' := h
    simp only [wfListE] at h
    obtain ⟨ht, hr, _⟩ := h
    have hgt := trail_ok t ht
    obtain ⟨c, tl, hct, _, _, _, h93⟩ := core_head t ht
    have e1 : bytesList (t :: r) ++ 93 :: restc = coreOf t ++ (renderSep (trailOf t) ++ (bytesList r ++ 93 :: restc)) := by
      simp [bytesList, bytesOf_core, List.append_assoc]
    have hpt := parse_tree t ht f' (renderSep (trailOf t) ++ (bytesList r ++ 93 :: restc))
      (by simp [needList] at hf; omega) (fun hreg => follow_nonreg t r h' hreg restc)
      (fun _ => noRef_after (trailOf t) hgt r hr restc)
    rw [e1]
    have e2 : coreOf t ++ (renderSep (trailOf t) ++ (bytesList r ++ 93 :: restc)) =
        c :: (tl ++ (renderSep (trailOf t) ++ (bytesList r ++ 93 :: restc))) := by rw [hct]; rfl
    rw [e2] at hpt ⊢
    rw [pi_item c _ f' h93 _ _ hpt, skip_to_list (trailOf t) hgt r hr restc,
      parse_items r hr f' restc (by simp [needList] at hf; omega)]
    simp [specList]
theorem parse_entries {e : Bool} : ∀ (es : List (List NameItem × List SepItem × STree)), wfEntriesE e es →
    ∀ (f : Nat) (restc : Bytes), needEntries es ≤ f →
    Syntax.parseEntries f (bytesEntries es ++ 62 :: 62 :: restc) = some (specEntries es, restc)
  | [], _, f, restc, hf => by
    obtain ⟨f', rfl⟩ : ∃ f', f = f' + 1 := ⟨f - 1, by simp [needEntries] at hf; omega⟩
    simpa [bytesEntries, specEntries] using pe_close restc f'
  | (k, g, v) :: r, h, f, restc, hf => by
    obtain ⟨f', rfl⟩ : ∃ f', f = f' + 1 := ⟨f - 1, by simp [needEntries] at hf; omega⟩
    simp only [wfEntriesE] at h
    obtain ⟨hk, hg, hgv, hv, hr⟩ := h
    have hgt := trail_ok v hv
    -- what follows the value: the next key or `>>`, after the value's separator
    let Z : Bytes := renderSep (trailOf v) ++ (bytesEntries r ++ 62 :: 62 :: restc)
    have hZ0 : ∃ x tlx, bytesEntries r ++ 62 :: 62 :: restc = x :: tlx ∧ (x = 47 ∨ x = 62) := by
      cases r with
      | nil => exact ⟨62, 62 :: restc, rfl, Or.inr rfl⟩
      | cons y r2 =>
        obtain ⟨k2, g2, v2⟩ := y
        exact ⟨47, renderName k2 ++ (renderSep g2 ++ (bytesOf v2 ++ (bytesEntries r2 ++ 62 :: 62 :: restc))),
          by simp [bytesEntries], Or.inl rfl⟩
    obtain ⟨x, tlx, hx, hx2⟩ := hZ0
    have hxw : Syntax.isWhite x = false ∧ x ≠ 37 ∧ Syntax.isRegular x = false := by
      rcases hx2 with rfl | rfl <;> exact ⟨by decide, by decide, by decide⟩
    have hZreg : Syntax.isRegular (Z.headD 32) = false := by
      cases hgv' : trailOf v with
      | cons i gr =>
        have := hgt; rw [hgv'] at this
        show Syntax.isRegular ((renderSep (trailOf v) ++ _).headD 32) = false
        rw [hgv']; exact sep_head_nonreg (i :: gr) this (by simp) _
      | nil =>
        show Syntax.isRegular ((renderSep (trailOf v) ++ _).headD 32) = false
        rw [hgv', hx]; simpa [renderSep] using hxw.2.2
    have hZref : Syntax.parseRefTail Z = none := by
      apply refTail_none_1
      show Syntax.unsignedInt (Syntax.takeRegular (Syntax.skipWsAll (renderSep (trailOf v) ++ _))).1 = none
      rw [hx, skip_to_close (trailOf v) hgt x tlx hxw.1 hxw.2.1, takeRegular_cons_nonreg x tlx hxw.2.2]
      rfl
    -- the key
    have hkey : Syntax.parseNameBody (renderName k ++ (renderSep g ++ (bytesOf v ++ (bytesEntries r ++ 62 :: 62 :: restc))))
        = some (nameValue k, renderSep g ++ (bytesOf v ++ (bytesEntries r ++ 62 :: 62 :: restc))) := by
      apply parseName_items k _ hk
      cases g with
      | cons i gr =>
        have := sep_head_dw (i :: gr) hg (by simp) (bytesOf v ++ (bytesEntries r ++ 62 :: 62 :: restc))
        have hne : renderSep (i :: gr) ++ (bytesOf v ++ (bytesEntries r ++ 62 :: 62 :: restc)) ≠ [] := by
          have hp := renderSep_pos (i :: gr) (by simp)
          intro e0
          have := congrArg List.length e0
          simp only [List.length_append, List.length_nil] at this
          omega
        have e := headD_irrel _ hne 32 0
        rw [e]; exact this
      | nil =>
        have := hgv rfl (bytesEntries r ++ 62 :: 62 :: restc)
        obtain ⟨c, tl, hct, _⟩ := core_head v hv
        have hne : bytesOf v ++ (bytesEntries r ++ 62 :: 62 :: restc) ≠ [] := by
          rw [bytesOf_core, hct]; simp
        simp only [renderSep, List.nil_append]
        have e : (bytesOf v ++ (bytesEntries r ++ 62 :: 62 :: restc)).headD 32
            = (bytesOf v ++ (bytesEntries r ++ 62 :: 62 :: restc)).headD 0 := by
          cases hh : bytesOf v ++ (bytesEntries r ++ 62 :: 62 :: restc) with
          | nil => exact absurd hh hne
          | cons _ _ => rfl
        rw [e]; exact this
    have hval : Syntax.parseObj f' (Syntax.skipWsAll (renderSep g ++ (bytesOf v ++ (bytesEntries r ++ 62 :: 62 :: restc))))
        = some (specValue v, Z) := by
      have e3 : renderSep g ++ (bytesOf v ++ (bytesEntries r ++ 62 :: 62 :: restc)) = renderSep g ++ (coreOf v ++ Z) := by
        simp [bytesOf_core, Z, List.append_assoc]
      rw [e3, skip_to_core g hg v hv Z]
      exact parse_tree v hv f' Z (by simp [needEntries] at hf; omega) (fun _ => hZreg) (fun _ => hZref)
    have e0 : bytesEntries ((k, g, v) :: r) ++ 62 :: 62 :: restc =
        47 :: (renderName k ++ (renderSep g ++ (bytesOf v ++ (bytesEntries r ++ 62 :: 62 :: restc)))) := by
      simp [bytesEntries, List.append_assoc]
    rw [e0, pe_entry _ f' _ _ _ _ hkey hval]
    show (fun r_1 => ((nameValue k, specValue v) :: r_1.1, r_1.2)) <$>
      Syntax.parseEntries f' (Syntax.skipWsAll (renderSep (trailOf v) ++ (bytesEntries r ++ 62 :: 62 :: restc))) = _
    rw [skip_to_entries (trailOf v) hgt r restc, parse_entries r hr f' restc (by simp [needEntries] at hf; omega)]
    simp [specEntries]
end

/-! ### the fuel `spellcheck` uses is enough -/

theorem core_le_bytes (t : STree) : (coreOf t).length ≤ (bytesOf t).length := by
  rw [bytesOf_core]; simp

mutual
theorem need_le {e : Bool} : ∀ (t : STree), wfE e t → need t + 1 ≤ 2 * (coreOf t).length
  | .arr g0 items g1, h => by
    simp only [wfE] at h
    have := needList_le items h.2.1
    simp only [need, coreOf, List.length_append, List.length_cons, List.length_nil]
    omega
  | .dict g0 es g1, h => by
    simp only [wfE] at h
    have := needEntries_le es h.2.1
    simp only [need, coreOf, List.length_append, List.length_cons, List.length_nil]
    omega
  | .null g, h => by obtain ⟨c, tl, hct, _⟩ := core_head (.null g) h; rw [hct]; simp [need]; omega
  | .bool b g, h => by obtain ⟨c, tl, hct, _⟩ := core_head (.bool b g) h; rw [hct]; simp [need]; omega
  | .int s d g, h => by obtain ⟨c, tl, hct, _⟩ := core_head (.int s d g) h; rw [hct]; simp [need]; omega
  | .real s i f g, h => by obtain ⟨c, tl, hct, _⟩ := core_head (.real s i f g) h; rw [hct]; simp [need]; omega
  | .name i g, h => by obtain ⟨c, tl, hct, _⟩ := core_head (.name i g) h; rw [hct]; simp [need]; omega
  | .str i g, h => by obtain ⟨c, tl, hct, _⟩ := core_head (.str i g) h; rw [hct]; simp [need]; omega
  | .hex b g, h => by obtain ⟨c, tl, hct, _⟩ := core_head (.hex b g) h; rw [hct]; simp [need]; omega
  | .ref a b c d g, h => by obtain ⟨c', tl, hct, _⟩ := core_head (.ref a b c d g) h; rw [hct]; simp [need]; omega
theorem needList_le {e : Bool} : ∀ (items : List STree), wfListE e items → needList items ≤ 2 * (bytesList items).length + 1
  | [], _ => by simp [needList, bytesList]
  | t :: r, h => by
    simp only [wfListE] at h
    have h1 := need_le t h.1
    have h2 := needList_le r h.2.1
    have h3 := core_le_bytes t
    simp only [needList, bytesList, List.length_append]
    omega
theorem needEntries_le {e : Bool} : ∀ (es : List (List NameItem × List SepItem × STree)), wfEntriesE e es →
    needEntries es ≤ 2 * (bytesEntries es).length + 1
  | [], _ => by simp [needEntries, bytesEntries]
  | (k, g, v) :: r, h => by
    simp only [wfEntriesE] at h
    have h1 := need_le v h.2.2.2.1
    have h2 := needEntries_le r h.2.2.2.2
    have h3 := core_le_bytes v
    simp only [needEntries, bytesEntries, List.length_append, List.length_cons]
    omega
end

/-- COMPLETENESS of the executable ISO reader on spelled trees, with the values of the C01 theorems:
    `spellcheck` accepts every well-formed spelling (any separator in front, minimal delimiters,
    comments, odd hex digit counts included) and returns exactly `specValue t`. -/
theorem spellcheck_complete {e : Bool} (pad : List SepItem) (hpad : sepOK pad) (t : STree) (h : wfE e t) :
    Syntax.spellcheck (renderSep pad ++ bytesOf t) = some (specValue t) := by
  have hgt := trail_ok t h
  have hskip : Syntax.skipWsAll (renderSep pad ++ bytesOf t) = coreOf t ++ renderSep (trailOf t) := by
    rw [bytesOf_core]; exact skip_to_core pad hpad t h _
  have hfuel : need t ≤ 2 * (renderSep pad ++ bytesOf t).length + 2 := by
    have h1 := need_le t h
    have h2 := core_le_bytes t
    simp only [List.length_append]
    omega
  have hreg : coreReg t = true → Syntax.isRegular ((renderSep (trailOf t)).headD 32) = false := by
    intro _
    cases hg : trailOf t with
    | nil => simp [renderSep]; decide
    | cons i gr =>
      rw [hg] at hgt
      have := sep_head_nonreg (i :: gr) hgt (by simp) []
      simpa using this
  have href : uintInt t = true → Syntax.parseRefTail (renderSep (trailOf t)) = none := by
    intro _
    apply refTail_none_1
    have : Syntax.skipWsAll (renderSep (trailOf t)) = [] := by
      have := skip_sep (trailOf t) hgt []
      simpa [skip_nil] using this
    simp [run1, this, Syntax.takeRegular, Syntax.unsignedInt]
  have hp := parse_tree t h _ (renderSep (trailOf t)) hfuel hreg href
  have hend : Syntax.skipWsAll (renderSep (trailOf t)) = [] := by
    have := skip_sep (trailOf t) hgt []
    simpa [skip_nil] using this
  unfold Syntax.spellcheck
  rw [hskip, hp]
  simp [hend]

end PdfVerif.SpecSound
