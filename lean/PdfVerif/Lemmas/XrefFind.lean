/-
C02 — `PDFDocument.find_xref`: the backward scan finds the LAST `startxref` line and the first
non-blank line after it, whatever stands before (older revisions with their own `startxref`) and
however the tail is laid out (EOL style, trailing blanks, blank lines, with or without a final EOL).
-/
import PdfVerif.Lemmas.XrefTable

namespace PdfVerif.Xref

open PdfVerif.Gen.Xref

/-- A physical line as `revreadlines` yields it: the EOL byte that starts it, then EOL-free bytes. -/
structure RLine where
  e : UInt8
  t : Bytes

def RLine.bytes (l : RLine) : Bytes := l.e :: l.t

def RLine.OK (l : RLine) : Prop := isEol l.e = true ∧ noEol l.t

instance (l : Bytes) : Decidable (noEol l) := by unfold noEol; infer_instance
instance (l : RLine) : Decidable l.OK := by unfold RLine.OK; infer_instance

theorem lineEol_isEol (eol : LineEol) : ∀ b ∈ eol.bytes, isEol b = true := by
  cases eol <;> decide

def rlinesBytes : List RLine → Bytes
  | [] => []
  | l :: r => l.bytes ++ rlinesBytes r

theorem rlinesBytes_append (a b : List RLine) : rlinesBytes (a ++ b) = rlinesBytes a ++ rlinesBytes b := by
  induction a with
  | nil => rfl
  | cons l a ih => simp [rlinesBytes, ih]

/-- a run of EOL bytes = that many empty lines -/
def blankLines (es : Bytes) : List RLine := es.map (fun e => ⟨e, []⟩)

theorem rlinesBytes_blank (es : Bytes) : rlinesBytes (blankLines es) = es := by
  induction es with
  | nil => rfl
  | cons e es ih =>
    show rlinesBytes (⟨e, []⟩ :: blankLines es) = e :: es
    simp [rlinesBytes, RLine.bytes, ih]

theorem revLines_snoc_line (p : Bytes) (l : RLine) (h : l.OK) :
    revLines (p ++ l.bytes) = l.bytes :: revLines p := by
  unfold revLines RLine.bytes
  rw [segs_append_eol p l.e l.t h.1 h.2]
  simp

/-- Everything after the head of a file that consists of well-formed lines comes out of
`revreadlines` line by line, last line first, followed by the lines of what stands before. -/
theorem revLines_lines (ls : List RLine) (h : ∀ l ∈ ls, l.OK) (pre : Bytes) :
    revLines (pre ++ rlinesBytes ls) = (ls.map RLine.bytes).reverse ++ revLines pre := by
  induction ls generalizing pre with
  | nil => simp [rlinesBytes]
  | cons l ls ih =>
    simp only [rlinesBytes]
    rw [← List.append_assoc, ih (fun x hx => h x (List.mem_cons_of_mem _ hx)),
      revLines_snoc_line pre l (h l List.mem_cons_self)]
    simp

/-! ### The loop of `find_xref` -/

/-- `if line: prev = line` -/
def prevStep (p : Bytes) (line : Bytes) : Bytes := if (strip line).isEmpty then p else strip line

theorem findXrefLines_skip (ls rest : List Bytes) (prev : Bytes) (h : ∀ l ∈ ls, strip l ≠ kwStartxref) :
    findXrefLines (ls ++ rest) prev = findXrefLines rest (ls.foldl prevStep prev) := by
  induction ls generalizing prev with
  | nil => rfl
  | cons l ls ih =>
    have hl : (strip l == kwStartxref) = false := by
      simpa using h l List.mem_cons_self
    simp only [List.cons_append, findXrefLines, hl, List.foldl_cons, Bool.false_eq_true, ↓reduceIte]
    rw [ih _ (fun x hx => h x (List.mem_cons_of_mem _ hx))]
    rfl

theorem findXrefLines_hit (l : Bytes) (rest : List Bytes) (prev : Bytes) (h : strip l = kwStartxref) :
    findXrefLines (l :: rest) prev =
      if isDigits prev then .ok (decNat prev) else .error .noValidXRef := by
  simp [findXrefLines, h]

theorem foldl_prevStep_blank (ls : List Bytes) (prev : Bytes) (h : ∀ l ∈ ls, strip l = []) :
    ls.foldl prevStep prev = prev := by
  induction ls generalizing prev with
  | nil => rfl
  | cons l ls ih =>
    have hl := h l List.mem_cons_self
    simp only [List.foldl_cons, prevStep, hl, List.isEmpty_nil, ↓reduceIte]
    exact ih _ (fun x hx => h x (List.mem_cons_of_mem _ hx))

/-- The loop on the reversed lines: lines `after` (none is the keyword), the first non-blank line
`num` after the keyword line, blank lines `middle`, the keyword line, anything older. -/
theorem findXrefLines_layout (pre : List Bytes) (kw num : Bytes) (middle after : List Bytes)
    (hkw : strip kw = kwStartxref) (hmid : ∀ l ∈ middle, strip l = [])
    (hnum1 : strip num ≠ []) (hnum2 : strip num ≠ kwStartxref)
    (hafter : ∀ l ∈ after, strip l ≠ kwStartxref) :
    findXrefLines (after.reverse ++ num :: (middle.reverse ++ kw :: pre)) [] =
      if isDigits (strip num) then .ok (decNat (strip num)) else .error .noValidXRef := by
  have hne : ([] : Bytes) ≠ kwStartxref := by decide
  have e1 : after.reverse ++ num :: (middle.reverse ++ kw :: pre) =
      (after.reverse ++ (num :: middle.reverse)) ++ (kw :: pre) := by simp
  rw [e1, findXrefLines_skip _ _ _ (by
    intro l hl
    rcases List.mem_append.mp hl with h | h
    · exact hafter l (List.mem_reverse.mp h)
    · rcases List.mem_cons.mp h with h | h
      · rw [h]; exact hnum2
      · rw [hmid l (List.mem_reverse.mp h)]; exact hne), findXrefLines_hit _ _ _ hkw]
  have hn : (strip num).isEmpty = false := by
    cases hs : strip num with
    | nil => exact absurd hs hnum1
    | cons a b => rfl
  have : (after.reverse ++ (num :: middle.reverse)).foldl prevStep [] = strip num := by
    rw [List.foldl_append, List.foldl_cons,
      foldl_prevStep_blank middle.reverse _ (fun l hl => hmid l (List.mem_reverse.mp hl))]
    simp [prevStep, hn]
  rw [this]

/-- No line is the keyword: `PDFNoValidXRef("Unexpected EOF")`. -/
theorem findXrefLines_none (ls : List Bytes) (prev : Bytes) (h : ∀ l ∈ ls, strip l ≠ kwStartxref) :
    findXrefLines ls prev = .error .noValidXRef := by
  have := findXrefLines_skip ls [] prev h
  rw [List.append_nil] at this
  rw [this]; rfl

/-! ### `strip` of a padded word -/

theorem strip_pad (ws1 s ws2 : Bytes) (hne : s ≠ []) (hs : ∀ b ∈ s, isPySpace b = false)
    (h1 : ∀ b ∈ ws1, isPySpace b = true) (h2 : ∀ b ∈ ws2, isPySpace b = true) :
    strip (ws1 ++ (s ++ ws2)) = s := by
  have hstrip : strip (ws1 ++ (s ++ ws2)) = strip (s ++ ws2) := by
    unfold strip
    rw [dropWhile_append_all _ _ h1]
  rw [hstrip]
  cases s with
  | nil => exact absurd rfl hne
  | cons c0 cs =>
    rcases List.eq_nil_or_concat (c0 :: cs) with h | ⟨init, last, h⟩
    · exact absurd h (by simp)
    · rw [List.concat_eq_append] at h
      have hlast : last ∈ c0 :: cs := by rw [h]; simp
      exact strip_core c0 cs init last ws2 h (hs c0 List.mem_cons_self) (hs last hlast) h2

theorem strip_allspace (ws : Bytes) (h : ∀ b ∈ ws, isPySpace b = true) : strip ws = [] := by
  unfold strip
  have := dropWhile_append_all (p := isPySpace) ws [] h
  rw [List.append_nil] at this
  rw [this]; rfl

theorem eol_space (c : UInt8) : isEol c = true → isPySpace c = true :=
  u8_all (fun c => isEol c = true → isPySpace c = true) (by decide +kernel) c

theorem space_facts (c : UInt8) : c = 32 → isPySpace c = true ∧ isEol c = false := by
  intro h; rw [h]; decide

/-! ### From bytes to the loop -/

theorem findXref_layout_bytes (pre : Bytes) (kw num : RLine) (middle after : List RLine)
    (hk : kw.OK) (hn : num.OK) (hm : ∀ l ∈ middle, l.OK) (ha : ∀ l ∈ after, l.OK)
    (hkw : strip kw.bytes = kwStartxref) (hmid : ∀ l ∈ middle, strip l.bytes = [])
    (hnum1 : strip num.bytes ≠ []) (hnum2 : strip num.bytes ≠ kwStartxref)
    (hafter : ∀ l ∈ after, strip l.bytes ≠ kwStartxref) :
    findXrefLines (revLines (pre ++ rlinesBytes (kw :: middle ++ num :: after))) [] =
      if isDigits (strip num.bytes) then .ok (decNat (strip num.bytes)) else .error .noValidXRef := by
  have hall : ∀ l ∈ kw :: middle ++ num :: after, l.OK := by
    intro l hl
    rcases List.mem_append.mp hl with h | h
    · rcases List.mem_cons.mp h with h | h
      · rw [h]; exact hk
      · exact hm l h
    · rcases List.mem_cons.mp h with h | h
      · rw [h]; exact hn
      · exact ha l h
  rw [revLines_lines _ hall]
  have e : ((kw :: middle ++ num :: after).map RLine.bytes).reverse ++ revLines pre =
      (after.map RLine.bytes).reverse ++ num.bytes ::
        ((middle.map RLine.bytes).reverse ++ kw.bytes :: revLines pre) := by simp
  rw [e]
  exact findXrefLines_layout (revLines pre) kw.bytes num.bytes (middle.map RLine.bytes) (after.map RLine.bytes)
    hkw
    (by intro l hl; obtain ⟨x, hx, rfl⟩ := List.mem_map.mp hl; exact hmid x hx)
    hnum1 hnum2
    (by intro l hl; obtain ⟨x, hx, rfl⟩ := List.mem_map.mp hl; exact hafter x hx)

theorem blank_facts (es : Bytes) (hes : ∀ x ∈ es, isEol x = true) :
    ∀ l ∈ blankLines es, l.OK ∧ strip l.bytes = [] := by
  intro l hl
  obtain ⟨e, he, rfl⟩ := List.mem_map.mp hl
  refine ⟨⟨hes e he, noEol_nil⟩, ?_⟩
  exact strip_allspace [e] (by
    intro b hb
    rw [List.mem_singleton.mp hb]
    exact eol_space e (hes e he))

theorem noEol_kwStartxref : noEol kwStartxref := by
  intro b hb
  revert b
  decide

def kwEOFnoEol : noEol kwEOF := by
  intro b hb
  revert b
  decide

/-- The tail of a file: keyword, number and `%%EOF`, each possibly followed by blanks, separated
by non-empty runs of EOL bytes (any mixture of CR and LF), optionally ended by such a run. -/
theorem findXref_tail_bytes (pre : Bytes) (e0 : UInt8) (he0 : isEol e0 = true)
    (sp1 sp2 sp3 X1 X2 X3 d : Bytes)
    (hsp1 : ∀ x ∈ sp1, x = 32) (hsp2 : ∀ x ∈ sp2, x = 32) (hsp3 : ∀ x ∈ sp3, x = 32)
    (hX1 : ∀ x ∈ X1, isEol x = true) (hX2 : ∀ x ∈ X2, isEol x = true) (hX3 : ∀ x ∈ X3, isEol x = true)
    (hX1ne : X1 ≠ []) (hX2ne : X2 ≠ []) (hdne : d ≠ []) (hd : ∀ x ∈ d, isDigit x = true) :
    findXrefLines (revLines (pre ++ e0 :: (kwStartxref ++ (sp1 ++ (X1 ++ (d ++ (sp2 ++ (X2 ++
      (kwEOF ++ (sp3 ++ X3)))))))))) [] = .ok (decNat d) := by
  rcases List.eq_nil_or_concat X1 with h | ⟨E1, e1, h⟩
  · exact absurd h hX1ne
  rcases List.eq_nil_or_concat X2 with h2 | ⟨E2, e2, h2⟩
  · exact absurd h2 hX2ne
  rw [List.concat_eq_append] at h h2
  subst h h2
  have he1 : isEol e1 = true := hX1 e1 (by simp)
  have he2 : isEol e2 = true := hX2 e2 (by simp)
  have hE1 : ∀ x ∈ E1, isEol x = true := fun x hx => hX1 x (by simp [hx])
  have hE2 : ∀ x ∈ E2, isEol x = true := fun x hx => hX2 x (by simp [hx])
  have hsp : ∀ (sp : Bytes), (∀ x ∈ sp, x = 32) → (∀ x ∈ sp, isPySpace x = true) ∧ noEol sp := by
    intro sp h
    exact ⟨fun x hx => (space_facts x (h x hx)).1, fun x hx => (space_facts x (h x hx)).2⟩
  have hdsp : ∀ x ∈ d, isPySpace x = false := fun x hx => (digit_facts x (hd x hx)).2.1
  have hdeol : noEol d := fun x hx => (digit_facts x (hd x hx)).1
  have hdata : pre ++ e0 :: (kwStartxref ++ (sp1 ++ ((E1 ++ [e1]) ++ (d ++ (sp2 ++ ((E2 ++ [e2]) ++
      (kwEOF ++ (sp3 ++ X3)))))))) =
      pre ++ rlinesBytes ((⟨e0, kwStartxref ++ sp1⟩ : RLine) :: blankLines E1 ++ (⟨e1, d ++ sp2⟩ : RLine) ::
        (blankLines E2 ++ (⟨e2, kwEOF ++ sp3⟩ : RLine) :: blankLines X3)) := by
    simp [rlinesBytes, rlinesBytes_append, rlinesBytes_blank, RLine.bytes]
  have hnum : strip (e1 :: (d ++ sp2)) = d :=
    strip_pad [e1] d sp2 hdne hdsp
      (by intro b hb; rw [List.mem_singleton.mp hb]; exact eol_space e1 he1) (hsp sp2 hsp2).1
  have hEOF : strip (e2 :: (kwEOF ++ sp3)) = kwEOF :=
    strip_pad [e2] kwEOF sp3 (by decide) (by decide)
      (by intro b hb; rw [List.mem_singleton.mp hb]; exact eol_space e2 he2) (hsp sp3 hsp3).1
  have hne : ([] : Bytes) ≠ kwStartxref := by decide
  rw [hdata, findXref_layout_bytes pre ⟨e0, kwStartxref ++ sp1⟩ ⟨e1, d ++ sp2⟩ (blankLines E1)
    (blankLines E2 ++ (⟨e2, kwEOF ++ sp3⟩ : RLine) :: blankLines X3)
    ⟨he0, noEol_append noEol_kwStartxref (hsp sp1 hsp1).2⟩
    ⟨he1, noEol_append hdeol (hsp sp2 hsp2).2⟩
    (fun l hl => (blank_facts E1 hE1 l hl).1)
    (by
      intro l hl
      rcases List.mem_append.mp hl with h | h
      · exact (blank_facts E2 hE2 l h).1
      · rcases List.mem_cons.mp h with h | h
        · rw [h]; exact ⟨he2, noEol_append kwEOFnoEol (hsp sp3 hsp3).2⟩
        · exact (blank_facts X3 hX3 l h).1)
    (strip_pad [e0] kwStartxref sp1 (by decide) (by decide)
      (by intro b hb; rw [List.mem_singleton.mp hb]; exact eol_space e0 he0) (hsp sp1 hsp1).1)
    (fun l hl => (blank_facts E1 hE1 l hl).2)
    (by show strip (e1 :: (d ++ sp2)) ≠ []; rw [hnum]; exact hdne)
    (by
      show strip (e1 :: (d ++ sp2)) ≠ kwStartxref
      rw [hnum]
      intro hk
      have := hd 115 (by rw [hk]; decide)
      revert this; decide)
    (by
      intro l hl
      rcases List.mem_append.mp hl with h | h
      · rw [(blank_facts E2 hE2 l h).2]; exact hne
      · rcases List.mem_cons.mp h with h | h
        · rw [h]; show strip (e2 :: (kwEOF ++ sp3)) ≠ kwStartxref; rw [hEOF]; decide
        · rw [(blank_facts X3 hX3 l h).2]; exact hne)]
  have hnum' : strip (RLine.bytes ⟨e1, d ++ sp2⟩) = d := hnum
  rw [hnum']
  have : isDigits d = true := by
    unfold isDigits
    cases d with
    | nil => exact absurd rfl hdne
    | cons a t => simp only [List.isEmpty_cons, Bool.not_false, Bool.true_and, List.all_eq_true]; exact hd
  simp [this]

theorem eolRep_eol (eol : LineEol) (k : Nat) : ∀ x ∈ eolRep eol k, isEol x = true := by
  induction k with
  | zero => intro x hx; cases hx
  | succ k ih =>
    intro x hx
    simp only [eolRep, List.mem_append] at hx
    rcases hx with h | h
    · exact lineEol_isEol eol x h
    · exact ih x h

theorem eolRep_succ_ne (eol : LineEol) (k : Nat) : eolRep eol (k + 1) ≠ [] := by
  cases eol <;> simp [eolRep, LineEol.bytes]

end PdfVerif.Xref
