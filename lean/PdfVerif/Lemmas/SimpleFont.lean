/-
Helper lemmas for C06 (simple fonts).  Property theorems are in `Props/C06.lean`.
-/
import PdfVerif.Spec.SimpleFont

namespace PdfVerif.SimpleFont
open PdfVerif PdfVerif.SimpleFont.Spec PdfVerif.Gen.FontCode

/-! ### association lists -/

theorem tlookup_nil (k : Int) : tlookup [] k = none := rfl

theorem tlookup_cons (a : Int × Text) (t : Table) (k : Int) :
    tlookup (a :: t) k = if a.1 == k then some a.2 else tlookup t k := by
  unfold tlookup
  simp only [List.find?_cons]
  cases h : (a.1 == k) <;> simp

theorem tlookup_tpop (t : Table) (c k : Int) :
    tlookup (tpop t c) k = if c == k then none else tlookup t k := by
  induction t with
  | nil => simp [tpop, tlookup]
  | cons a t ih =>
    unfold tpop at ih ⊢
    simp only [List.filter_cons]
    by_cases hac : a.1 = c
    · subst hac
      simp only [bne_self_eq_false, Bool.false_eq_true, if_false, ih, tlookup_cons]
      by_cases hk : a.1 = k <;> simp [hk]
    · have : (a.1 != c) = true := by simp [hac]
      simp only [this, if_true, tlookup_cons, ih]
      by_cases hk : a.1 = k
      · subst hk
        have : (c == a.1) = false := by simp; exact fun h => hac h.symm
        simp [this]
      · simp [hk]

/-! ### Differences -/

theorem lastAssigned_nil (code : Int) : lastAssigned [] code = none := rfl

theorem lastAssigned_cons (a : Int × Option Name) (as : List (Int × Option Name)) (code : Int) :
    lastAssigned (a :: as) code =
      match lastAssigned as code with
      | some x => some x
      | none => if a.1 == code then some a.2 else none := by
  unfold lastAssigned
  simp only [List.reverse_cons, List.find?_append]
  cases h : as.reverse.find? (fun a => a.1 == code) with
  | some x => simp
  | none =>
    simp only [Option.none_or, List.find?_cons, List.find?_nil]
    cases h2 : (a.1 == code) <;> simp

/-- The loop of `get_encoding` computes: last assignment to the code, else the table it started from. -/
theorem tlookup_applyDiff (gl : GlyphList) (toks : List DiffTok) :
    ∀ (t : Table) (cid code : Int),
      tlookup (applyDiff gl t cid toks) code =
        match lastAssigned (assignments cid toks) code with
        | some nm => name2unicode gl nm
        | none => tlookup t code := by
  induction toks with
  | nil => intro t cid code; simp [applyDiff, assignments, lastAssigned_nil]
  | cons tok rest ih =>
    intro t cid code
    cases tok with
    | num n => simp only [applyDiff, assignments]; exact ih t n code
    | other => simp only [applyDiff, assignments]; exact ih t cid code
    | name nm =>
      simp only [applyDiff, assignments, lastAssigned_cons]
      cases hn : name2unicode gl nm with
      | some u =>
        simp only [ih, tlookup_cons]
        cases hl : lastAssigned (assignments (cid + 1) rest) code with
        | some x => simp
        | none =>
          by_cases hc : cid = code
          · subst hc; simp [hn]
          · simp [hc]
      | none =>
        simp only [ih, tlookup_tpop]
        cases hl : lastAssigned (assignments (cid + 1) rest) code with
        | some x => simp
        | none =>
          by_cases hc : cid = code
          · subst hc; simp [hn]
          · simp [hc]

/-! ### base tables -/

/-- Every glyph name of the ENCODING rows has a value (table fact; validated on the regenerated data). -/
def RowsResolve (gl : GlyphList) (rows : List EncRow) : Prop :=
  ∀ r ∈ rows, (name2unicode gl (some r.1)).isSome = true

def rowHits (col : Nat) (code : Int) (r : EncRow) : Bool :=
  match rowCode col r with
  | some c => c != 0 && Int.ofNat c == code
  | none => false

theorem baseName_eq (rows : List EncRow) (col : Nat) (code : Int) :
    baseName rows col code = (match rows.reverse.find? (rowHits col code) with
      | some r => some r.1
      | none => none) := rfl

theorem baseName_nil (col : Nat) (code : Int) : baseName [] col code = none := rfl

theorem baseName_cons (r : EncRow) (rows : List EncRow) (col : Nat) (code : Int) :
    baseName (r :: rows) col code =
      match baseName rows col code with
      | some n => some n
      | none => if rowHits col code r then some r.1 else none := by
  simp only [baseName_eq, List.reverse_cons, List.find?_append]
  cases h : rows.reverse.find? (rowHits col code) with
  | some x => simp
  | none =>
    simp only [Option.none_or, List.find?_cons, List.find?_nil]
    cases h2 : rowHits col code r <;> simp

/-- The class body of `EncodingDB` computes: value of the name of the last row listing the code. -/
theorem tlookup_buildTable (gl : GlyphList) (col : Nat) (rows : List EncRow) :
    RowsResolve gl rows → ∀ (t : Table) (code : Int),
      tlookup (buildTable gl col rows t) code =
        match baseName rows col code with
        | some n => name2unicode gl (some n)
        | none => tlookup t code := by
  induction rows with
  | nil => intro _ t code; simp [buildTable, baseName_nil]
  | cons r rs ih =>
    intro hres t code
    have hr : (name2unicode gl (some r.1)).isSome = true := hres r (List.mem_cons_self)
    have hrs : RowsResolve gl rs := fun x hx => hres x (List.mem_cons_of_mem _ hx)
    obtain ⟨u, hu⟩ := Option.isSome_iff_exists.mp hr
    simp only [buildTable, baseName_cons, hu]
    cases hc : rowCode col r with
    | none =>
      have hh : rowHits col code r = false := by simp [rowHits, hc]
      simp only [ih hrs, hh]
      cases baseName rs col code <;> simp
    | some c =>
      by_cases hz : c = 0
      · subst hz
        have hh : rowHits col code r = false := by simp [rowHits, hc]
        simp only [bne_self_eq_false, Bool.false_eq_true, if_false, ih hrs, hh]
        cases baseName rs col code <;> simp
      · have hnz : (c != 0) = true := by simp [hz]
        simp only [hnz, if_true, ih hrs, tlookup_cons]
        cases hb : baseName rs col code with
        | some n => simp
        | none =>
          by_cases hk : (c : Int) = code
          · have hh : rowHits col code r = true := by simp [rowHits, hc, hz, hk]
            simp [hh, hk, hu]
          · have hh : rowHits col code r = false := by simp [rowHits, hc, hk]
            simp [hh, hk]

/-- `encodings.get(name, std2unicode)` picks the table of the column the specification names. -/
theorem get_ofRows (gl : GlyphList) (rows : List EncRow) (cols : List (String × Nat)) (dflt : Nat) (name : String) :
    (EncDB.ofRows gl rows cols dflt).get name = buildTable gl (encColumn cols dflt name) rows [] := by
  unfold EncDB.get EncDB.ofRows encColumn
  simp only
  induction cols with
  | nil => simp
  | cons e es ih =>
    simp only [List.map_cons, List.find?_cons]
    cases h : (e.1 == name)
    · exact ih
    · rfl

/-! ### widths -/

theorem wlookup_append (a b : List (Int × Rat)) (k : Int) :
    wlookup (a ++ b) k = match wlookup a k with
      | some w => some w
      | none => wlookup b k := by
  unfold wlookup
  simp only [List.find?_append]
  cases h : a.find? (fun e => e.1 == k) <;> simp

/-- The dict built from `Widths` and `FirstChar` holds `Widths[code - FirstChar]`. -/
theorem wlookup_enumWidths (ws : List Rat) :
    ∀ (first k : Int), wlookup (enumWidths first ws) k =
      if first ≤ k then ws[(k - first).toNat]? else none := by
  induction ws with
  | nil => intro first k; simp [enumWidths, wlookup]
  | cons w ws ih =>
    intro first k
    simp only [enumWidths, wlookup_append, ih]
    by_cases h1 : first + 1 ≤ k
    · have h0 : first ≤ k := by omega
      have hidx : (k - first).toNat = (k - (first + 1)).toNat + 1 := by omega
      simp only [h1, h0, if_true, hidx, List.getElem?_cons_succ]
      cases hw : ws[(k - (first + 1)).toNat]? with
      | some x => simp
      | none =>
        have : (first == k) = false := by simp; omega
        simp [wlookup, this]
    · by_cases h0 : first ≤ k
      · have hk : k = first := by omega
        subst hk
        simp [h1, wlookup]
      · have : (first == k) = false := by simp; omega
        simp [h1, h0, wlookup, this]

/-! ### built-in encoding of a Type 1 program -/

theorem tlookup_putsEncoding (gl : GlyphList) (puts : List (Int × Option Name)) :
    ∀ (t : Table) (code : Int),
      tlookup (putsEncoding gl t puts) code =
        match lastAssigned puts code with
        | some nm => name2unicode gl nm
        | none => tlookup t code := by
  induction puts with
  | nil => intro t code; simp [putsEncoding, lastAssigned_nil]
  | cons p rest ih =>
    intro t code
    obtain ⟨cid, nm⟩ := p
    simp only [putsEncoding, lastAssigned_cons]
    cases hn : name2unicode gl nm with
    | some u =>
      simp only [ih, tlookup_cons]
      cases hl : lastAssigned rest code with
      | some x => simp
      | none =>
        by_cases hc : cid = code
        · subst hc; simp [hn]
        · simp [hc]
    | none =>
      simp only [ih, tlookup_tpop]
      cases hl : lastAssigned rest code with
      | some x => simp
      | none =>
        by_cases hc : cid = code
        · subst hc; simp [hn]
        · simp [hc]

/-! ### ToUnicode -/

theorem tuText_nil (code : Int) : tuText [] code = none := rfl

theorem tuText_cons (d : Int × List UInt8) (defs : List (Int × List UInt8)) (code : Int) :
    tuText (d :: defs) code =
      match tuText defs code with
      | some t => some t
      | none => if d.1 == code then some (utf16beIgnore d.2) else none := by
  unfold tuText
  simp only [List.reverse_cons, List.find?_append]
  cases h : defs.reverse.find? (fun a => a.1 == code) with
  | some x => simp
  | none =>
    simp only [Option.none_or, List.find?_cons, List.find?_nil]
    cases h2 : (d.1 == code) <;> simp

/-- No code is defined both as a space and as a no-break space. -/
def NoClash (defs : List (Int × List UInt8)) : Prop :=
  ∀ d ∈ defs, ∀ e ∈ defs, utf16beIgnore d.2 = [0xA0] → e.1 = d.1 → utf16beIgnore e.2 ≠ [0x20]

theorem noClash_of_nbspClash {defs : List (Int × List UInt8)} (h : nbspClash defs = false) : NoClash defs := by
  intro d hd e he hA hcode hS
  unfold nbspClash at h
  have h1 := List.any_eq_false.mp h d hd
  simp only [hA, beq_self_eq_true, Bool.true_and] at h1
  have h1' : (defs.any fun e => e.fst == d.fst && utf16beIgnore e.snd == [32]) = false := by
    cases hx : (defs.any fun e => e.fst == d.fst && utf16beIgnore e.snd == [32]) with
    | false => rfl
    | true => exact absurd hx h1
  have h2 := List.any_eq_false.mp h1' e he
  simp [hcode, hS] at h2

theorem tlookup_foldl_addCid (defs : List (Int × List UInt8)) :
    ∀ (m : Table) (code : Int),
      (∀ d ∈ defs, utf16beIgnore d.2 = [0xA0] → tlookup m d.1 ≠ some [0x20]) → NoClash defs →
      tlookup (defs.foldl (fun m d => addCid2Unichr m d.1 d.2) m) code =
        match tuText defs code with
        | some t => some t
        | none => tlookup m code := by
  induction defs with
  | nil => intro m code _ _; simp [tuText_nil]
  | cons d rest ih =>
    intro m code hm hnc
    have hstep : addCid2Unichr m d.1 d.2 = (d.1, utf16beIgnore d.2) :: m := by
      unfold addCid2Unichr
      simp only [COLLISION_NEW, COLLISION_OLD]
      by_cases hA : utf16beIgnore d.2 = [0xA0]
      · have := hm d (List.mem_cons_self) hA
        have h2 : (tlookup m d.1 == some [0x20]) = false := by simpa using this
        simp [hA, h2]
      · have h1 : (utf16beIgnore d.2 == [0xA0]) = false := by simpa using hA
        simp [h1]
    have hnc' : NoClash rest := fun a ha b hb => hnc a (List.mem_cons_of_mem _ ha) b (List.mem_cons_of_mem _ hb)
    have hm' : ∀ d' ∈ rest, utf16beIgnore d'.2 = [0xA0] →
        tlookup ((d.1, utf16beIgnore d.2) :: m) d'.1 ≠ some [0x20] := by
      intro d' hd' hA
      rw [tlookup_cons]
      by_cases hk : d.1 = d'.1
      · simp only [hk, beq_self_eq_true, if_true]
        intro hS
        have hS' : utf16beIgnore d.2 = [0x20] := by simpa using hS
        exact hnc d' (List.mem_cons_of_mem _ hd') d (List.mem_cons_self) hA hk hS'
      · have : (d.1 == d'.1) = false := by simpa using hk
        simp only [this, Bool.false_eq_true, if_false]
        exact hm d' (List.mem_cons_of_mem _ hd') hA
    simp only [List.foldl_cons, hstep, ih _ code hm' hnc', tuText_cons, tlookup_cons]
    cases tuText rest code <;> cases (d.1 == code) <;> simp

/-- Without a space / no-break-space clash the ToUnicode dict holds the last definition of each code. -/
theorem tlookup_buildUmap (es : List TuEntry) (code : Int) (h : nbspClash (tuDefs es) = false) :
    tlookup (buildUmap es) code = tuText (tuDefs es) code := by
  unfold buildUmap
  rw [tlookup_foldl_addCid (tuDefs es) [] code (by intro d _ _; simp [tlookup_nil]) (noClash_of_nbspClash h)]
  cases tuText (tuDefs es) code <;> simp [tlookup_nil]

/-! ### Differences arrays as runs -/

theorem assignments_names (names : List (Option Name)) : ∀ (cur : Int) (rest : List DiffTok),
    assignments cur (names.map DiffTok.name ++ rest) =
      numberFrom cur names ++ assignments (cur + names.length) rest := by
  induction names with
  | nil => intro cur rest; simp [numberFrom]
  | cons n ns ih =>
    intro cur rest
    simp only [List.map_cons, List.cons_append, assignments, numberFrom, ih, List.length_cons]
    have : cur + 1 + (ns.length : Int) = cur + ((ns.length + 1 : Nat) : Int) := by omega
    rw [this]

theorem assignments_runs (runs : List (Int × List (Option Name))) : ∀ (cur : Int),
    assignments cur (diffOfRuns runs) = runs.flatMap (fun r => numberFrom r.1 r.2) := by
  induction runs with
  | nil => intro cur; rfl
  | cons r rs ih =>
    intro cur
    have e : diffOfRuns (r :: rs) = DiffTok.num r.1 :: (r.2.map DiffTok.name ++ diffOfRuns rs) := by
      simp [diffOfRuns]
    rw [e]
    simp only [assignments, assignments_names, List.flatMap_cons]
    rw [ih]

/-- The i-th name of a run that starts at `first` gets the code `first + i` - for every i (no wrap at 255). -/
theorem numberFrom_getElem (names : List (Option Name)) : ∀ (first : Int) (i : Nat),
    (numberFrom first names)[i]? = (names[i]?).map (fun nm => (first + i, nm)) := by
  induction names with
  | nil => intro first i; simp [numberFrom]
  | cons n ns ih =>
    intro first i
    cases i with
    | zero => simp [numberFrom]
    | succ j =>
      simp only [numberFrom, List.getElem?_cons_succ, ih]
      have : first + 1 + (j : Int) = first + ((j + 1 : Nat) : Int) := by omega
      rw [this]

/-! ### the exact space / no-break-space rule -/

/-- One definition of a code on top of the value in effect. -/
def nbStep (cur : Option Text) (v : Text) : Option Text :=
  if v == [0xA0] && cur == some [0x20] then cur else some v

theorem effective_cons (v : Text) (older : List Text) : effective (v :: older) = nbStep (effective older) v := by
  simp only [effective, nbStep]
  by_cases h : (v == [0xA0] && effective older == some [0x20]) = true
  · simp only [h, if_true]
    simp only [Bool.and_eq_true, beq_iff_eq] at h
    exact h.2.symm
  · simp [h]

theorem foldl_nbStep (vs : List Text) : ∀ (acc : List Text),
    vs.foldl nbStep (effective acc) = effective (vs.reverse ++ acc) := by
  induction vs with
  | nil => intro acc; rfl
  | cons v vs ih =>
    intro acc
    simp only [List.foldl_cons, ← effective_cons, ih (v :: acc), List.reverse_cons, List.append_assoc,
      List.singleton_append]

theorem tlookup_addCid (m : Table) (cid code : Int) (bs : List UInt8) :
    tlookup (addCid2Unichr m cid bs) code =
      if cid == code then nbStep (tlookup m code) (utf16beIgnore bs) else tlookup m code := by
  unfold addCid2Unichr nbStep
  simp only [COLLISION_NEW, COLLISION_OLD]
  by_cases hk : cid = code
  · subst hk
    simp only [beq_self_eq_true, if_true]
    by_cases h : (utf16beIgnore bs == [160] && tlookup m cid == some [32]) = true
    · simp [h]
    · simp [h, tlookup_cons]
  · have hk' : (cid == code) = false := by simpa using hk
    simp only [hk', Bool.false_eq_true, if_false]
    by_cases h : (utf16beIgnore bs == [160] && tlookup m cid == some [32]) = true
    · simp [h]
    · simp [h, tlookup_cons, hk']

theorem tlookup_foldl_addCid_exact (defs : List (Int × List UInt8)) (code : Int) : ∀ (m : Table),
    tlookup (defs.foldl (fun m d => addCid2Unichr m d.1 d.2) m) code =
      ((defs.filter (fun d => d.1 == code)).map (fun d => utf16beIgnore d.2)).foldl nbStep (tlookup m code) := by
  induction defs with
  | nil => intro m; rfl
  | cons d rest ih =>
    intro m
    simp only [List.foldl_cons, ih, tlookup_addCid, List.filter_cons]
    cases hk : (d.1 == code) <;> simp

/-- For EVERY ToUnicode map the dict holds, per code, the value in effect under the space / no-break-space rule. -/
theorem tlookup_buildUmap_exact (es : List TuEntry) (code : Int) :
    tlookup (buildUmap es) code = tuTextExact (tuDefs es) code := by
  unfold buildUmap tuTextExact codeDefs
  rw [tlookup_foldl_addCid_exact]
  have := foldl_nbStep ((List.filter (fun d => d.1 == code) (tuDefs es)).map (fun d => utf16beIgnore d.2)) []
  simpa [tlookup_nil, effective] using this

end PdfVerif.SimpleFont
