/-
C16 helper lemmas (round 6): what `paint_path` makes of the path appended by `re` under an arbitrary CTM.
-/
import PdfVerif.Lemmas.Paths

set_option linter.constructorNameAsVariable false

namespace PdfVerif.PathLemmas
open PdfVerif PdfVerif.Paths PdfVerif.PathSpec PdfVerif.Gen.PathsGen

/-- The five segments `re` appends, as path segments. -/
theorem rePath_segs (x y w h : Rat) :
    (rePath x y w h).filterMap segOfRaw =
      [PSeg.m (x, y), PSeg.l (x + w, y), PSeg.l (x + w, y + h), PSeg.l (x, y + h), PSeg.h] := by
  simp [rePath, segOfRaw]

/-- `paint_path` on the path of one `re`, for ANY matrix: the redundant-`l` test, then rectangle or curve. -/
theorem paintPath_re (ctm : Matrix) (a : PaintArgs) (x y w h : Rat) :
    paintPath ctm a ((rePath x y w h).filterMap segOfRaw) =
      (let p0 := apply_matrix_pt ctm (x, y)
       let p1 := apply_matrix_pt ctm (x + w, y)
       let p2 := apply_matrix_pt ctm (x + w, y + h)
       let p3 := apply_matrix_pt ctm (x, y + h)
       let tp := [PSeg.m p0, PSeg.l p1, PSeg.l p2, PSeg.l p3, PSeg.h]
       if p3 = p0 then [mkCurve a [p0, p1, p2, p3] tp]
       else if squareCoords p0 p1 p2 p3 = true then
         [{ mkRect a (p0.1, p0.2, p2.1, p2.2) tp with pts := [p0, p1, p2, p3] }]
       else [mkCurve a [p0, p1, p2, p3, p0] tp]) := by
  rw [rePath_segs]
  by_cases h30 : apply_matrix_pt ctm (x, y + h) = apply_matrix_pt ctm (x, y)
  · simp [paintPath, explicitM, PSeg.isM, PSeg.isSeg, PSeg.isH, countM, List.filter, paintSingle,
      PSeg.lastPt, PSeg.letter, PSeg.mapPts, redundantL_eq, classifyShape_eq, redundantCut, redundantTail, h30]
  · have h30' : ¬ (apply_matrix_pt ctm (x, y) = apply_matrix_pt ctm (x, y + h)) := fun e => h30 e.symm
    simp [paintPath, explicitM, PSeg.isM, PSeg.isSeg, PSeg.isH, countM, List.filter, paintSingle,
      PSeg.lastPt, PSeg.letter, PSeg.mapPts, redundantL_eq, classifyShape_eq, redundantCut, redundantTail, h30, h30']

/-- Closing point = 4th corner exactly when the matrix collapses the y direction. -/
theorem re_corner_collapses (a b c d e f x y h : Rat) (hh : h ≠ 0) :
    apply_matrix_pt (a, b, c, d, e, f) (x, y + h) = apply_matrix_pt (a, b, c, d, e, f) (x, y) ↔ c = 0 ∧ d = 0 := by
  simp only [apply_matrix_pt, Prod.mk.injEq]
  constructor
  · rintro ⟨h1, h2⟩
    have e1 : c * h = 0 := by grind
    have e2 : d * h = 0 := by grind
    exact ⟨by grind, by grind⟩
  · rintro ⟨rfl, rfl⟩
    constructor <;> grind

/-- `has_square_coordinates` on the transformed corners of a non-degenerate `re`. -/
theorem re_square_under_ctm (a b c d e f x y w h : Rat) (hw : w ≠ 0) (hh : h ≠ 0) :
    squareCoords (apply_matrix_pt (a, b, c, d, e, f) (x, y)) (apply_matrix_pt (a, b, c, d, e, f) (x + w, y))
        (apply_matrix_pt (a, b, c, d, e, f) (x + w, y + h)) (apply_matrix_pt (a, b, c, d, e, f) (x, y + h)) = true ↔
      (a = 0 ∧ d = 0) ∨ (b = 0 ∧ c = 0) := by
  rw [squareCoords_eq]
  unfold axisAligned
  rw [decide_eq_true_eq]
  simp only [apply_matrix_pt]
  constructor
  · rintro (⟨h1, h2, _, _⟩ | ⟨h1, h2, _, _⟩)
    · left
      have e1 : a * w = 0 := by grind
      have e2 : d * h = 0 := by grind
      exact ⟨by grind, by grind⟩
    · right
      have e1 : b * w = 0 := by grind
      have e2 : c * h = 0 := by grind
      exact ⟨by grind, by grind⟩
  · rintro (⟨rfl, rfl⟩ | ⟨rfl, rfl⟩)
    · left; refine ⟨?_, ?_, ?_, ?_⟩ <;> grind
    · right; refine ⟨?_, ?_, ?_, ?_⟩ <;> grind

/-! ### attributes of every shape, for ANY path (ill-formed ones included) -/

/-- The shape carries the flags of the paint call and width, dash and colours of the graphics state passed. -/
def attrsOk (a : PaintArgs) (s : Shape) : Prop :=
  s.stroke = a.stroke ∧ s.fill = a.fill ∧ s.evenodd = a.evenodd ∧ s.linewidth = a.gs.linewidth ∧
  s.dash = a.gs.dash ∧ s.scolor = a.gs.scolor ∧ s.ncolor = a.gs.ncolor

theorem classifyShape_attrs (a : PaintArgs) (shape : List Char) (pts : List Point) (tpath : List PSeg) :
    ∀ s ∈ classifyShape a shape pts tpath, attrsOk a s := by
  intro s hs
  rw [classifyShape_eq] at hs
  split at hs
  · split at hs
    · simp only [List.mem_singleton] at hs; subst hs; exact ⟨rfl, rfl, rfl, rfl, rfl, rfl, rfl⟩
    · cases hs
  · split at hs
    · split at hs
      · split at hs
        · simp only [List.mem_singleton] at hs; subst hs; exact ⟨rfl, rfl, rfl, rfl, rfl, rfl, rfl⟩
        · simp only [List.mem_singleton] at hs; subst hs; exact ⟨rfl, rfl, rfl, rfl, rfl, rfl, rfl⟩
      · cases hs
    · simp only [List.mem_singleton] at hs; subst hs; exact ⟨rfl, rfl, rfl, rfl, rfl, rfl, rfl⟩

theorem paintSingle_attrs (ctm : Matrix) (a : PaintArgs) (path : List PSeg) :
    ∀ s ∈ paintSingle ctm a path, attrsOk a s := by
  intro s hs
  cases path with
  | nil => cases hs
  | cons first rest => exact classifyShape_attrs _ _ _ _ s hs

theorem paintPath_attrs (ctm : Matrix) (a : PaintArgs) (path : List PSeg) :
    ∀ s ∈ paintPath ctm a path, attrsOk a s := by
  intro s hs
  unfold paintPath at hs
  split at hs
  · simp only at hs
    split at hs
    · rw [List.mem_flatMap] at hs
      obtain ⟨sub, _, h⟩ := hs
      exact paintSingle_attrs _ _ _ s h
    · exact paintSingle_attrs _ _ _ s hs
  · cases hs

/-- A path that does not begin with `m` (segments without a sub-path) paints nothing. -/
theorem paintPath_no_m (ctm : Matrix) (a : PaintArgs) (path : List PSeg)
    (h : ∀ p rest, path ≠ PSeg.m p :: rest) : paintPath ctm a path = [] := by
  unfold paintPath
  split
  · rename_i p rest; exact absurd rfl (h p rest)
  · rfl

theorem shapeOf_count (g : SGState) (st fi eo : Bool) (l : List SubPath) :
    (l.filterMap (shapeOf g st fi eo)).length = (l.filter (fun sp => !sp.segs.isEmpty)).length := by
  induction l with
  | nil => rfl
  | cons sp rest ih =>
    by_cases h : sp.segs.isEmpty = true
    · simp [List.filterMap_cons, List.filter_cons, shapeOf, h, ih]
    · simp [List.filterMap_cons, List.filter_cons, shapeOf, h, ih]

/-! ### page isolation -/

/-- `init_state` overwrites every attribute the model tracks: the start state of a page does not depend on
what the previous page left behind.  (Breaks when an attribute is dropped from `init_state`.) -/
theorem initStateOn_eq (prev : IState) (ctm : Matrix) (res : List (String × CsSpec)) :
    initStateOn prev ctm res = initState ctm res := by
  simp [initStateOn, initState, initStateResets]

theorem runPagesFrom_eq (prev : IState) (pages : List PageIn) :
    runPagesFrom prev pages = pages.map (fun p => runPage p.rotate p.mb p.res p.toks) := by
  induction pages generalizing prev with
  | nil => rfl
  | cons p rest ih =>
    obtain ⟨rot, ⟨x0, y0, x1, y1⟩, res, toks⟩ := p
    simp only [runPagesFrom, initStateOn_eq, ih, List.map_cons]
    cases h : execute toks (initState (pageCtm rot x0 y0 x1 y1) res) <;> simp [runPage, h]

end PdfVerif.PathLemmas
