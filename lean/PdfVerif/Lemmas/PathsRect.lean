/-
C16 helper lemmas (round 6): what `paint_path` makes of the path appended by `re` under an arbitrary CTM.
-/
import PdfVerif.Lemmas.Paths

set_option linter.constructorNameAsVariable false

namespace PdfVerif.PathLemmas
open PdfVerif PdfVerif.Paths PdfVerif.PathSpec PdfVerif.Gen.PathsGen

/-- The five segments `re` appends, as path segments. -/
theorem rePath_segs (x y w h : Rat) :
    (rePath x y w h).filterMap segOfRaw =
      [PSeg.m (x, y), PSeg.l (x + w, y), PSeg.l (x + w, y + h), PSeg.l (x, y + h), PSeg.h] := by
  simp [rePath, segOfRaw]

/-- `paint_path` on the path of one `re`, for ANY matrix: the redundant-`l` test, then rectangle or curve. -/
theorem paintPath_re (ctm : Matrix) (a : PaintArgs) (x y w h : Rat) :
    paintPath ctm a ((rePath x y w h).filterMap segOfRaw) =
      (let p0 := apply_matrix_pt ctm (x, y)
       let p1 := apply_matrix_pt ctm (x + w, y)
       let p2 := apply_matrix_pt ctm (x + w, y + h)
       let p3 := apply_matrix_pt ctm (x, y + h)
       let tp := [PSeg.m p0, PSeg.l p1, PSeg.l p2, PSeg.l p3, PSeg.h]
       if p3 = p0 then [mkCurve a [p0, p1, p2, p3] tp]
       else if squareCoords p0 p1 p2 p3 = true then
         [{ mkRect a (p0.1, p0.2, p2.1, p2.2) tp with pts := [p0, p1, p2, p3] }]
       else [mkCurve a [p0, p1, p2, p3, p0] tp]) := by
  rw [rePath_segs]
  by_cases h30 : apply_matrix_pt ctm (x, y + h) = apply_matrix_pt ctm (x, y)
  · simp [paintPath, explicitM, PSeg.isM, PSeg.isSeg, PSeg.isH, countM, List.filter, paintSingle,
      PSeg.lastPt, PSeg.letter, PSeg.mapPts, redundantL_eq, classifyShape_eq, redundantCut, redundantTail, h30]
  · have h30' : ¬ (apply_matrix_pt ctm (x, y) = apply_matrix_pt ctm (x, y + h)) := fun e => h30 e.symm
    simp [paintPath, explicitM, PSeg.isM, PSeg.isSeg, PSeg.isH, countM, List.filter, paintSingle,
      PSeg.lastPt, PSeg.letter, PSeg.mapPts, redundantL_eq, classifyShape_eq, redundantCut, redundantTail, h30, h30']

/-- Closing point = 4th corner exactly when the matrix collapses the y direction. -/
theorem re_corner_collapses (a b c d e f x y h : Rat) (hh : h ≠ 0) :
    apply_matrix_pt (a, b, c, d, e, f) (x, y + h) = apply_matrix_pt (a, b, c, d, e, f) (x, y) ↔ c = 0 ∧ d = 0 := by
  simp only [apply_matrix_pt, Prod.mk.injEq]
  constructor
  · rintro ⟨h1, h2⟩
    have e1 : c * h = 0 := by grind
    have e2 : d * h = 0 := by grind
    exact ⟨by grind, by grind⟩
  · rintro ⟨rfl, rfl⟩
    constructor <;> grind

/-- `has_square_coordinates` on the transformed corners of a non-degenerate `re`. -/
theorem re_square_under_ctm (a b c d e f x y w h : Rat) (hw : w ≠ 0) (hh : h ≠ 0) :
    squareCoords (apply_matrix_pt (a, b, c, d, e, f) (x, y)) (apply_matrix_pt (a, b, c, d, e, f) (x + w, y))
        (apply_matrix_pt (a, b, c, d, e, f) (x + w, y + h)) (apply_matrix_pt (a, b, c, d, e, f) (x, y + h)) = true ↔
      (a = 0 ∧ d = 0) ∨ (b = 0 ∧ c = 0) := by
  rw [squareCoords_eq]
  unfold axisAligned
  rw [decide_eq_true_eq]
  simp only [apply_matrix_pt]
  constructor
  · rintro (⟨h1, h2, _, _⟩ | ⟨h1, h2, _, _⟩)
    · left
      have e1 : a * w = 0 := by grind
      have e2 : d * h = 0 := by grind
      exact ⟨by grind, by grind⟩
    · right
      have e1 : b * w = 0 := by grind
      have e2 : c * h = 0 := by grind
      exact ⟨by grind, by grind⟩
  · rintro (⟨rfl, rfl⟩ | ⟨rfl, rfl⟩)
    · left; refine ⟨?_, ?_, ?_, ?_⟩ <;> grind
    · right; refine ⟨?_, ?_, ?_, ?_⟩ <;> grind

end PdfVerif.PathLemmas
