/-
C19 helper lemmas, part 4: changing elements (specification vs the scans of `_do_vertical` /
`_do_pass`), `fill`, and the effect of the three coding modes on the line being decoded.
-/
import PdfVerif.Lemmas.CcittRun

namespace PdfVerif.Ccitt
open PdfVerif.Gen PdfVerif.Spec

/-! ### proof devices: the scans with the column-0 case folded into an imaginary white pixel -/

/-- `scanFrom` when the test at column 0 is the general test with a white pixel on the left. -/
def scan (cond : Bool → Bool → Bool) : Bool → List Bool → Nat → Nat
  | _, [], x => x
  | prev, r :: rs, x => if cond prev r then x else scan cond r rs (x + 1)

/-- The pixel left of position `x`, white before the line. -/
def prevPix (ref : List Bool) (x : Nat) : Bool := if x = 0 then true else ref.getD (x - 1) true

theorem scanFrom_some (cond0 : Bool → Bool → Bool) (cond : Bool → Bool → Bool → Bool) (color : Bool) :
    ∀ (l : List Bool) (p : Bool) (x : Nat),
      scanFrom cond0 cond color (some p) l x = scan (fun p r => cond p r color) p l x := by
  intro l
  induction l with
  | nil => intro p x; rfl
  | cons r rs ih => intro p x; simp only [scanFrom, scan, ih]

theorem scanFrom_eq_scan (cond0 : Bool → Bool → Bool) (cond : Bool → Bool → Bool → Bool) (color : Bool)
    (h0 : ∀ r, cond0 r color = cond true r color) (ref : List Bool) (x1 : Nat) :
    scanFrom cond0 cond color (prevOpt ref x1) (ref.drop x1) x1 =
      scan (fun p r => cond p r color) (prevPix ref x1) (ref.drop x1) x1 := by
  by_cases hx : x1 = 0
  · subst hx
    simp only [prevOpt, prevPix, if_true, List.drop_zero]
    cases ref with
    | nil => rfl
    | cons r rs => simp only [scanFrom, scan, h0, scanFrom_some]
  · simp only [prevOpt, prevPix, hx, if_false, scanFrom_some]

/-! ### takeWhile -/

theorem takeWhile_length_le {α} (p : α → Bool) (l : List α) : (l.takeWhile p).length ≤ l.length := by
  induction l with
  | nil => simp
  | cons x xs ih => simp only [List.takeWhile_cons]; split <;> simp <;> omega

theorem takeWhile_get_true {α} (p : α → Bool) : ∀ (l : List α) (j : Nat), j < (l.takeWhile p).length →
    ∃ x, l[j]? = some x ∧ p x = true := by
  intro l
  induction l with
  | nil => intro j h; simp at h
  | cons x xs ih =>
    intro j h
    simp only [List.takeWhile_cons] at h
    by_cases hp : p x = true
    · simp only [hp, if_true, List.length_cons] at h
      cases j with
      | zero => exact ⟨x, by simp, hp⟩
      | succ j => simpa using ih j (by omega)
    · simp [hp] at h

theorem takeWhile_get_false {α} (p : α → Bool) : ∀ (l : List α) (x : α),
    l[(l.takeWhile p).length]? = some x → p x = false := by
  intro l
  induction l with
  | nil => intro x h; simp at h
  | cons y ys ih =>
    intro x h
    simp only [List.takeWhile_cons] at h
    by_cases hp : p y = true
    · simp only [hp, if_true, List.length_cons, List.getElem?_cons_succ] at h
      exact ih x h
    · have hp' : p y = false := by simpa using hp
      simp [hp'] at h
      rw [← h]; exact hp'

/-! ### properties of the specification's changing elements -/

theorem nextNot_ge (line : List Bool) (c : Bool) (lo : Nat) : lo ≤ T6.nextNot line c lo := by
  simp [T6.nextNot]

theorem nextNot_le (line : List Bool) (c : Bool) (lo : Nat) (h : lo ≤ line.length) :
    T6.nextNot line c lo ≤ line.length := by
  have := takeWhile_length_le (· == c) (line.drop lo)
  simp only [List.length_drop] at this
  simp only [T6.nextNot]; omega

theorem nextNot_run (line : List Bool) (c : Bool) (lo i : Nat) (h1 : lo ≤ i) (h2 : i < T6.nextNot line c lo) :
    line[i]? = some c := by
  obtain ⟨x, hx, hp⟩ := takeWhile_get_true (· == c) (line.drop lo) (i - lo) (by simp only [T6.nextNot] at h2; omega)
  rw [List.getElem?_drop] at hx
  have : lo + (i - lo) = i := by omega
  rw [this] at hx
  simp at hp
  rw [hx, hp]

theorem nextNot_stop (line : List Bool) (c : Bool) (lo : Nat) (h : T6.nextNot line c lo < line.length) :
    line[T6.nextNot line c lo]? = some (!c) := by
  have hlt : T6.nextNot line c lo < line.length := h
  obtain ⟨x, hx⟩ : ∃ x, line[T6.nextNot line c lo]? = some x := ⟨_, List.getElem?_eq_getElem hlt⟩
  have := takeWhile_get_false (· == c) (line.drop lo) x (by
    rw [List.getElem?_drop]; exact hx)
  rw [hx]
  cases x <;> cases c <;> simp_all

theorem withPrev_length (ref : List Bool) : (T6.withPrev ref).length = ref.length := by
  simp [T6.withPrev]

theorem withPrev_get (ref : List Bool) (i : Nat) (h : i < ref.length) :
    (T6.withPrev ref)[i]? = some (prevPix ref i, ref[i]) := by
  simp only [T6.withPrev]
  rw [List.getElem?_zip_eq_some]
  refine ⟨?_, by simp [h]⟩
  cases i with
  | zero => simp [prevPix]
  | succ k =>
    simp only [List.getElem?_cons_succ, prevPix]
    have hk : k < ref.length := by omega
    simp [List.getD, hk]

theorem b1Of_ge (ref : List Bool) (c : Bool) (lo : Nat) : lo ≤ T6.b1Of ref c lo := by
  simp [T6.b1Of]

theorem b1Of_le (ref : List Bool) (c : Bool) (lo : Nat) (h : lo ≤ ref.length) :
    T6.b1Of ref c lo ≤ ref.length := by
  have := takeWhile_length_le (fun pr : Bool × Bool => !(pr.1 == c && pr.2 != c)) ((T6.withPrev ref).drop lo)
  simp only [List.length_drop, withPrev_length] at this
  simp only [T6.b1Of]; omega

/-- b1 is a pixel of the other colour. -/
theorem b1Of_stop (ref : List Bool) (c : Bool) (lo : Nat) (h : T6.b1Of ref c lo < ref.length) :
    ref[T6.b1Of ref c lo]? = some (!c) := by
  have hg := withPrev_get ref _ h
  have := takeWhile_get_false (fun pr : Bool × Bool => !(pr.1 == c && pr.2 != c)) ((T6.withPrev ref).drop lo)
    (prevPix ref (T6.b1Of ref c lo), ref[T6.b1Of ref c lo]) (by
      rw [List.getElem?_drop]; exact hg)
  rw [List.getElem?_eq_getElem h]
  generalize ref[T6.b1Of ref c lo] = r at this
  generalize prevPix ref (T6.b1Of ref c lo) = p at this
  cases r <;> cases c <;> cases p <;> simp_all

/-! ### the scans of the implementation compute b1 and b2 -/

theorem scan_eq_takeWhile (cond : Bool → Bool → Bool) : ∀ (l : List Bool) (prev : Bool) (x : Nat),
    scan cond prev l x = x + (((prev :: l).zip l).takeWhile (fun pr => !cond pr.1 pr.2)).length := by
  intro l
  induction l with
  | nil => intro prev x; simp [scan]
  | cons r rs ih =>
    intro prev x
    simp only [scan, List.zip_cons_cons, List.takeWhile_cons]
    by_cases hc : cond prev r = true
    · simp [hc]
    · simp only [hc, Bool.false_eq_true, if_false, Bool.not_false, if_true, List.length_cons]
      rw [ih]; omega

theorem withPrev_drop (ref : List Bool) (lo : Nat) :
    (T6.withPrev ref).drop lo = ((prevPix ref lo) :: ref.drop lo).zip (ref.drop lo) := by
  apply List.ext_getElem?
  intro j
  rw [List.getElem?_drop]
  by_cases h : lo + j < ref.length
  · rw [withPrev_get ref _ h]
    symm
    rw [List.getElem?_zip_eq_some]
    refine ⟨?_, by rw [List.getElem?_drop]; simp [h]⟩
    cases j with
    | zero => simp
    | succ k =>
      simp only [List.getElem?_cons_succ, List.getElem?_drop, prevPix]
      have : lo + k < ref.length := by omega
      have h0 : lo + (k + 1) ≠ 0 := by omega
      simp [List.getD, this]
  · have h1 : (T6.withPrev ref)[lo + j]? = none := by
      apply List.getElem?_eq_none; rw [withPrev_length]; omega
    rw [h1]
    symm
    apply List.getElem?_eq_none
    simp only [List.length_zip, List.length_cons, List.length_drop]
    omega

theorem findB1_eq (ref : List Bool) (c : Bool) (lo : Nat) : findB1 ref c lo = T6.b1Of ref c lo := by
  unfold findB1
  rw [scanFrom_eq_scan _ _ _ (by intro r; cases r <;> cases c <;> rfl)]
  simp only [CcittCode.vertCond, T6.b1Of, scan_eq_takeWhile, withPrev_drop]

theorem findB1p_eq (ref : List Bool) (c : Bool) (lo : Nat) : findB1p ref c lo = T6.b1Of ref c lo := by
  unfold findB1p
  rw [scanFrom_eq_scan _ _ _ (by intro r; cases r <;> cases c <;> rfl)]
  simp only [CcittCode.passB1Cond, T6.b1Of, scan_eq_takeWhile, withPrev_drop]

theorem scan_b2 (c : Bool) : ∀ (l : List Bool) (prev : Bool) (x : Nat), prev = (!c) →
    scan (fun p r => p != c && r == c) prev l x = x + (l.takeWhile (· == !c)).length := by
  intro l
  induction l with
  | nil => intro prev x _; simp [scan]
  | cons r rs ih =>
    intro prev x hp
    subst hp
    simp only [scan, List.takeWhile_cons]
    by_cases hr : r = c
    · subst hr; cases r <;> simp
    · have hr' : r = (!c) := by cases r <;> cases c <;> simp_all
      subst hr'
      have : ((!c) != c && (!c) == c) = false := by cases c <;> rfl
      simp only [this, Bool.false_eq_true, if_false, beq_self_eq_true, if_true, List.length_cons]
      rw [ih _ _ rfl]; omega

theorem findB2_eq (ref : List Bool) (c : Bool) (b1 : Nat) (hle : b1 ≤ ref.length)
    (hstop : b1 < ref.length → ref[b1]? = some (!c)) :
    findB2 ref c b1 = T6.b2Of ref c b1 := by
  unfold findB2
  rw [scanFrom_eq_scan _ _ _ (by intro r; cases r <;> cases c <;> rfl)]
  simp only [CcittCode.passB2Cond, T6.b2Of, T6.nextNot]
  by_cases h : b1 < ref.length
  · have hb := hstop h
    have hd : ref.drop b1 = (!c) :: ref.drop (b1 + 1) := by
      rw [List.drop_eq_getElem_cons h]
      congr 1
      rw [List.getElem?_eq_getElem h] at hb
      simpa using hb
    rw [hd]
    simp only [scan]
    have : (prevPix ref b1 != c && (!c) == c) = false := by cases c <;> simp
    simp only [this, Bool.false_eq_true, if_false]
    rw [scan_b2 c _ _ _ rfl]
    have := takeWhile_length_le (· == !c) (ref.drop (b1 + 1))
    simp only [List.length_drop] at this
    omega
  · have : b1 = ref.length := by omega
    subst this
    simp [scan]
    omega

/-! ### fill -/

theorem fill_length (l : List Bool) (lo hi : Nat) (c : Bool) : (fill l lo hi c).length = l.length := by
  simp [fill]

theorem fill_get_in (l : List Bool) (lo hi : Nat) (c : Bool) (i : Nat) (h1 : lo ≤ i) (h2 : i < hi)
    (h3 : i < l.length) : (fill l lo hi c)[i]? = some c := by
  simp [fill, List.getElem?_mapIdx, h1, h2, h3]

theorem fill_get_out (l : List Bool) (lo hi : Nat) (c : Bool) (i : Nat) (h : i < lo ∨ hi ≤ i) :
    (fill l lo hi c)[i]? = l[i]? := by
  simp only [fill, List.getElem?_mapIdx]
  have : ¬ (lo ≤ i ∧ i < hi) := by omega
  simp only [this, if_false]
  cases l[i]? <;> rfl

theorem fill_empty (l : List Bool) (lo hi : Nat) (c : Bool) (h : hi ≤ lo) : fill l lo hi c = l := by
  apply List.ext_getElem?
  intro i
  exact fill_get_out l lo hi c i (by omega)

/-! ### the line being decoded -/

/-- The decoder is in the middle of (or at the end of) line `cur` with reference line `ref`:
everything left of a0 is already right, and the pixel at a0 has the current colour. -/
structure Core (w : Nat) (al rv : Bool) (ref cur : List Bool) (buf : List UInt8) (st : St) (a0 : Int)
    (color : Bool) : Prop where
  wd : st.width = w
  ba : st.bytealign = al
  rvs : st.reversed = rv
  rf : st.refline = ref
  bf : st.buf = buf
  curlen : st.curline.length = w
  cp : st.curpos = a0
  col : st.color = color
  lo : -1 ≤ a0
  hi : a0 ≤ w
  pre : ∀ i : Nat, (i : Int) < a0 → st.curline[i]? = cur[i]?
  at0 : 0 ≤ a0 → a0 < w → cur[a0.toNat]? = some color

theorem Core.ignore {w al rv ref cur buf st a0 color} (h : Core w al rv ref cur buf st a0 color)
    (n1 n2 : Nat) (acc : Acc) (node : Trie) :
    Core w al rv ref cur buf { st with n1 := n1, n2 := n2, acc := acc, node := node } a0 color :=
  ⟨h.wd, h.ba, h.rvs, h.rf, h.bf, h.curlen, h.cp, h.col, h.lo, h.hi, h.pre, h.at0⟩

theorem doVertical_eq (st : St) (d : Int) (a1 : Nat)
    (hb : (findB1 st.refline st.color (st.curpos + 1).toNat : Int) + d = a1)
    (h1 : a1 ≤ st.width) (h2 : max 0 st.curpos ≤ (a1 : Int)) :
    doVertical st d = { st with curline := fill st.curline (max 0 st.curpos).toNat a1 st.color,
                                curpos := (a1 : Int), color := !st.color } := by
  simp only [doVertical, CcittCode.vertStart, CcittCode.vertTarget, CcittCode.vertX0, CcittCode.vertClamp,
    CcittCode.vertBackward, CcittCode.vertForward, CcittCode.vertNewColor, decide_eq_true_eq, hb]
  have hx : max 0 (min (st.width : Int) (a1 : Int)) = (a1 : Int) := by omega
  rw [hx]
  have hn : ¬ ((a1 : Int) < max 0 st.curpos) := by omega
  simp only [hn, if_false, Int.toNat_natCast]
  by_cases hlt : max 0 st.curpos < (a1 : Int)
  · simp only [hlt, if_true]
  · simp only [hlt, if_false]
    rw [fill_empty _ _ _ _ (by omega)]

theorem runEnd_le (len : Int) : ∀ (n : Nat) (x : Int),
    runEnd (fun len x => decide (len ≤ x)) len n x = min (x + n) (max x len) := by
  intro n
  induction n with
  | zero => intro x; simp only [runEnd]; omega
  | succ n ih =>
    intro x
    simp only [runEnd, decide_eq_true_eq]
    by_cases h : len ≤ x
    · simp only [h, if_true]; omega
    · simp only [h, if_false, ih]; omega

theorem doHorizontal_eq (st : St) (n1 n2 : Nat) (h : (max 0 st.curpos).toNat + n1 + n2 ≤ st.curline.length) :
    doHorizontal st n1 n2 =
      { st with curline := fill (fill st.curline (max 0 st.curpos).toNat ((max 0 st.curpos).toNat + n1) st.color)
                            ((max 0 st.curpos).toNat + n1) ((max 0 st.curpos).toNat + n1 + n2) (!st.color),
                curpos := (((max 0 st.curpos).toNat + n1 + n2 : Nat) : Int) } := by
  have hx : (if CcittCode.horizNeg st.curpos = true then CcittCode.horizZero else st.curpos) = max 0 st.curpos := by
    simp only [CcittCode.horizNeg, CcittCode.horizZero, decide_eq_true_eq]; split <;> omega
  have hs1 : CcittCode.horizStop1 = fun len x => decide (len ≤ x) := rfl
  have hs2 : CcittCode.horizStop2 = fun len x => decide (len ≤ x) := rfl
  simp only [doHorizontal, hx, hs1, hs2, runEnd_le, CcittCode.horizColor1, CcittCode.horizColor2]
  have e1 : min (max 0 st.curpos + (n1 : Int)) (max (max 0 st.curpos) (st.curline.length : Int))
      = (((max 0 st.curpos).toNat + n1 : Nat) : Int) := by omega
  rw [e1]
  have e2 : min ((((max 0 st.curpos).toNat + n1 : Nat) : Int) + (n2 : Int))
      (max (((max 0 st.curpos).toNat + n1 : Nat) : Int) (st.curline.length : Int))
      = (((max 0 st.curpos).toNat + n1 + n2 : Nat) : Int) := by omega
  rw [e2]
  simp only [Int.toNat_natCast]

section steps
variable {w : Nat} {al rv : Bool} {ref cur : List Bool} {buf : List UInt8} {st : St} {a0 : Int} {color : Bool}

/-- Vertical mode V(a1 - b1) puts a0 on a1 and flips the colour. -/
theorem core_vert (h : Core w al rv ref cur buf st a0 color) (hlt : a0 < w) (hcur : cur.length = w) :
    Core w al rv ref cur buf
      (doVertical st ((T6.nextNot cur color (a0 + 1).toNat : Int) - (T6.b1Of ref color (a0 + 1).toNat : Int)))
      (T6.nextNot cur color (a0 + 1).toNat : Int) (!color) := by
  have hlo := h.lo
  have h1 : (a0 + 1).toNat ≤ T6.nextNot cur color (a0 + 1).toNat := nextNot_ge _ _ _
  have h2 : T6.nextNot cur color (a0 + 1).toNat ≤ w := by
    rw [← hcur]; apply nextNot_le; omega
  have hrun := nextNot_run cur color (a0 + 1).toNat
  have hstop := nextNot_stop cur color (a0 + 1).toNat
  generalize T6.nextNot cur color (a0 + 1).toNat = a1 at *
  rw [doVertical_eq st _ a1 (by rw [h.rf, h.col, h.cp, findB1_eq]; omega)
    (by rw [h.wd]; exact h2) (by rw [h.cp]; omega)]
  refine ⟨h.wd, h.ba, h.rvs, h.rf, h.bf, ?_, rfl, by simp [h.col], by omega, by omega, ?_, ?_⟩
  · simp [fill_length, h.curlen]
  · intro i hi
    simp only [h.cp, h.col]
    by_cases hia : (i : Int) < a0
    · rw [fill_get_out _ _ _ _ _ (by omega)]; exact h.pre i hia
    · rw [fill_get_in _ _ _ _ _ (by omega) (by omega) (by rw [h.curlen]; omega)]
      by_cases hie : (i : Int) = a0
      · have := h.at0 (by omega) (by omega)
        have hi' : a0.toNat = i := by omega
        rw [hi'] at this; exact this.symm
      · exact (hrun i (by omega) (by omega)).symm
  · intro _ hw
    simp only [Int.toNat_natCast]
    exact hstop (by omega)

/-- Pass mode puts a0 under b2 and keeps the colour. -/
theorem core_pass (h : Core w al rv ref cur buf st a0 color) (hlt : a0 < w) (hcur : cur.length = w)
    (href : ref.length = w)
    (hp : T6.b2Of ref color (T6.b1Of ref color (a0 + 1).toNat) < T6.nextNot cur color (a0 + 1).toNat) :
    Core w al rv ref cur buf (doPass st)
      (T6.b2Of ref color (T6.b1Of ref color (a0 + 1).toNat) : Int) color := by
  have hlo := h.lo
  have h2 : T6.nextNot cur color (a0 + 1).toNat ≤ w := by
    rw [← hcur]; apply nextNot_le; omega
  have hrun := nextNot_run cur color (a0 + 1).toNat
  have hb1 : (a0 + 1).toNat ≤ T6.b1Of ref color (a0 + 1).toNat := b1Of_ge _ _ _
  have hb1' : T6.b1Of ref color (a0 + 1).toNat ≤ ref.length := by apply b1Of_le; omega
  have hb2e := findB2_eq ref color _ hb1' (b1Of_stop ref color (a0 + 1).toNat)
  have hb2 : T6.b1Of ref color (a0 + 1).toNat < T6.b2Of ref color (T6.b1Of ref color (a0 + 1).toNat) := by
    have hdef : T6.b2Of ref color (T6.b1Of ref color (a0 + 1).toNat) = min ref.length
        (T6.b1Of ref color (a0 + 1).toNat + 1 +
          ((ref.drop (T6.b1Of ref color (a0 + 1).toNat + 1)).takeWhile (· == !color)).length) := rfl
    omega
  have hdp : doPass st = { st with
      curline := fill (if a0 < 0 then fill st.curline (w - 1) w color else st.curline) a0.toNat
        (T6.b2Of ref color (T6.b1Of ref color (a0 + 1).toNat)) color,
      curpos := (T6.b2Of ref color (T6.b1Of ref color (a0 + 1).toNat) : Int) } := by
    simp only [doPass, CcittCode.passStart, h.rf, h.col, h.cp, h.wd, findB1p_eq, hb2e]
  generalize T6.nextNot cur color (a0 + 1).toNat = a1 at *
  generalize T6.b1Of ref color (a0 + 1).toNat = b1 at *
  generalize T6.b2Of ref color b1 = b2 at *
  rw [hdp]
  refine ⟨h.wd, h.ba, h.rvs, h.rf, h.bf, ?_, rfl, h.col, by omega, by omega, ?_, ?_⟩
  · simp only [fill_length]; split <;> simp [fill_length, h.curlen]
  · intro i hi
    simp only
    by_cases hia : (i : Int) < a0
    · rw [fill_get_out _ _ _ _ _ (by omega)]
      have : ¬ a0 < 0 := by omega
      simp only [this, if_false]
      exact h.pre i hia
    · rw [fill_get_in _ _ _ _ _ (by omega) (by omega) (by
        split <;> simp [fill_length, h.curlen] <;> omega)]
      by_cases hie : (i : Int) = a0
      · have := h.at0 (by omega) (by omega)
        have hi' : a0.toNat = i := by omega
        rw [hi'] at this; exact this.symm
      · exact (hrun i (by omega) (by omega)).symm
  · intro _ hw
    simp only [Int.toNat_natCast]
    exact hrun b2 (by omega) (by omega)

/-- Horizontal mode with run lengths a0a1, a1a2 puts a0 on a2 and keeps the colour. -/
theorem core_horiz (h : Core w al rv ref cur buf st a0 color) (hlt : a0 < w) (hcur : cur.length = w) :
    Core w al rv ref cur buf
      (doHorizontal st (T6.nextNot cur color (a0 + 1).toNat - a0.toNat)
        (T6.nextNot cur (!color) (T6.nextNot cur color (a0 + 1).toNat) - T6.nextNot cur color (a0 + 1).toNat))
      (T6.nextNot cur (!color) (T6.nextNot cur color (a0 + 1).toNat) : Int) color := by
  have hlo := h.lo
  have h1 : (a0 + 1).toNat ≤ T6.nextNot cur color (a0 + 1).toNat := nextNot_ge _ _ _
  have h2 : T6.nextNot cur color (a0 + 1).toNat ≤ w := by
    rw [← hcur]; apply nextNot_le; omega
  have hrun := nextNot_run cur color (a0 + 1).toNat
  generalize T6.nextNot cur color (a0 + 1).toNat = a1 at *
  have h3 : a1 ≤ T6.nextNot cur (!color) a1 := nextNot_ge _ _ _
  have h4 : T6.nextNot cur (!color) a1 ≤ w := by
    rw [← hcur]; apply nextNot_le; omega
  have hrun2 := nextNot_run cur (!color) a1
  have hstop2 := nextNot_stop cur (!color) a1
  generalize T6.nextNot cur (!color) a1 = a2 at *
  have hx : (max 0 st.curpos).toNat = a0.toNat := by rw [h.cp]; omega
  rw [doHorizontal_eq st _ _ (by rw [hx, h.curlen]; omega)]
  rw [hx]
  have e1 : a0.toNat + (a1 - a0.toNat) = a1 := by omega
  have e2 : a1 + (a2 - a1) = a2 := by omega
  rw [e1, e2]
  refine ⟨h.wd, h.ba, h.rvs, h.rf, h.bf, ?_, rfl, h.col, by omega, by omega, ?_, ?_⟩
  · simp [fill_length, h.curlen]
  · intro i hi
    simp only [h.col]
    by_cases hi1 : i < a1
    · rw [fill_get_out _ _ _ _ _ (by omega)]
      by_cases hia : (i : Int) < a0
      · rw [fill_get_out _ _ _ _ _ (by omega)]; exact h.pre i hia
      · rw [fill_get_in _ _ _ _ _ (by omega) (by omega) (by rw [h.curlen]; omega)]
        by_cases hie : (i : Int) = a0
        · have := h.at0 (by omega) (by omega)
          have hi' : a0.toNat = i := by omega
          rw [hi'] at this; exact this.symm
        · exact (hrun i (by omega) (by omega)).symm
    · rw [fill_get_in _ _ _ _ _ (by omega) (by omega) (by simp only [fill_length]; rw [h.curlen]; omega)]
      exact (hrun2 i (by omega) (by omega)).symm
  · intro _ hw
    simp only [Int.toNat_natCast]
    have := hstop2 (by omega)
    simpa using this

end steps

end PdfVerif.Ccitt
