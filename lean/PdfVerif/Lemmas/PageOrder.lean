/-
Lemmas for C04: the walk with its visited set yields the pages in the order of the
algorithm-independent specification `specOrder` (first arrivals of the depth-first enumeration of
all simple Kids paths), on every object graph; the path budget of that specification cuts nothing.
-/
import PdfVerif.Lemmas.PageGraph

namespace PdfVerif.PageTree
open PdfVerif PdfVerif.Gen.PageTree

/-! ### `novel` -/

theorem mem_novel : ∀ (xs seen : List Nat) (y : Nat), y ∈ novel seen xs ↔ y ∈ xs ∧ y ∉ seen := by
  intro xs
  induction xs with
  | nil => intro seen y; simp [novel]
  | cons x xs ih =>
    intro seen y
    simp only [novel]
    by_cases hx : seen.contains x = true
    · have hx' : x ∈ seen := by simpa using hx
      simp only [hx, if_true, ih, List.mem_cons]
      constructor
      · rintro ⟨h1, h2⟩; exact ⟨Or.inr h1, h2⟩
      · rintro ⟨h1 | h1, h2⟩
        · subst h1; exact absurd hx' h2
        · exact ⟨h1, h2⟩
    · have hx' : x ∉ seen := by simpa using hx
      simp only [hx, Bool.false_eq_true, if_false, List.mem_cons, ih]
      constructor
      · rintro (h | ⟨h1, h2⟩)
        · subst h; exact ⟨Or.inl rfl, hx'⟩
        · exact ⟨Or.inr h1, fun h => h2 (Or.inr h)⟩
      · rintro ⟨h1 | h1, h2⟩
        · exact Or.inl h1
        · by_cases hy : y = x
          · exact Or.inl hy
          · refine Or.inr ⟨h1, ?_⟩
            rintro (h | h)
            · exact hy h
            · exact h2 h

theorem novel_congr : ∀ (xs s1 s2 : List Nat), (∀ x ∈ xs, x ∈ s1 ↔ x ∈ s2) → novel s1 xs = novel s2 xs := by
  intro xs
  induction xs with
  | nil => intro s1 s2 _; simp [novel]
  | cons x xs ih =>
    intro s1 s2 h
    simp only [novel]
    have hx : s1.contains x = s2.contains x := by
      have := h x (by simp)
      by_cases h1 : x ∈ s1
      · have h2 := this.mp h1
        simp [h1, h2]
      · have h2 : x ∉ s2 := fun h2 => h1 (this.mpr h2)
        simp [h1, h2]
    rw [hx]
    have ih1 := ih s1 s2 (fun y hy => h y (List.mem_cons_of_mem _ hy))
    have ih2 := ih (x :: s1) (x :: s2) (fun y hy => by
      have := h y (List.mem_cons_of_mem _ hy)
      simp only [List.mem_cons, this])
    rw [ih1, ih2]

theorem novel_append : ∀ (xs ys seen : List Nat),
    novel seen (xs ++ ys) = novel seen xs ++ novel (xs ++ seen) ys := by
  intro xs
  induction xs with
  | nil => intro ys seen; simp [novel]
  | cons x xs ih =>
    intro ys seen
    simp only [List.cons_append, novel]
    by_cases hx : seen.contains x = true
    · have hx' : x ∈ seen := by simpa using hx
      simp only [hx, if_true, ih]
      congr 1
      apply novel_congr
      intro y _
      simp only [List.mem_append, List.mem_cons]
      constructor
      · rintro (h | h)
        · exact Or.inr (Or.inl h)
        · exact Or.inr (Or.inr h)
      · rintro (h | h | h)
        · subst h; exact Or.inr hx'
        · exact Or.inl h
        · exact Or.inr h
    · simp only [hx, Bool.false_eq_true, if_false, ih, List.cons_append]
      congr 2
      apply novel_congr
      intro y _
      simp only [List.mem_append, List.mem_cons]
      constructor
      · rintro (h | h | h)
        · exact Or.inr (Or.inl h)
        · exact Or.inl h
        · exact Or.inr (Or.inr h)
      · rintro (h | h | h)
        · exact Or.inr (Or.inl h)
        · exact Or.inl h
        · exact Or.inr (Or.inr h)

theorem novel_of_subset : ∀ (xs seen : List Nat), (∀ y ∈ xs, y ∈ seen) → novel seen xs = [] := by
  intro xs
  induction xs with
  | nil => intro seen _; simp [novel]
  | cons x xs ih =>
    intro seen h
    have hx : seen.contains x = true := by simpa using h x (by simp)
    simp only [novel, hx, if_true]
    exact ih seen (fun y hy => h y (List.mem_cons_of_mem _ hy))

/-! ### `pathLeaves` -/

/-- What one Kids entry contributes to `pathLeaves`. -/
def kidLeaves (g : Store) (f : Nat) (anc : List Nat) (k : Elem) : List Nat :=
  match kidId k with
  | some b => pathLeaves g f anc b
  | none => []

theorem pathLeaves_succ (g : Store) (f : Nat) (anc : List Nat) (n : Nat) :
    pathLeaves g (f + 1) anc n =
      if anc.contains n then []
      else if isPagesNode g n then (kidsOf g n).flatMap (kidLeaves g f (n :: anc))
      else if isPageNode g n then [n] else [] := by
  simp only [pathLeaves]
  rfl

/-- Only Page nodes are listed. -/
theorem pathLeaves_page (g : Store) : ∀ f anc n, ∀ y ∈ pathLeaves g f anc n, isPageNode g y = true := by
  intro f
  induction f with
  | zero => intro anc n y h; simp [pathLeaves] at h
  | succ f ih =>
    intro anc n y h
    rw [pathLeaves_succ] at h
    split at h
    · simp at h
    · split at h
      · obtain ⟨k, _, hk⟩ := List.mem_flatMap.mp h
        unfold kidLeaves at hk
        split at hk
        · exact ih _ _ y hk
        · simp at hk
      · split at h
        · rename_i hp
          have : y = n := by simpa using h
          subst this; exact hp
        · simp at h

theorem kidLeaves_page (g : Store) (f : Nat) (anc : List Nat) (k : Elem) :
    ∀ y ∈ kidLeaves g f anc k, isPageNode g y = true := by
  intro y h
  unfold kidLeaves at h
  split at h
  · exact pathLeaves_page g f anc _ y h
  · simp at h

/-- Every node of `vis` outside `anc` is finished: all its Kids entries are in `vis`. -/
def Closed (g : Store) (vis anc : List Nat) : Prop :=
  ∀ m ∈ vis, m ∉ anc → ∀ b, Edge g m b → b ∈ vis

/-- From a visited node, simple paths that avoid the unfinished nodes stay inside the visited set. -/
theorem finished_leaves (g : Store) (vis anc : List Nat) (hc : Closed g vis anc) :
    ∀ f anc' n, (∀ a ∈ anc, a ∈ anc') → n ∈ vis → ∀ y ∈ pathLeaves g f anc' n, y ∈ vis := by
  intro f
  induction f with
  | zero => intro anc' n _ _ y h; simp [pathLeaves] at h
  | succ f ih =>
    intro anc' n hsub hn y h
    rw [pathLeaves_succ] at h
    split at h
    · simp at h
    · rename_i hna
      have hna' : n ∉ anc' := by simpa using hna
      split at h
      · obtain ⟨k, hk, hy⟩ := List.mem_flatMap.mp h
        unfold kidLeaves at hy
        split at hy
        · rename_i b hb
          have hedge : Edge g n b := ⟨k, hk, hb⟩
          have hbv : b ∈ vis := hc n hn (fun h' => hna' (hsub n h')) b hedge
          exact ih (n :: anc') b (fun a ha => List.mem_cons_of_mem _ (hsub a ha)) hbv y hy
        · simp at hy
      · split at h
        · have : y = n := by simpa using h
          subst this; exact hn
        · simp at h

/-! ### The walk follows the specification -/

/-- What the order proof needs of one visit (started with visited set `vis`, unfinished nodes
`anc`, budget `f`): when it ends normally, the indirect pages it yields are the new first arrivals
of the path enumeration below the entry, and everything visited outside `anc` is finished. -/
def OrderOK (g : Store) (f : Nat) (w : Walk) (vis anc : List Nat) (kid : Elem) : Prop :=
  w.err = none →
    w.pages.filterMap (·.id) = novel vis (kidLeaves g f anc kid) ∧ Closed g w.visited anc

theorem walkKids_order (g : Store) (f : Nat) (anc : List Nat) (visitOne : Elem → Dict → List Nat → Walk)
    (hinv : ∀ k P vis, VisitInv g (visitOne k P vis) vis k)
    (hv : ∀ k P vis, Closed g vis anc → (∀ a ∈ anc, a ∈ vis) → OrderOK g f (visitOne k P vis) vis anc k) :
    ∀ ks P vis, Closed g vis anc → (∀ a ∈ anc, a ∈ vis) → (walkKids visitOne ks P vis).err = none →
      (walkKids visitOne ks P vis).pages.filterMap (·.id) = novel vis (ks.flatMap (kidLeaves g f anc)) ∧
      Closed g (walkKids visitOne ks P vis).visited anc := by
  intro ks
  induction ks with
  | nil => intro P vis hc _ _; exact ⟨by simp [walkKids, novel], by simpa [walkKids] using hc⟩
  | cons k ks ih =>
    intro P vis hc hsub herr
    simp only [walkKids] at herr ⊢
    cases he : (visitOne k P vis).err with
    | some e => simp [he] at herr
    | none =>
      simp only [he] at herr ⊢
      obtain ⟨hp1, hc1⟩ := hv k P vis hc hsub he
      obtain ⟨⟨new1, hv1, _, hpg1, _⟩, _⟩ := hinv k P vis
      have hsub1 : ∀ a ∈ anc, a ∈ (visitOne k P vis).visited := by
        intro a ha; rw [hv1]; exact List.mem_append_right _ (hsub a ha)
      obtain ⟨hp2, hc2⟩ := ih P (visitOne k P vis).visited hc1 hsub1 herr
      refine ⟨?_, hc2⟩
      simp only [List.filterMap_append, List.flatMap_cons, novel_append, hp1, hp2]
      congr 1
      apply novel_congr
      intro y hy
      have hyp : isPageNode g y = true := by
        obtain ⟨k', _, hk'⟩ := List.mem_flatMap.mp hy
        exact kidLeaves_page g f anc k' y hk'
      rw [hv1]
      simp only [List.mem_append]
      constructor
      · rintro (h | h)
        · have : y ∈ new1.reverse.filter (isPageNode g) := List.mem_filter.mpr ⟨by simpa using h, hyp⟩
          rw [← hpg1, hp1] at this
          exact Or.inl ((mem_novel _ _ _).mp this).1
        · exact Or.inr h
      · rintro (h | h)
        · by_cases hyv : y ∈ vis
          · exact Or.inr hyv
          · have : y ∈ novel vis (kidLeaves g f anc k) := (mem_novel _ _ _).mpr ⟨h, hyv⟩
            rw [← hp1, hpg1] at this
            exact Or.inl (by simpa using (List.mem_filter.mp this).1)
        · exact Or.inr h

theorem closed_push (g : Store) (vis anc : List Nat) (n : Nat) (hc : Closed g vis anc) :
    Closed g (n :: vis) (n :: anc) := by
  intro m hm hma b hb
  have hmn : m ≠ n := fun h => hma (by simp [h])
  have hmv : m ∈ vis := by
    rcases List.mem_cons.mp hm with h | h
    · exact absurd h hmn
    · exact h
  exact List.mem_cons_of_mem _ (hc m hmv (fun h => hma (List.mem_cons_of_mem _ h)) b hb)

theorem closed_leaf (g : Store) (vis anc : List Nat) (n : Nat) (hc : Closed g vis anc)
    (hne : ∀ b, ¬ Edge g n b) : Closed g (n :: vis) anc := by
  intro m hm hma b hb
  rcases List.mem_cons.mp hm with h | h
  · subst h; exact absurd hb (hne b)
  · exact List.mem_cons_of_mem _ (hc m h hma b hb)

theorem visit_order (g : Store) : ∀ fuel kid P vis anc, Closed g vis anc → (∀ a ∈ anc, a ∈ vis) →
    OrderOK g fuel (visit g fuel kid P vis) vis anc kid := by
  intro fuel
  induction fuel with
  | zero => intro kid P vis anc _ _ herr; simp [visit] at herr
  | succ f ih =>
    intro kid P vis anc hc hsub herr
    simp only [visit] at herr ⊢
    cases hn : nodeOf g kid with
    | error e => simp [hn] at herr
    | ok r =>
      obtain ⟨oid, props0⟩ := r
      obtain ⟨hkid, hprops⟩ := nodeOf_ok g kid oid props0 hn
      simp only [hn] at herr ⊢
      cases oid with
      | none =>
        have hkl : kidLeaves g (f + 1) anc kid = [] := by simp [kidLeaves, hkid]
        rw [hkl]
        simp only [Bool.false_eq_true, if_false]
        split
        · exact ⟨by simp [novel], hc⟩
        · split
          · exact ⟨by simp [novel], hc⟩
          · exact ⟨by simp [novel], hc⟩
      | some id =>
        have hp0 : props0 = nodeDict g id := hprops id rfl
        subst hp0
        have hkl : kidLeaves g (f + 1) anc kid = pathLeaves g (f + 1) anc id := by simp [kidLeaves, hkid]
        rw [hkl]
        simp only at herr ⊢
        by_cases hid : id ∈ vis
        · have : vis.contains id = true := by simpa using hid
          simp only [this, if_true]
          refine ⟨?_, hc⟩
          rw [novel_of_subset _ _ (finished_leaves g vis anc hc (f + 1) anc id (fun a ha => ha) hid)]
          simp
        · have hcn : vis.contains id = false := by simpa using hid
          have hida : id ∉ anc := fun h => hid (hsub id h)
          have hcna : anc.contains id = false := by simpa using hida
          simp only [hcn, Bool.false_eq_true, if_false] at herr ⊢
          rw [isPagesNode_overlay] at herr ⊢
          rw [pathLeaves_succ]
          simp only [hcna, Bool.false_eq_true, if_false]
          cases hpn : isPagesNode g id with
          | true =>
            simp only [hpn, if_true] at herr ⊢
            have hkids : listValue g ((dget (overlay P (nodeDict g id)) "Kids").getD (.atom .null)) = kidsOf g id := by
              rw [dget_overlay_other P _ "Kids" (by decide)]
              simp [kidsOf, hpn]
            rw [hkids] at herr ⊢
            have hsub' : ∀ a ∈ id :: anc, a ∈ id :: vis := by
              intro a ha
              rcases List.mem_cons.mp ha with h | h
              · simp [h]
              · exact List.mem_cons_of_mem _ (hsub a h)
            obtain ⟨hp, hcl⟩ := walkKids_order g f (id :: anc) (visit g f) (visit_inv g f)
              (fun k P' vis' hc' hs' => ih k P' vis' (id :: anc) hc' hs')
              (kidsOf g id) (overlay P (nodeDict g id)) (id :: vis) (closed_push g vis anc id hc) hsub' herr
            obtain ⟨⟨new, h1, _, _, _⟩, h5⟩ := walkKids_inv g (visit g f) (visit_inv g f)
              (kidsOf g id) (overlay P (nodeDict g id)) (id :: vis)
            refine ⟨?_, ?_⟩
            · rw [hp]
              apply novel_congr
              intro y hy
              have hyp : isPageNode g y = true := by
                obtain ⟨k', _, hk'⟩ := List.mem_flatMap.mp hy
                exact kidLeaves_page g f (id :: anc) k' y hk'
              have hne : y ≠ id := by
                intro h; subst h
                simp [isPageNode, hpn] at hyp
              simp [hne]
            · intro m hm hma b hb
              by_cases hmi : m = id
              · subst hmi
                obtain ⟨k, hk, hkb⟩ := hb
                exact h5 herr k hk b hkb
              · refine hcl m hm ?_ b hb
                intro h
                rcases List.mem_cons.mp h with h' | h'
                · exact hmi h'
                · exact hma h'
          | false =>
            simp only [hpn, Bool.false_eq_true, if_false] at herr ⊢
            have hne : ∀ b, ¬ Edge g id b := fun b => no_edge_of_not_pages g id b hpn
            have hty : isName (nodeType (overlay P (nodeDict g id))) "Page" = isPageNode g id := by
              rw [nodeType_overlay]; simp [isPageNode, hpn]
            rw [hty]
            cases hpg : isPageNode g id with
            | true =>
              simp only [if_true]
              refine ⟨?_, closed_leaf g vis anc id hc hne⟩
              simp [novel, hid]
            | false =>
              simp only [Bool.false_eq_true, if_false]
              exact ⟨by simp [novel], closed_leaf g vis anc id hc hne⟩

/-! ### The path budget cuts nothing -/

/-- With a budget above the number of objects not yet on the path, a larger budget lists the same. -/
theorem pathLeaves_budget (g : Store) : ∀ f anc n, unvisited (g.map Prod.fst) anc < f →
    pathLeaves g (f + 1) anc n = pathLeaves g f anc n := by
  intro f
  induction f with
  | zero => intro anc n h; omega
  | succ f ih =>
    intro anc n hlt
    rw [pathLeaves_succ g (f + 1), pathLeaves_succ g f]
    by_cases hna : n ∈ anc
    · simp [hna]
    · have hcn : anc.contains n = false := by simpa using hna
      simp only [hcn, Bool.false_eq_true, if_false]
      cases hpn : isPagesNode g n with
      | false => simp
      | true =>
        simp only [if_true]
        have hin : n ∈ g.map Prod.fst :=
          get_some_mem_keys g n (nodeDict_nonempty g n (isPagesNode_nonempty g n hpn))
        have hdec := unvisited_cons_lt (g.map Prod.fst) anc n hin hna
        congr 1
        funext k
        unfold kidLeaves
        split
        · exact ih (n :: anc) _ (by omega)
        · rfl

theorem pathLeaves_stable (g : Store) (anc : List Nat) (n : Nat) :
    ∀ d, pathLeaves g (g.length + 1 + d) anc n = pathLeaves g (g.length + 1) anc n := by
  intro d
  induction d with
  | zero => rfl
  | succ d ih =>
    rw [← ih]
    have h1 : unvisited (g.map Prod.fst) anc ≤ g.length := by
      have := List.length_filter_le (fun m => !anc.contains m) (g.map Prod.fst)
      simp only [List.length_map] at this
      exact this
    exact pathLeaves_budget g (g.length + 1 + d) anc n (by omega)

end PdfVerif.PageTree
