/- Line-protocol driver for C15 (path algebra, CMap probe paths, image output paths). -/
import PdfVerif.Model.Path
import PdfVerif.Model.Image

open PdfVerif PdfVerif.Path

def namesOf (s : String) : Option (List Bytes) :=
  if s == "-" then some [] else (s.splitOn ",").mapM bytesOfHex

def step (line : String) : String :=
  match words line with
  | ["join", a, b] =>
    match bytesOfHex a, bytesOfHex b with
    | some a, some b => hexOrDash (join a b)
    | _, _ => "bad-op"
  | ["norm", p] =>
    match bytesOfHex p with
    | some p => hexOrDash (render (norm p))
    | none => "bad-op"
  | ["basename", p] =>
    match bytesOfHex p with
    | some p => hexOrDash (basename p)
    | none => "bad-op"
  | ["safename", n] =>
    match bytesOfHex n with
    | some n => hexOrDash (safeName n)
    | none => "bad-op"
  | ["history", outdir, reqs, existing] =>
    -- reqs: `name:ext,name:ext,…` (hex, `-` = empty)
    let parseReq (t : String) : Option (Bytes × Bytes) :=
      match t.splitOn ":" with
      | [n, e] => match bytesOfHex n, bytesOfHex e with
        | some n, some e => some (n, e)
        | _, _ => none
      | _ => none
    match bytesOfHex outdir, (if reqs == "-" then some [] else (reqs.splitOn ",").mapM parseReq), namesOf existing with
    | some o, some rs, some ex =>
      let out := exportHistory o rs ex
      if out.isEmpty then "-" else ",".intercalate (out.map (fun r => hexOrDash r.1 ++ ":" ++ hexOrDash r.2))
    | _, _, _ => "bad-op"
  | ["cmapenv", env, pkg, name] =>
    -- env: `none` (CMAP_PATH not set) or hex (`-` = set to the empty string)
    match (if env == "none" then some none else (bytesOfHex env).map some), bytesOfHex pkg, bytesOfHex name with
    | some e, some pk, some n =>
      let ps := cmapProbes (cmapDirs e pk) n
      if ps.isEmpty then "-" else ",".intercalate (ps.map hexOrDash)
    | _, _, _ => "bad-op"
  | ["cmap", dirs, name] =>
    match namesOf dirs, bytesOfHex name with
    | some ds, some n =>
      let ps := cmapProbes ds n
      if ps.isEmpty then "-" else ",".intercalate (ps.map hexOrDash)
    | _, _ => "bad-op"
  | ["rawext", b, w, h] =>
    match b.toInt?, w.toInt?, h.toInt? with
    | some b, some w, some h => hexOrDash (Image.rawExtZ b w h)
    | _, _, _ => "bad-op"
  | ["image", outdir, name, ext, existing] =>
    match bytesOfHex outdir, bytesOfHex name, bytesOfHex ext, namesOf existing with
    | some o, some n, some e, some ex =>
      match imagePath o n e ex with
      | some (nm, p) => hexOrDash nm ++ " " ++ hexOrDash p
      | none => "none"
    | _, _, _, _ => "bad-op"
  | _ => "bad-op"

partial def loop (h : IO.FS.Stream) (out : IO.FS.Stream) : IO Unit := do
  let line ← h.getLine
  if line.isEmpty then return ()
  out.putStrLn (step (line.trimAscii.toString))
  loop h out

def main : IO Unit := do
  loop (← IO.getStdin) (← IO.getStdout)
