/- Line-protocol driver for C13 (lenient accessors over damaged object graphs).

Values are written in prefix form, tokens separated by blanks:
  N | B0 | B1 | I<int> | Q<p/q> | S<hex or -> | M<hex or -> | R<n>
  A<k> obj*k | D<k> (hexkey obj)*k | T<k> <hexdata> (hexkey obj)*k
Requests:
  G <k> (<objnum> obj)*k                 set the current object graph          -> ok
  resolve1|int_value|float_value|num_value|str_value|list_value|dict_value|stream_value|resolve_all <strict> obj
  uint_value <strict> <nbits> obj        safe_int obj | safe_float obj | safe_rect_list obj
  pagetree <strict> <catalog dict>       get_widths <strict> <array>
  xref <strict> <start> <k> (<pos> <X|obj> <X|obj>)*k
  numtree <strict> obj                   NumberTree(obj)._parse(): items in order ; visited set in insertion order (round 6c)
  ra_calls obj                           getobj calls of resolve_all (non-STRICT) on the current graph (round 6)
  calls obj                              getobj calls of resolve1 on the current graph, and the proved bound (round 6)
  sdec <k> <namehex>*k <hex>             PDFStream.decode with /Filter [names], no DecodeParms (round 6)
  pred png|tiff <colors> <columns> <bpc> <hex>   predictors of Model/Filters.lean on arbitrary parameters (round 6)
  dec rl|ahx|a85|lzw <hex>               stream decoders of Model/Filters.lean on arbitrary payloads (round 6)
Replies:  V …  |  E <PythonClassName>  |  E fuel  |  bad-op
-/
import PdfVerif.Model.Lenient
import PdfVerif.Model.Filters
import PdfVerif.Model.LenientTree

open PdfVerif PdfVerif.Lenient

abbrev P (α : Type) := List String → Option (α × List String)

/-- names and dictionary keys: bytes <-> characters 0..255, one to one -/
def strOfBytes (b : Bytes) : String := String.ofList (b.map (fun c => Char.ofNat c.toNat))
def bytesOfStr (s : String) : Bytes := s.toList.map (fun c => UInt8.ofNat c.toNat)
def hexOfStr (s : String) : String := hexOrDash (bytesOfStr s)

partial def parseObj : P Obj
  | [] => none
  | t :: rest =>
    let body := (t.drop 1).toString
    match t.front with
    | 'N' => some (.null, rest)
    | 'B' => some (.bool (body == "1"), rest)
    | 'I' => body.toInt?.map (fun i => (.int i, rest))
    | 'Q' => (ratOfString body).map (fun q => (.real q, rest))
    | 'S' => (bytesOfHex body).map (fun b => (.str b, rest))
    | 'M' => (bytesOfHex body).map (fun b => (.name (strOfBytes b), rest))
    | 'R' => body.toNat?.map (fun n => (.ref n, rest))
    | 'A' => do
      let k ← body.toNat?
      let (xs, rest) ← parseMany k rest
      pure (.arr xs, rest)
    | 'D' => do
      let k ← body.toNat?
      let (kvs, rest) ← parseKvs k rest
      pure (.dict kvs, rest)
    | 'T' => do
      let k ← body.toNat?
      match rest with
      | d :: rest => do
        let data ← bytesOfHex d
        let (kvs, rest) ← parseKvs k rest
        pure (.stream kvs data, rest)
      | [] => none
    | _ => none
where
  parseMany : Nat → P (List Obj)
    | 0, ts => some ([], ts)
    | k + 1, ts => do
      let (x, ts) ← parseObj ts
      let (xs, ts) ← parseMany k ts
      pure (x :: xs, ts)
  parseKvs : Nat → P (List (String × Obj))
    | 0, ts => some ([], ts)
    | k + 1, ts =>
      match ts with
      | key :: ts => do
        let kb ← bytesOfHex key
        let (x, ts) ← parseObj ts
        let (xs, ts) ← parseKvs k ts
        pure ((strOfBytes kb, x) :: xs, ts)
      | [] => none

partial def showObj : Obj → String
  | .null => "N"
  | .bool b => if b then "B1" else "B0"
  | .int i => "I" ++ toString i
  | .real q => "Q" ++ ratToString q
  | .str s => "S" ++ hexOrDash s
  | .name s => "M" ++ hexOfStr s
  | .ref n => "R" ++ toString n
  | .arr xs => " ".intercalate (("A" ++ toString xs.length) :: xs.map showObj)
  | .dict kvs => " ".intercalate (("D" ++ toString kvs.length) :: kvs.map (fun kv => hexOfStr kv.1 ++ " " ++ showObj kv.2))
  | .stream kvs d => " ".intercalate (("T" ++ toString kvs.length) :: hexOrDash d ::
      kvs.map (fun kv => hexOfStr kv.1 ++ " " ++ showObj kv.2))

def showErr (e : Err) : String :=
  match e.className with
  | some c => "E " ++ c
  | none => "E fuel"

def reply (r : Except Err Obj) : String :=
  match r with
  | .ok v => "V " ++ showObj v
  | .error e => showErr e

def strictOf (s : String) : Option Bool :=
  if s == "1" then some true else if s == "0" then some false else none

/-- Python's `int(b"…")` on the strings the harness generates: optional sign, decimal digits. -/
def parseIntBytes (b : Bytes) : Option Int :=
  let s := String.ofList (b.map (fun c => Char.ofNat c.toNat))
  if s.isEmpty then none else
  let t := if s.front == '+' then (s.drop 1).toString else s
  if t.isEmpty || t == "-" then none
  else if (t.toList.drop (if t.front == '-' then 1 else 0)).all Char.isDigit then t.toInt? else none

/-- Python's `float(b"…")` on the generated strings: `[+-]digits[.digits]`. -/
def parseRatBytes (b : Bytes) : Option Rat :=
  let s := String.ofList (b.map (fun c => Char.ofNat c.toNat))
  match s.splitOn "." with
  | [a] => (parseIntBytes a.toUTF8.toList).map (fun i => (i : Rat))
  | [a, f] =>
    if f.isEmpty || !(f.toList.all Char.isDigit) then none else
    match parseIntBytes a.toUTF8.toList, f.toNat? with
    | some i, some n =>
      let frac : Rat := (n : Rat) / ((10 : Rat) ^ f.length)
      let neg := a.front == '-'
      some (if neg then (i : Rat) - frac else (i : Rat) + frac)
    | _, _ => none
  | _ => none

def showOptRat : Option Rat → String
  | some q => "V " ++ ratToString q
  | none => "V None"

def showPage (p : PageNode) : String :=
  (match p.objid with | some n => toString n | none => "None") ++ " " ++ showObj (.dict p.props)

def showW : WEntry → String
  | .run c ws => "run " ++ showObj c ++ " " ++ showObj (.arr ws)
  | .range c1 c2 w => "range " ++ toString c1 ++ " " ++ toString c2 ++ " " ++ showObj w

partial def parseGraph : Nat → P Graph
  | 0, ts => some ([], ts)
  | k + 1, ts =>
    match ts with
    | n :: ts => do
      let n ← n.toNat?
      let (x, ts) ← parseObj ts
      let (g, ts) ← parseGraph k ts
      pure ((n, x) :: g, ts)
    | [] => none

partial def parseXref : Nat → P XrefTable
  | 0, ts => some ([], ts)
  | k + 1, ts =>
    match ts with
    | pos :: ts => do
      let pos ← pos.toInt?
      let (a, ts) ← (match ts with
        | "X" :: ts => some (none, ts)
        | ts => (parseObj ts).map (fun (o, ts) => (some o, ts)))
      let (b, ts) ← (match ts with
        | "X" :: ts => some (none, ts)
        | ts => (parseObj ts).map (fun (o, ts) => (some o, ts)))
      let (t, ts) ← parseXref k ts
      pure ((pos, ⟨a, b⟩) :: t, ts)
    | [] => none

def accessor (name : String) : Option (Bool → Graph → Obj → Except Err Obj) :=
  match name with
  | "resolve1" => some resolve1
  | "int_value" => some intValue
  | "float_value" => some floatValue
  | "num_value" => some numValue
  | "str_value" => some strValue
  | "list_value" => some (fun s g x => (listValue s g x).map Obj.arr)
  | "dict_value" => some (fun s g x => (dictValue s g x).map Obj.dict)
  | "stream_value" => some streamValue
  | "resolve_all" => some resolveAll
  | _ => none

/-- round 6: the stream decoders (Model/Filters.lean) on arbitrary payloads. -/
def decReply (r : Except PdfVerif.Filters.Err Bytes) : String :=
  match r with
  | .ok d => "V " ++ hexOrDash d
  | .error e => "E " ++ e.name

def decoder (name : String) : Option (Bytes → Except PdfVerif.Filters.Err Bytes) :=
  match name with
  | "rl" => some PdfVerif.Filters.rldecode
  | "ahx" => some PdfVerif.Filters.asciihexdecode
  | "a85" => some PdfVerif.Filters.ascii85decode
  | "lzw" => some PdfVerif.Filters.lzwdecode
  | _ => none

def step (g : Graph) (line : String) : Graph × String :=
  match words line with
  | ["pred", kind, co, cl, bp, h] =>
    match co.toNat?, cl.toNat?, bp.toNat?, bytesOfHex h with
    | some co, some cl, some bp, some d =>
      if kind == "png" then (g, decReply (PdfVerif.Filters.apply_png_predictor co cl bp d))
      else if kind == "tiff" then (g, decReply (PdfVerif.Filters.apply_tiff_predictor co cl bp d))
      else (g, "bad-op")
    | _, _, _, _ => (g, "bad-op")
  | ["dec", name, h] =>
    match decoder name, bytesOfHex h with
    | some f, some d => (g, decReply (f d))
    | _, _ => (g, "bad-op")
  | "numtree" :: s :: rest =>
    match strictOf s, parseObj rest with
    | some s, some (x, []) =>
      (g, match numTree s g x with
          | .ok (its, v) => "V " ++ toString its.length ++
              String.join (its.map (fun kv => " | " ++ showObj kv.1 ++ " " ++ showObj kv.2)) ++ " ; " ++
              " ".intercalate (v.reverse.map toString)
          | .error e => showErr e)
    | _, _ => (g, "bad-op")
  | "ra_calls" :: rest =>
    match parseObj rest with
    | some (x, []) => (g, "V " ++ toString (resolveAllCalls g x))
    | _ => (g, "bad-op")
  | "calls" :: rest =>
    match parseObj rest with
    | some (x, []) => (g, "V " ++ toString (resolve1Calls g x) ++ " " ++ toString ((objids g).length + 1))
    | _ => (g, "bad-op")
  | "sdec" :: k :: rest =>
    match k.toNat? with
    | some k =>
      match (rest.take k).mapM bytesOfHex, rest.drop k with
      | some names, [h] =>
        match bytesOfHex h with
        | some d => (g, decReply (PdfVerif.Filters.streamDecode id (.list names) .absent d))
        | none => (g, "bad-op")
      | _, _ => (g, "bad-op")
    | none => (g, "bad-op")
  | "G" :: k :: rest =>
    match k.toNat? with
    | some k =>
      match parseGraph k rest with
      | some (g', []) => (g', "ok")
      | _ => (g, "bad-op")
    | none => (g, "bad-op")
  | "uint_value" :: s :: nb :: rest =>
    match strictOf s, nb.toNat?, parseObj rest with
    | some s, some nb, some (x, []) =>
      (g, match uintValue s g x nb with
          | .ok v => "V " ++ toString v
          | .error e => showErr e)
    | _, _, _ => (g, "bad-op")
  | "safe_int" :: rest =>
    match parseObj rest with
    | some (x, []) =>
      (g, match safeInt parseIntBytes x with
          | .ok (some v) => "V " ++ toString v
          | .ok none => "V None"
          | .error e => showErr e)
    | _ => (g, "bad-op")
  | "safe_float" :: rest =>
    match parseObj rest with
    | some (x, []) =>
      (g, match safeFloat parseRatBytes x with
          | .ok v => showOptRat v
          | .error e => showErr e)
    | _ => (g, "bad-op")
  | "safe_rect_list" :: rest =>
    match parseObj rest with
    | some (x, []) =>
      (g, match safeRectList parseRatBytes x with
          | .ok (some vs) => "V " ++ " ".intercalate (vs.map ratToString)
          | .ok none => "V None"
          | .error e => showErr e)
    | _ => (g, "bad-op")
  | "pagetree" :: s :: rest =>
    match strictOf s, parseObj rest with
    | some s, some (.dict cat, []) =>
      (g, match pageTree s g cat with
          | .ok ps => "V " ++ toString ps.length ++ (String.join (ps.map (fun p => " | " ++ showPage p)))
          | .error e => showErr e)
    | _, _ => (g, "bad-op")
  | "get_widths" :: s :: rest =>
    match strictOf s, parseObj rest with
    | some s, some (.arr xs, []) =>
      (g, match getWidths s g xs with
          | .ok ws => "V " ++ toString ws.length ++ " work=" ++ toString (widthsWork ws) ++
              (String.join (ws.map (fun w => " | " ++ showW w)))
          | .error e => showErr e)
    | _, _ => (g, "bad-op")
  | "xref" :: s :: start :: k :: rest =>
    match strictOf s, start.toInt?, k.toNat? with
    | some s, some start, some k =>
      match parseXref k rest with
      | some (t, []) =>
        (g, match readXref s g t start with
            | .ok l => "V " ++ " ".intercalate (l.map toString)
            | .error e => showErr e)
      | _ => (g, "bad-op")
    | _, _, _ => (g, "bad-op")
  | "family" :: [c] => (g, if isFamilyClass c then "yes" else "no")
  | name :: s :: rest =>
    match accessor name, strictOf s, parseObj rest with
    | some f, some s, some (x, []) => (g, reply (f s g x))
    | _, _, _ => (g, "bad-op")
  | _ => (g, "bad-op")

partial def loop (h : IO.FS.Stream) (out : IO.FS.Stream) (g : Graph) : IO Unit := do
  let line ← h.getLine
  if line.isEmpty then return ()
  let (g', r) := step g (line.trimAscii.toString)
  out.putStrLn r
  loop h out g'

def main : IO Unit := do
  loop (← IO.getStdin) (← IO.getStdout) []
