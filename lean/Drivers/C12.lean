/- Line-protocol driver for C12 (process model: caches, shared tables, page iterators).

All arguments are natural numbers separated by blanks.
  world  ncm id* num id*                      which CMap / unicode-map ids exist as files
  doc    id DOC                               register an abstract document
  reset                                       state := init
  open   hid docid caching nsel sel*
  next   hid | close hid
  extract docid caching nsel sel*
  parsecmap name next (code cid)*
DOC      := nobjs (n sid dangling)* nfs (objid FONTSPEC)* nopen n* npages PAGE*        (sid 0 = direct; dangling 1 = index beyond the stream)
FONTSPEC := kind vertical base ndiffs (code glyphindex)* hasToU ntou (cid nu u*)* cmap umap usecmap nreads n*
PAGE     := nwalk n* nfonts FONTREF* nreads n* nshows (fontidx ncodes code*)* ngops (code v)*
             code: 0 re 1 m 2 l 3 h 4 paint 5 n 6 q 7 Q 8 w(v) 9 operand(v)
FONTREF  := 0 objid | 1 FONTSPEC

Process-wide state and per-page interpreter state (Model/ProcGlobals.lean):
  ginit  nl lit* nk kw*                       globals := G0 with these names already interned (insertion order)
  gcall  npages GPAGE*                        one call: a fresh interpreter renders the pages in order
  gmetrics key                                FONT_METRICS lookup
GPAGE    := ncs (key kind arg)* nops (code a b)*     kind 0 named(arg) 1 [/ICCBased N=arg] 2 [/DeviceN arg names]
             code 0 Tc 1 Tw 2 Tz 3 TL 4 Ts 5 Tr (b-1000 = value) 6 Tf(a = name, b-1000 = size) 7 q 8 Q 9 cs(a) 10 CS(a)
                  11 stray name(a) 12 unknown operator(a) 13 G g RG rg K k (a = 0 gray 1 rgb 2 cmyk, b = 1 stroking)

Object cache with mutable containers (Model/ProcObjCache.lean); a fresh parse of object n gives [n]:
  oworld caching nids id*                     which objects exist; state := init
  oget n | omut n v | ocpmut n v              reply: val <contents|none> fresh=<0|1> same=<0|1>
                                              (same: the reference returned is the one returned last time for n)
-/
import PdfVerif.Model.ProcessEnc
import PdfVerif.Model.ProcGlobals
import PdfVerif.Model.ProcObjCache

open PdfVerif PdfVerif.Process

abbrev P (α : Type) := List Nat → Option (α × List Nat)

def pNat : P Nat
  | [] => none
  | x :: xs => some (x, xs)

def pMany {α : Type} (p : P α) : Nat → P (List α)
  | 0, ts => some ([], ts)
  | n + 1, ts =>
    match p ts with
    | none => none
    | some (a, ts1) =>
      match pMany p n ts1 with
      | none => none
      | some (as, ts2) => some (a :: as, ts2)

def pList {α : Type} (p : P α) : P (List α) := fun ts =>
  match ts with
  | [] => none
  | n :: rest => pMany p n rest

def pPair {α β : Type} (p : P α) (q : P β) : P (α × β) := fun ts =>
  match p ts with
  | none => none
  | some (a, ts1) =>
    match q ts1 with
    | none => none
    | some (b, ts2) => some ((a, b), ts2)

def pFontSpec : P FontSpec := fun ts =>
  match pPair pNat (pPair pNat pNat) ts with
  | none => none
  | some ((kind, vert, base), ts1) =>
  match pList (pPair pNat pNat) ts1 with
  | none => none
  | some (diffs, ts2) =>
  match pNat ts2 with
  | none => none
  | some (hasT, ts3) =>
  match pList (pPair pNat (pList pNat)) ts3 with
  | none => none
  | some (tou, ts4) =>
  match pPair pNat (pPair pNat pNat) ts4 with
  | none => none
  | some ((cm, um, uc), ts5) =>
  match pList pNat ts5 with
  | none => none
  | some (reads, ts6) =>
    -- a glyph name unknown to the table makes the code undefined (KeyError path of get_encoding)
    let ds := diffs.map (fun e => (e.1, glyphUnicode e.2))
    some ({ kind := kind, vertical := vert != 0, base := base, diffs := ds, hasToUnicode := hasT != 0, tounicode := tou,
            cmap := cm, umap := um, usecmap := uc, reads := reads }, ts6)

def pFontRef : P FontRef := fun ts =>
  match ts with
  | 0 :: n :: rest => some (.byId n, rest)
  | 1 :: rest => match pFontSpec rest with
    | none => none
    | some (s, r) => some (.direct s, r)
  | _ => none

def pPage : P PageSpec := fun ts =>
  match pList pNat ts with
  | none => none
  | some (walk, ts1) =>
  match pList pFontRef ts1 with
  | none => none
  | some (fonts, ts2) =>
  match pList pNat ts2 with
  | none => none
  | some (reads, ts3) =>
  match pList (pPair pNat (pList pNat)) ts3 with
  | none => none
  | some (shows, ts4) =>
  match pList (pPair pNat pNat) ts4 with
  | none => none
  | some (gs, ts5) =>
    let gops := gs.filterMap (fun e => match e.1 with
      | 0 => some GOp.re | 1 => some GOp.m | 2 => some GOp.l | 3 => some GOp.h | 4 => some GOp.paint
      | 5 => some GOp.n | 6 => some GOp.q | 7 => some GOp.Q | 8 => some (GOp.w e.2) | 9 => some (GOp.operand e.2)
      | _ => none)
    if gops.length != gs.length then none else
    some ({ walk := walk, fonts := fonts, reads := reads, shows := shows, gops := gops }, ts5)

def pDoc (docid : Nat) : P DocSpec := fun ts =>
  match pList (pPair pNat (pPair pNat pNat)) ts with
  | none => none
  | some (objs, ts1) =>
  match pList (pPair pNat pFontSpec) ts1 with
  | none => none
  | some (fs, ts2) =>
  match pList pNat ts2 with
  | none => none
  | some (opn, ts3) =>
  match pList pPage ts3 with
  | none => none
  | some (pages, ts4) =>
    let payload (n : Nat) := docid * 100000 + n
    let objs' := objs.map (fun e => (e.1, if e.2.1 = 0 then Loc.direct (payload e.1)
      else if e.2.2 = 0 then Loc.inStream e.2.1 (payload e.1) else Loc.danglingIn e.2.1))
    some ({ objs := objs', fontSpecs := fs, openReads := opn, pages := pages }, ts4)

structure DState where
  world : World
  docs : List (Nat × DocSpec)
  st : State
  g : ProcGlobals.Globals := ProcGlobals.G0 [] []
  ocaching : Bool := true
  oids : List Nat := []
  ost : ObjCache.St := ObjCache.St.init
  olast : List (Nat × Nat) := []

namespace G
open PdfVerif.ProcGlobals

def pTriple : P (Nat × Nat × Nat) := pPair pNat (pPair pNat pNat)

def pGPage : P GPage := fun ts =>
  match pList pTriple ts with
  | none => none
  | some (cs, ts1) =>
  match pList pTriple ts1 with
  | none => none
  | some (ops, ts2) =>
    let val (b : Nat) : Int := (b : Int) - 1000
    let cs' := cs.map (fun e => (e.1, match e.2.1 with
      | 0 => CsSpec.named e.2.2 | 1 => CsSpec.icc e.2.2 | _ => CsSpec.devicen e.2.2))
    let ops' := ops.filterMap (fun e => match e.1 with
      | 0 => some (TOp.Tc (val e.2.2)) | 1 => some (TOp.Tw (val e.2.2)) | 2 => some (TOp.Tz (val e.2.2))
      | 3 => some (TOp.TL (val e.2.2)) | 4 => some (TOp.Ts (val e.2.2)) | 5 => some (TOp.Tr (val e.2.2))
      | 6 => some (TOp.Tf e.2.1 (val e.2.2)) | 7 => some TOp.q | 8 => some TOp.Q
      | 9 => some (TOp.cs e.2.1) | 10 => some (TOp.CS e.2.1) | 11 => some (TOp.lit e.2.1)
      | 12 => some (TOp.unknown e.2.1) | 13 => some (TOp.dev (e.2.2 != 0) e.2.1) | _ => none)
    if ops'.length != ops.length then none else some ({ cs := cs', ops := ops' }, ts2)

def showCS (c : Option CS) : String :=
  match c with
  | some c => toString c.1 ++ ":" ++ toString c.2
  | none => "none"

def showPState (s : PState) : String :=
  "csmap=" ++ ",".intercalate (s.csmap.map (fun e => toString e.1 ++ ":" ++ toString e.2.1 ++ ":" ++ toString e.2.2)) ++
  " scs=" ++ showCS s.scs ++ " ncs=" ++ showCS s.ncs ++
  " ts=" ++ ",".intercalate ([s.ts.fontsize, s.ts.charspace, s.ts.wordspace, s.ts.scaling, s.ts.leading,
      s.ts.render, s.ts.rise].map toString) ++
  " gs=" ++ toString s.gstack.length ++ " err=" ++ (if s.err then "1" else "0")

def showStatic (g : Globals) : String :=
  "cs=" ++ ",".intercalate (g.colorspaces.map (fun e => toString e.1 ++ ":" ++ toString e.2.1 ++ ":" ++ toString e.2.2)) ++
  " fm=" ++ toString ((g.metrics.foldl (fun acc e => acc + (e.1 + 1) * (e.2.1 * 1000003 + e.2.2)) 0) % 2305843009213693951) ++
  " nfm=" ++ toString g.metrics.length ++ " strict=" ++ (if g.strict then "1" else "0")

end G

def mkWorld (cms ums : List Nat) : World :=
  { encInit := encTables,
    loadCMap := fun k => if cms.contains k then some [(k, k + 1), (k + 1, 2 * k)] else none,
    loadUMap := fun k => if ums.contains k then some ([(k + 1, 65 + k)], [(k + 1, 97 + k)]) else none }

def csv (xs : List Nat) : String := ",".intercalate (xs.map toString)

def sortNat (xs : List Nat) : List Nat := (xs.toArray.qsort (· < ·)).toList

def showTables (t : Tables) : String :=
  "cm=" ++ csv (sortNat (t.cmaps.map (·.1))) ++ " um=" ++ csv (sortNat (t.umaps.map (·.1))) ++
  " enc=" ++ csv (t.enc.map tableSum)

def showCaches (c : Caches) : String :=
  "objs=" ++ csv (sortNat (c.objs.map (·.1))) ++ " pobjs=" ++ csv (sortNat (c.pobjs.map (·.1))) ++
  " fonts=" ++ csv (sortNat (c.fonts.map (·.1))) ++ " busy=" ++ toString c.busy.length

def showGlyph (g : List Nat) : String :=
  match g with
  | [u] => if u ≥ 1114112 then "c" ++ toString (u - 1114112) else toString u
  | _ => ".".intercalate (g.map toString)

/-- glyphs of composite fonts with a predefined CMap depend on the (synthetic) file content:
printed as one `?` per show that yields anything -/
def showPage (d : DocSpec) (k : Option Nat) (p : PageOut) : String :=
  let kinds : List Nat := match k.bind (fun k => d.pages[k]?) with
    | none => []
    | some pg => pg.shows.map (fun s => match (pg.fonts[s.1]? : Option FontRef) with
        | some (FontRef.direct sp) => sp.kind
        | some (FontRef.byId n) => match alookup n d.fontSpecs with
          | some sp => sp.kind
          | none => 0
        | none => 0)
  let parts := (p.glyphs.zip kinds).map (fun (gs, kd) =>
    if kd = 2 || kd = 3 then (if gs.isEmpty then [] else ["?"]) else gs.map showGlyph)
  let flat := parts.flatten
  let sh := if p.shapes.isEmpty then "-" else ",".intercalate (p.shapes.map (fun s => toString s.1 ++ ":" ++ toString s.2))
  (if flat.isEmpty then "-" else ",".intercalate flat) ++ " " ++ sh

def oStep (ds : DState) (n : Nat) (op : ObjCache.Op) : DState × String :=
  let parse : Nat → Option (List Nat) := fun k => if ds.oids.contains k then some [k] else none
  let addr := (ObjCache.getobj parse ds.ocaching ds.ost n).1
  let r := ObjCache.step parse ds.ocaching ds.ost op
  let same := match addr, alookup n ds.olast with
    | some a, some b => a == b
    | _, _ => false
  let olast := match addr with
    | some a => aset n a ds.olast
    | none => ds.olast
  ({ ds with ost := r.1, olast := olast },
   "val " ++ (match r.2 with | some c => csv c | none => "none") ++
   " fresh=" ++ (if r.2 == parse n then "1" else "0") ++ " same=" ++ (if same then "1" else "0") ++
   " cached=" ++ csv (sortNat (r.1.cache.map (·.1))))

def stepLine (ds : DState) (line : String) : DState × String :=
  match words line with
  | [] => (ds, "bad-op")
  | cmd :: args =>
    match args.mapM String.toNat? with
    | none => (ds, "bad-op")
    | some ns =>
      match cmd, ns with
      | "world", _ =>
        match pPair (pList pNat) (pList pNat) ns with
        | some ((cms, ums), []) =>
          let w := mkWorld cms ums
          ({ ds with world := w, st := init w }, "ok")
        | _ => (ds, "bad-op")
      | "reset", [] => ({ ds with st := init ds.world }, "ok")
      | "preload", _ =>
        -- bring the shared caches to the key sets the implementation's process already has
        -- (a reachable state: the same as parsing these CMaps / using fonts that name them)
        match pPair (pList pNat) (pList pNat) ns with
        | some ((cms, ums), []) =>
          let t0 := (init ds.world).tables
          let t1 := cms.foldl (fun t k => (getCMap ds.world t k).2) t0
          let t2 := ums.foldl (fun t k => (getUMap ds.world t k).2) t1
          ({ ds with st := { tables := t2, handles := [] } }, "ok # " ++ showTables t2)
        | _ => (ds, "bad-op")
      | "doc", id :: rest =>
        match pDoc id rest with
        | some (d, []) => ({ ds with docs := aset id d ds.docs }, "ok")
        | _ => (ds, "bad-op")
      | "open", hid :: docid :: caching :: rest =>
        match alookup docid ds.docs, pList pNat rest with
        | some d, some (sel, []) =>
          let (s1, _) := step ds.world ds.st (.open hid d (caching != 0) sel)
          let cs := match alookup hid s1.handles with
            | some h => showCaches h.c ++ " interp=" ++ toString h.interp.curpath.length ++ "." ++
                toString h.interp.gstack.length ++ "." ++ toString h.interp.lw ++ "." ++ toString h.interp.argstack.length
            | none => "?"
          ({ ds with st := s1 }, "ok # " ++ cs ++ " " ++ showTables s1.tables)
        | _, _ => (ds, "bad-op")
      | "next", [hid] =>
        let before := alookup hid ds.st.handles
        let (s1, o) := step ds.world ds.st (.next hid)
        let cs := match alookup hid s1.handles with
          | some h => showCaches h.c ++ " interp=" ++ toString h.interp.curpath.length ++ "." ++
              toString h.interp.gstack.length ++ "." ++ toString h.interp.lw ++ "." ++ toString h.interp.argstack.length
          | none => "?"
        let os := match o, before with
          | .page p, some h => "page " ++ showPage h.doc h.todo.head? p
          | .done, _ => "done"
          | .noHandle, _ => "nohandle"
          | _, _ => "?"
        ({ ds with st := s1 }, os ++ " # " ++ cs ++ " " ++ showTables s1.tables)
      | "close", [hid] =>
        let (s1, _) := step ds.world ds.st (.close hid)
        ({ ds with st := s1 }, "ok # " ++ showTables s1.tables)
      | "extract", docid :: caching :: rest =>
        match alookup docid ds.docs, pList pNat rest with
        | some d, some (sel, []) =>
          let (s1, o) := step ds.world ds.st (.extract d (caching != 0) sel)
          let ks := selPages d.pages.length sel
          let os := match o with
            | .pages ps => ";".intercalate ((ps.zip ks).map (fun (p, k) => showPage d (some k) p))
            | _ => "?"
          -- the specification side: the same pages from fresh values only
          let sp := ";".intercalate (((pagesSpec ds.world d sel).zip ks).map (fun (p, k) => showPage d (some k) p))
          ({ ds with st := s1 }, "pages " ++ os ++ " # spec " ++ sp ++ " # " ++ showTables s1.tables)
        | _, _ => (ds, "bad-op")
      | "parsecmap", name :: n :: rest =>
        match pMany (pPair pNat pNat) n rest with
        | some (ext, []) =>
          let (s1, o) := step ds.world ds.st (.parseCMap name ext)
          let os := match o with
            | .cmap priv shared => "cmap priv=" ++ csv (priv.map (·.2)) ++ " shared=" ++
                (match shared with | some l => csv (l.map (·.2)) | none => "none")
            | _ => "?"
          ({ ds with st := s1 }, os ++ " # " ++ showTables s1.tables)
        | _ => (ds, "bad-op")
      | "ginit", _ =>
        match pPair (pList pNat) (pList pNat) ns with
        | some ((ls, ks), []) =>
          let g := ProcGlobals.G0 ls ks
          ({ ds with g := g }, "ok # " ++ G.showStatic g ++ " ts0=" ++
            (G.showPState ProcGlobals.PState.init))
        | _ => (ds, "bad-op")
      | "gstrict", [v] => ({ ds with g := { ds.g with strict := v != 0 } }, "ok")
      | "gcall", _ =>
        match pList G.pGPage ns with
        | some (pages, []) =>
          let r := ProcGlobals.renderCall ds.g ProcGlobals.PState.init pages
          let alone := pages.map (fun pg => (ProcGlobals.renderPage ds.g ProcGlobals.PState.init pg).1)
          ({ ds with g := r.2 }, "states " ++ ";".intercalate (r.1.map G.showPState) ++
            " # alone=" ++ (if alone == r.1 then "1" else "0") ++
            " newlits=" ++ csv (r.2.lits.drop ds.g.lits.length) ++ " newkw=" ++ csv (r.2.kwds.drop ds.g.kwds.length) ++
            " " ++ G.showStatic r.2)
        | _ => (ds, "bad-op")
      | "oworld", caching :: rest =>
        match pList pNat rest with
        | some (ids, []) => ({ ds with ocaching := caching != 0, oids := ids, ost := ObjCache.St.init, olast := [] }, "ok")
        | _ => (ds, "bad-op")
      | "oget", [n] => oStep ds n (.get n)
      | "omut", [n, v] => oStep ds n (.mutInPlace n v)
      | "ocpmut", [n, v] => oStep ds n (.copyMut n v)
      | "gmetrics", [k] =>
        (ds, match ProcGlobals.metricsOf ds.g k with
          | some d => "metrics " ++ toString d.1 ++ "," ++ toString d.2
          | none => "metrics none")
      | _, _ => (ds, "bad-op")

partial def loop (h : IO.FS.Stream) (out : IO.FS.Stream) (ds : DState) : IO Unit := do
  let line ← h.getLine
  if line.isEmpty then return ()
  let (ds', r) := stepLine ds (line.trimAscii.toString)
  out.putStrLn r
  loop h out ds'

def main : IO Unit := do
  let w := mkWorld [] []
  loop (← IO.getStdin) (← IO.getStdout) { world := w, docs := [], st := init w }
