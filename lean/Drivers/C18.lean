/- Line-protocol driver for C18 (image export model, BMP reader spec, inline-image scanner). -/
import PdfVerif.Model.Image
import PdfVerif.Model.Inline
import PdfVerif.Model.InlineDict
import PdfVerif.Spec.Bmp

open PdfVerif PdfVerif.Image PdfVerif.Gen.ImageGen

def fltOfChar : Char → Option Flt
  | 'F' => some .flate | 'L' => some .lzw | 'A' => some .a85 | 'H' => some .ahx | 'R' => some .rl
  | 'D' => some .dct | 'X' => some .jpx | 'J' => some .jbig2 | 'C' => some .ccitt
  | _ => none

def fltsOf (s : String) : Option (List Flt) :=
  if s == "-" then some [] else s.toList.mapM fltOfChar

def namesOf (s : String) : Option (List Bytes) :=
  if s == "-" then some [] else (s.splitOn ",").mapM bytesOfHex

open PdfVerif.InlineDict in
/-- Operand lists on the wire: `i<int>`, `b0|b1`, `n<hex|->`, `o`, `[` … `]`, separated by `,`. -/
partial def parseVals : List String → List Val → Option (List Val × List String)
  | [], acc => some (acc.reverse, [])
  | "]" :: rest, acc => some (acc.reverse, rest)
  | "[" :: rest, acc =>
    match parseVals rest [] with
    | some (xs, rest') => parseVals rest' (Val.arr xs :: acc)
    | none => none
  | t :: rest, acc =>
    if t == "o" then parseVals rest (Val.other :: acc)
    else if t == "s" then parseVals rest (Val.str :: acc)
    else if t == "b0" then parseVals rest (Val.bool false :: acc)
    else if t == "b1" then parseVals rest (Val.bool true :: acc)
    else if t.startsWith "i" then
      match (t.drop 1).toString.toInt? with
      | some n => parseVals rest (Val.int n :: acc)
      | none => none
    else if t.startsWith "n" then
      match bytesOfHex (t.drop 1).toString with
      | some b => parseVals rest (Val.name b :: acc)
      | none => none
    else none

open PdfVerif.InlineDict in
partial def showVal : Val → String
  | .int n => "i" ++ toString n
  | .bool b => if b then "b1" else "b0"
  | .name s => "n" ++ hexOrDash s
  | .arr xs => "[" ++ ",".intercalate (xs.map showVal) ++ "]"
  | .str => "s"
  | .other => "o"

open PdfVerif.InlineDict in
def showOptVal : Option Val → String
  | some v => showVal v
  | none => "none"

def step (line : String) : String :=
  match words line with
  | ["align32", x] =>
    match x.toInt? with
    | some x => toString (align32 x)
    | none => "bad-op"
  | ["export", flt, cs, bits, w, h, name, existing, data] =>
    let csl : Option (List (Option InlineDict.Val)) :=
      if cs == "none" then some [none] else if cs == "empty" then some []
      else match parseVals (cs.splitOn ",") [] with
        | some (vs, []) => some (vs.map some)
        | _ => none
    match fltsOf flt, csl, bits.toNat?, w.toNat?, h.toNat?, bytesOfHex name, namesOf existing, bytesOfHex data with
    | some fl, some cs, some bits, some w, some h, some name, some ex, some data =>
      match exportImage ⟨fl, InlineDict.csClass cs, InlineDict.cmykMember cs, bits, w, h, name, data⟩ ex with
      | .ok (nm, file) => "OK " ++ hexOrDash nm ++ " " ++ hexOrDash file
      | .error e => "E:" ++ e.toString
    | _, _, _, _, _, _, _, _ => "bad-op"
  | ["branch", flt, cs, bits, w, h] =>
    let csl : Option (List (Option InlineDict.Val)) :=
      if cs == "none" then some [none] else if cs == "empty" then some []
      else match parseVals (cs.splitOn ",") [] with
        | some (vs, []) => some (vs.map some)
        | _ => none
    match fltsOf flt, csl, bits.toNat?, w.toNat?, h.toNat? with
    | some fl, some cs, some bits, some w, some h =>
      let im : ImgIn := ⟨fl, InlineDict.csClass cs, InlineDict.cmykMember cs, bits, w, h, [], []⟩
      let b := branchOf im
      match bmpArgsOf b im with
      | some (bpl, depth) => b.toString ++ " bpl=" ++ toString bpl ++ " depth=" ++ toString depth
      | none => b.toString
    | _, _, _, _, _ => "bad-op"
  | ["readbmp", file] =>
    match bytesOfHex file with
    | some b =>
      match Bmp.readBMP b with
      | some (w, h, px) => "OK " ++ toString w ++ " " ++ toString h ++ " " ++ hexOrDash px
      | none => "none"
    | none => "bad-op"
  | ["samples", k, w, h, data] =>
    match (match k with | "gray8" => some Bmp.Kind.gray8 | "rgb8" => some .rgb8 | "bit1" => some .bit1 | _ => none),
          w.toNat?, h.toNat?, bytesOfHex data with
    | some k, some w, some h, some d => hexOrDash (Bmp.samplesRGB k w h d)
    | _, _, _, _ => "bad-op"
  | ["inlinedict", objs, input] =>
    let toks := if objs == "-" then [] else objs.splitOn ","
    match parseVals toks [], bytesOfHex input with
    | some (vs, []), some inp =>
      match InlineDict.processID vs inp with
      | .error e => "E:" ++ e.toString
      | .ok p =>
        let sz := match InlineDict.inlineSize p.dict with | some n => toString n | none => "-"
        let lt := match InlineDict.doEI p.dict with
          | none => "none"
          | some f => "src=" ++ showVal f.srcW ++ "/" ++ showVal f.srcH ++ ";bits=" ++ showVal f.bits ++ ";cs=" ++
              "|".intercalate (f.colorspace.map showOptVal) ++ ";im=" ++ showOptVal f.imagemask
        "OK ei=" ++ (if p.pushEI then "1" else "0") ++ " size=" ++ sz ++ " data=" ++ hexOrDash p.data ++
          " consumed=" ++ toString p.consumed ++ " lt=" ++ lt
    | _, _ => "bad-op"
  | ["inlinelen", target, len, input] =>
    match bytesOfHex target, bytesOfHex input with
    | some t, some inp =>
      if t.isEmpty then "bad-op" else
      match Inline.getInlineDataLen t (if len == "-" then none else len.toNat?) inp with
      | some (d, n) => "OK " ++ hexOrDash d ++ " " ++ toString n
      | none => "EOF"
    | _, _ => "bad-op"
  | ["inline", target, input] =>
    match bytesOfHex target, bytesOfHex input with
    | some t, some inp =>
      if t.isEmpty then "bad-op" else
      match Inline.getInlineData t inp with
      | some (d, n) => "OK " ++ hexOrDash d ++ " " ++ toString n
      | none => "EOF"
    | _, _ => "bad-op"
  | _ => "bad-op"

partial def loop (h : IO.FS.Stream) (out : IO.FS.Stream) : IO Unit := do
  let line ← h.getLine
  if line.isEmpty then return ()
  out.putStrLn (step (line.trimAscii.toString))
  loop h out

def main : IO Unit := do
  loop (← IO.getStdin) (← IO.getStdout)
