/- Line-protocol driver for C18 (image export model, BMP reader spec, inline-image scanner). -/
import PdfVerif.Model.Image
import PdfVerif.Model.Inline
import PdfVerif.Spec.Bmp

open PdfVerif PdfVerif.Image PdfVerif.Gen.ImageGen

def fltOfChar : Char → Option Flt
  | 'F' => some .flate | 'L' => some .lzw | 'A' => some .a85 | 'H' => some .ahx | 'R' => some .rl
  | 'D' => some .dct | 'X' => some .jpx | 'J' => some .jbig2 | 'C' => some .ccitt
  | _ => none

def fltsOf (s : String) : Option (List Flt) :=
  if s == "-" then some [] else s.toList.mapM fltOfChar

def csOf : String → Option CS
  | "G" => some .gray | "RGB" => some .rgb | "CMYK" => some .cmyk | "g" => some .inlGray
  | "rgb" => some .inlRgb | "I" => some .other | "N" => some .none
  | _ => none

def namesOf (s : String) : Option (List Bytes) :=
  if s == "-" then some [] else (s.splitOn ",").mapM bytesOfHex

def step (line : String) : String :=
  match words line with
  | ["align32", x] =>
    match x.toInt? with
    | some x => toString (align32 x)
    | none => "bad-op"
  | ["export", flt, cs, bits, w, h, name, existing, data] =>
    match fltsOf flt, csOf cs, bits.toNat?, w.toNat?, h.toNat?, bytesOfHex name, namesOf existing, bytesOfHex data with
    | some fl, some cs, some bits, some w, some h, some name, some ex, some data =>
      match exportImage ⟨fl, cs, bits, w, h, name, data⟩ ex with
      | .ok (nm, file) => "OK " ++ hexOrDash nm ++ " " ++ hexOrDash file
      | .error e => "E:" ++ e.toString
    | _, _, _, _, _, _, _, _ => "bad-op"
  | ["readbmp", file] =>
    match bytesOfHex file with
    | some b =>
      match Bmp.readBMP b with
      | some (w, h, px) => "OK " ++ toString w ++ " " ++ toString h ++ " " ++ hexOrDash px
      | none => "none"
    | none => "bad-op"
  | ["samples", k, w, h, data] =>
    match (match k with | "gray8" => some Bmp.Kind.gray8 | "rgb8" => some .rgb8 | "bit1" => some .bit1 | _ => none),
          w.toNat?, h.toNat?, bytesOfHex data with
    | some k, some w, some h, some d => hexOrDash (Bmp.samplesRGB k w h d)
    | _, _, _, _ => "bad-op"
  | ["inline", target, input] =>
    match bytesOfHex target, bytesOfHex input with
    | some t, some inp =>
      if t.isEmpty then "bad-op" else
      match Inline.getInlineData t inp with
      | some (d, n) => "OK " ++ hexOrDash d ++ " " ++ toString n
      | none => "EOF"
    | _, _ => "bad-op"
  | _ => "bad-op"

partial def loop (h : IO.FS.Stream) (out : IO.FS.Stream) : IO Unit := do
  let line ← h.getLine
  if line.isEmpty then return ()
  out.putStrLn (step (line.trimAscii.toString))
  loop h out

def main : IO Unit := do
  loop (← IO.getStdin) (← IO.getStdout)
