/- Line-protocol driver for C11 (converters).

   text <tree>                         -> hex(UTF-8) of the model's TextConverter output (text sink)
   xml s|k <codec|-> <tree>            -> hex(UTF-8) of the characters of the model's XMLConverter output
   spectext <tree>                     -> hex(UTF-8) of Spec text
   xmlcheck s|k <codec|-> <tree>       -> ok | bad   (Lean reader on the MODEL output = skeleton)
   skelstrip s|k <tree>                -> ok | bad   (instance of C11_skeleton_strip: skeleton with strip = skeleton of `stripPage`d tree)
   parse s|k <hex utf-8> <tree>        -> ok | bad:<why>  (Lean reader on the IMPLEMENTATION output = skeleton)

   textpn 0|1 <tree>                   -> the same for a TextConverter constructed with showpageno = 0|1
   spectextpn 0|1 <tree>               -> hex(UTF-8) of `specTextPn`
   textraw 0|1 <tree>                  -> hex(UTF-8) of the right-hand side of `C11_text_raw` | boxes (tree has a text box)
   fmt.pts (<+|-> <p/q> <+|-> <p/q>)*  -> the regenerated `LTCurve.get_pts`

   textbin <codec> 0|1 <tree>          -> hex of the BYTES the model's binary sink receives from TextConverter (error
                                          policy ignore; showpageno 0|1) through the codec state machine | bad-op (codec not modelled)
   xmlbin <codec> s|k <tree>           -> the same for XMLConverter (strict) | encode-error
   utf32dec <hex> / utf16dec <hex>     -> hex(UTF-8) of `utf32Decode` / `utf16Decode` (the decoders of C11_sink_utf32 / _utf16) | undecodable

   csname <str>                        -> in | out   (membership in the regenerated table of colour-space names)
   esc.enc <str>  esc.attr s|k <str>  esc.text s|k <str>   -> hex(UTF-8) of the model's utils.enc / XMLConverter.attr / write_text
   esc.unesc <hex utf-8>               -> hex(UTF-8) of `unescAny` (references replaced, nothing else) | bad-reference

   fmt.f3 <+|-> <p/q>   fmt.d <+|-> <p/q>   fmt.bbox (<+|-> <p/q>)x4   -> the formatted number(s)

   strings are code points in hex joined by ',' ("-" = empty); <tree> is a word sequence, see
   tools/harness/props/c11.py `node_words`. -/
import PdfVerif.Spec.Xml
import PdfVerif.Gen.ConvertFmt
import PdfVerif.Model.ConvertCodec

open PdfVerif PdfVerif.Convert PdfVerif.Xml

def strOfCps (w : String) : Option Str :=
  if w == "-" then some [] else
  (w.splitOn ",").mapM (fun h =>
    match bytesOfHexChars (if h.length % 2 = 1 then ('0' :: h.toList) else h.toList) with
    | some bs => some (Char.ofNat (bs.foldl (fun acc b => acc * 256 + b.toNat) 0))
    | none => none)

def hexOfStr (cs : Str) : String :=
  let bs := (String.ofList cs).toUTF8
  if bs.size = 0 then "-" else hexOfBytes bs.toList

abbrev P := StateT (List String) Option

def next : P String := do
  match (← get) with
  | [] => failure
  | w :: ws => set ws; pure w

def peek : P (Option String) := do
  match (← get) with
  | [] => pure none
  | w :: _ => pure (some w)

def str : P Str := do
  let w ← next
  match strOfCps w with
  | some s => pure s
  | none => failure

mutual
partial def pItem : P Item := do
  let w ← next
  match w with
  | "char" => do
    let f ← str; let b ← str; let cs ← str; let nc ← str; let sz ← str; let t ← str
    pure (.char f b cs nc sz t)
  | "anno" => do pure (.anno (← str))
  | "line" => do let a ← str; let b ← str; pure (.line a b)
  | "rect" => do let a ← str; let b ← str; pure (.rect a b)
  | "curve" => do let a ← str; let b ← str; let c ← str; pure (.curve a b c)
  | "image" => do let a ← str; let b ← str; pure (.image a b none)
  | "imagesrc" => do let n ← str; let a ← str; let b ← str; pure (.image a b (some n))
  | "(figure" => do let n ← str; let b ← str; let ks ← pItems; pure (.figure n b ks)
  | "(textline" => do let b ← str; let ks ← pItems; pure (.textline b ks)
  | "(textbox" => do
    let i ← str; let b ← str; let v ← next
    let ks ← pItems
    pure (.textbox i b (v == "v") ks)
  | _ => failure
partial def pItems : P (List Item) := do
  match (← peek) with
  | some ")" => do let _ ← next; pure []
  | some _ => do let i ← pItem; let r ← pItems; pure (i :: r)
  | none => failure
end

mutual
partial def pGroup : P Group := do
  let w ← next
  match w with
  | "gbox" => do let a ← str; let b ← str; pure (.box a b)
  | "(ggroup" => do let b ← str; let ks ← pGroups; pure (.group b ks)
  | _ => failure
partial def pGroups : P (List Group) := do
  match (← peek) with
  | some ")" => do let _ ← next; pure []
  | some _ => do let g ← pGroup; let r ← pGroups; pure (g :: r)
  | none => failure
end

partial def pPages : P (List Page) := do
  match (← peek) with
  | none => pure []
  | some "(page" => do
    let _ ← next
    let i ← str; let b ← str; let r ← str
    let ks ← pItems
    let g ← next
    let gs ← (match g with
      | "nogroups" => pure none
      | "(groups" => do pure (some (← pGroups))
      | _ => failure)
    let rest ← pPages
    pure (⟨i, b, r, ks, gs⟩ :: rest)
  | some _ => failure

def parsePages (ws : List String) : Option (List Page) :=
  match (pPages).run ws with
  | some (ps, []) => some ps
  | _ => none

def stripFlag : String → Option Bool
  | "s" => some true
  | "k" => some false
  | _ => none

def codecOf (w : String) : Option (Option Str) :=
  if w == "-" then some none else (strOfCps w).map some

mutual
partial def nodeEq : Node → Node → Bool
  | .text a, .text b => a == b
  | .elem n a k, .elem n' a' k' => n == n' && a == a' && nodesEq k k'
  | _, _ => false
partial def nodesEq : List Node → List Node → Bool
  | [], [] => true
  | x :: xs, y :: ys => nodeEq x y && nodesEq xs ys
  | _, _ => false
end

def srat (sg q : String) : Option SRat :=
  match ratOfString q with
  | some r => if sg == "-" then some (true, r) else if sg == "+" then some (false, r) else none
  | none => none

/-- the binary sink of the model for a named codec (the concrete state machines of Model/ConvertCodec.lean) -/
def binSink (name : String) (ignore : Bool) (writes : List Str) : Option (Option Bytes) :=
  match name with
  | "utf-32" => some (sinkBinary utf32Codec ignore writes)
  | "utf-16" => some (sinkBinary (utf16Codec true false) ignore writes)
  | "utf-16-le" => some (sinkBinary (utf16Codec false false) ignore writes)
  | "utf-16-be" => some (sinkBinary (utf16Codec false true) ignore writes)
  | "utf-8" => some (sinkBinary (utf8Codec false) ignore writes)
  | "utf-8-sig" => some (sinkBinary (utf8Codec true) ignore writes)
  | "latin-1" => some (sinkBinary latin1Codec ignore writes)
  | _ => none

def showBin : Option (Option Bytes) → String
  | some (some bs) => if bs.isEmpty then "-" else hexOfBytes bs
  | some none => "encode-error"
  | none => "bad-op"

def step (line : String) : String :=
  match words line with
  | ["fmt.f3", sg, q] =>
    match srat sg q with
    | some x => String.ofList (fmtF3 x)
    | none => "bad-op"
  | ["fmt.d", sg, q] =>
    match srat sg q with
    | some x => String.ofList (fmtD x)
    | none => "bad-op"
  | ["fmt.bbox", s0, q0, s1, q1, s2, q2, s3, q3] =>
    match srat s0 q0, srat s1 q1, srat s2 q2, srat s3 q3 with
    | some a, some b, some c, some d => String.ofList (PdfVerif.Gen.ConvertFmt.bbox2str a b c d)
    | _, _, _, _ => "bad-op"
  | "fmt.pts" :: ws =>
    let rec go : List String → Option (List (SRat × SRat))
      | [] => some []
      | s0 :: q0 :: s1 :: q1 :: rest =>
        match srat s0 q0, srat s1 q1, go rest with
        | some a, some b, some r => some ((a, b) :: r)
        | _, _, _ => none
      | _ => none
    match go ws with
    | some pts => let r := PdfVerif.Gen.ConvertFmt.get_pts pts; if r.isEmpty then "-" else String.ofList r
    | none => "bad-op"
  | "textbin" :: name :: pn :: tree =>
    match parsePages tree with
    | some ps => showBin (binSink name true (textDocWritesPn (pn == "1") ps))
    | none => "bad-op"
  | "xmlbin" :: name :: sf :: tree =>
    match stripFlag sf, parsePages tree with
    | some strip, some ps => showBin (binSink name false (xmlDocWrites strip (some name.toList) ps))
    | _, _ => "bad-op"
  | "utf32dec" :: hx :: [] =>
    match bytesOfHex hx with
    | some bs =>
      match utf32Decode bs with
      | some s => hexOfStr s
      | none => "undecodable"
    | none => "bad-op"
  | "utf16dec" :: hx :: [] =>
    match bytesOfHex hx with
    | some bs =>
      match utf16Decode bs with
      | some s => hexOfStr s
      | none => "undecodable"
    | none => "bad-op"
  | "textpn" :: pn :: tree =>
    match parsePages tree with
    | some ps => hexOfStr (sinkText (textDocWritesPn (pn == "1") ps))
    | none => "bad-op"
  | "spectextpn" :: pn :: tree =>
    match parsePages tree with
    | some ps => hexOfStr (specTextPn (pn == "1") ps)
    | none => "bad-op"
  | "textraw" :: pn :: tree =>
    match parsePages tree with
    | some ps =>
      if ps.all (fun p => noBoxL p.kids) then
        hexOfStr (ps.flatMap (fun p => specPageHeader (pn == "1") p ++ glyphTextL p.kids ++ ['\x0c']))
      else "boxes"
    | none => "bad-op"
  | "text" :: tree =>
    match parsePages tree with
    | some ps => hexOfStr (sinkText (textDocWrites ps))
    | none => "bad-op"
  | "spectext" :: tree =>
    match parsePages tree with
    | some ps => hexOfStr (specText ps)
    | none => "bad-op"
  | "xml" :: sf :: cw :: tree =>
    match stripFlag sf, codecOf cw, parsePages tree with
    | some strip, some codec, some ps => hexOfStr (sinkText (xmlDocWrites strip codec ps))
    | _, _, _ => "bad-op"
  | ["csname", w] =>
    match strOfCps w with
    | some t => if PdfVerif.Gen.ConvertFmt.colourSpaceNames.contains t then "in" else "out"
    | none => "bad-op"
  | ["esc.enc", w] =>
    match strOfCps w with
    | some t => hexOfStr (enc t)
    | none => "bad-op"
  | ["esc.attr", sf, w] =>
    match stripFlag sf, strOfCps w with
    | some strip, some t => hexOfStr (attr strip t)
    | _, _ => "bad-op"
  | ["esc.text", sf, w] =>
    match stripFlag sf, strOfCps w with
    | some strip, some t => hexOfStr (writeText strip t)
    | _, _ => "bad-op"
  | ["esc.unesc", hx] =>
    match (if hx == "-" then some [] else bytesOfHex hx) with
    | some bs =>
      match String.fromUTF8? (ByteArray.mk bs.toArray) with
      | some doc =>
        match unescAny doc.toList with
        | some t => hexOfStr t
        | none => "bad-reference"
      | none => "bad-op"
    | none => "bad-op"
  | "skelstrip" :: sf :: tree =>
    match stripFlag sf, parsePages tree with
    | some strip, some ps =>
      if nodeEq (docSkeleton strip ps) (docSkeleton false (ps.map (stripPage strip))) then "ok" else "bad:differs"
    | _, _ => "bad-op"
  | "xmlcheck" :: sf :: cw :: tree =>
    match stripFlag sf, codecOf cw, parsePages tree with
    | some strip, some codec, some ps =>
      match parseXML (sinkText (xmlDocWrites strip codec ps)) with
      | some root => if nodeEq root (docSkeleton strip ps) then "ok" else "bad:differs"
      | none => "bad:not-well-formed"
    | _, _, _ => "bad-op"
  | "parse" :: sf :: hx :: tree =>
    match stripFlag sf, bytesOfHex hx, parsePages tree with
    | some strip, some bs, some ps =>
      match String.fromUTF8? (ByteArray.mk bs.toArray) with
      | some doc =>
        match parseXML doc.toList with
        | some root => if nodeEq root (docSkeleton strip ps) then "ok" else "bad:differs"
        | none => "bad:not-well-formed"
      | none => "bad-op"
    | _, _, _ => "bad-op"
  | _ => "bad-op"

partial def loop (h : IO.FS.Stream) (out : IO.FS.Stream) : IO Unit := do
  let line ← h.getLine
  if line.isEmpty then return ()
  out.putStrLn (step (line.trimAscii.toString))
  loop h out

def main : IO Unit := do
  loop (← IO.getStdin) (← IO.getStdout)
