/- Line-protocol driver for C03 (stream decoders, predictors, filter pipeline, stream delimitation,
   reference encoders).  See tools/harness/props/c03.py for the request grammar. -/
import PdfVerif.Model.Filters
import PdfVerif.Spec.FilterEnc

open PdfVerif PdfVerif.Filters PdfVerif.FilterEnc PdfVerif.Gen.Filters

def showRes (r : Except Err Bytes) : String :=
  match r with
  | .ok b => "B " ++ hexOrDash b
  | .error e => "E " ++ e.name

def natList (s : String) : Option (List Nat) :=
  if s == "-" then some [] else (s.splitOn ",").mapM String.toNat?

def quad (s : String) : Option (Nat × Nat × Nat × Nat) :=
  match (s.splitOn ".").mapM String.toNat? with
  | some [m, a, b, c] => some (m, a, b, c)
  | _ => none

def parseSeg (s : String) : Option RlSeg :=
  match s.toList with
  | 'L' :: rest => (bytesOfHex (String.ofList rest)).map RlSeg.lit
  | 'R' :: rest =>
    match (String.ofList rest).splitOn "." with
    | [n, b] =>
      match n.toNat?, bytesOfHex b with
      | some n, some [b] => some (RlSeg.run n b)
      | _, _ => none
    | _ => none
  | _ => none

def parseSegs (s : String) : Option (List RlSeg) :=
  if s == "-" then some [] else (s.splitOn ",").mapM parseSeg

def optNat (s : String) : Option (Option Nat) :=
  if s == "_" then some none else s.toNat?.map some

/-- `D<pred>.<colors>.<columns>.<bpc>` (each `_` when absent) or `Z` (null). -/
def parseDict (s : String) : Option (Option Parms) :=
  if s == "Z" then some none
  else match s.toList with
    | 'D' :: rest =>
      match (String.ofList rest).splitOn "." |>.mapM optNat with
      | some [p, c, w, b] => some (some { predictor := p, colors := c, columns := w, bpc := b })
      | _ => none
    | _ => none

def parseFilterVal (s : String) : Option FilterVal :=
  if s == "-" then some .absent
  else if s.startsWith "N:" then (bytesOfHex (s.drop 2).toString).map FilterVal.name
  else if s == "L:" then some (.list [])
  else if s.startsWith "L:" then ((s.drop 2).toString.splitOn ",").mapM bytesOfHex |>.map FilterVal.list
  else none

def parseParmsVal (s : String) : Option ParmsVal :=
  if s == "-" then some .absent
  else if s == "L:" then some (.list [])
  else if s.startsWith "L:" then ((s.drop 2).toString.splitOn ",").mapM parseDict |>.map ParmsVal.list
  else match parseDict s with
    | some (some d) => some (.dict d)
    | some none => some (.list [])   -- never sent: a lone null behaves like an absent entry
    | none => none

def parsePair (s : String) : Option (Bytes × Bytes) :=
  match s.splitOn "=" with
  | [a, b] =>
    match bytesOfHex a, bytesOfHex b with
    | some a, some b => some (a, b)
    | _, _ => none
  | _ => none

def parseInflate (s : String) : Option (List (Bytes × Bytes)) :=
  if s == "-" then some [] else (s.splitOn ";").mapM parsePair

def lookupInflate (tab : List (Bytes × Bytes)) (d : Bytes) : Bytes :=
  match tab.find? (fun p => p.1 == d) with
  | some p => p.2
  | none => []

def namesLine : String :=
  let show1 (k : String) (ns : List Bytes) : String :=
    k ++ "=" ++ ",".intercalate (ns.map (fun n => String.ofList (n.map (fun b => Char.ofNat b.toNat))))
  " ".intercalate [show1 "fl" LITERALS_FLATE_DECODE, show1 "lzw" LITERALS_LZW_DECODE,
    show1 "a85" LITERALS_ASCII85_DECODE, show1 "ahx" LITERALS_ASCIIHEX_DECODE,
    show1 "rl" LITERALS_RUNLENGTH_DECODE, show1 "ccf" LITERALS_CCITTFAX_DECODE,
    show1 "dct" LITERALS_DCT_DECODE, show1 "jbig2" LITERALS_JBIG2_DECODE, show1 "jpx" LITERALS_JPX_DECODE]

def step (line : String) : String :=
  match words line with
  | ["dec", "ahx", h] => match bytesOfHex h with | some d => showRes (asciihexdecode d) | none => "bad-op"
  | ["dec", "a85", h] => match bytesOfHex h with | some d => showRes (ascii85decode d) | none => "bad-op"
  | ["dec", "rl", h] => match bytesOfHex h with | some d => showRes (rldecode d) | none => "bad-op"
  | ["dec", "lzw", h] => match bytesOfHex h with | some d => showRes (lzwdecode d) | none => "bad-op"
  | ["dec", "png", co, cl, bp, h] =>
    match co.toNat?, cl.toNat?, bp.toNat?, bytesOfHex h with
    | some co, some cl, some bp, some d => showRes (apply_png_predictor co cl bp d)
    | _, _, _, _ => "bad-op"
  | ["dec", "tiff", co, cl, bp, h] =>
    match co.toNat?, cl.toNat?, bp.toNat?, bytesOfHex h with
    | some co, some cl, some bp, some d => showRes (apply_tiff_predictor co cl bp d)
    | _, _, _, _ => "bad-op"
  | ["paeth", a, b, c] =>
    match a.toInt?, b.toInt?, c.toInt? with
    | some a, some b, some c => toString (paeth_predictor a b c)
    | _, _, _ => "bad-op"
  | ["names"] => namesLine
  | ["chain", f, p, i, h] =>
    match parseFilterVal f, parseParmsVal p, parseInflate i, bytesOfHex h with
    | some f, some p, some tab, some d => showRes (streamDecode (lookupInflate tab) f p d)
    | _, _, _, _ => "bad-op"
  | ["chainraw", f, p, i, h] =>
    match parseFilterVal f, parseParmsVal p, parseInflate i, bytesOfHex h with
    | some f, some p, some tab, some d => showRes (streamDecodeRaw (lookupInflate tab) f p d)
    | _, _, _, _ => "bad-op"
  | ["getfilters", fa, pa] =>
    -- fa / pa: "-" or `keyhex=<FilterVal spec>` / `keyhex=<ParmsVal spec>` separated by ';'
    let parseAttrs {α : Type} (s : String) (pv : String → Option α) : Option (List (Bytes × α)) :=
      if s == "-" then some []
      else (s.splitOn ";").mapM (fun e =>
        match e.splitOn "=" with
        | [k, v] => match bytesOfHex k, pv v with
          | some k, some v => some (k, v)
          | _, _ => none
        | _ => none)
    match parseAttrs fa parseFilterVal, parseAttrs pa parseParmsVal with
    | some f, some p =>
      let showN (o : Option Nat) : String := match o with | some n => toString n | none => "_"
      let showP (o : Option Parms) : String :=
        match o with
        | none => "Z"
        | some d =>
          if d.predictor.isNone && d.colors.isNone && d.columns.isNone && d.bpc.isNone then "Z"
          else "D" ++ showN d.predictor ++ "." ++ showN d.colors ++ "." ++ showN d.columns ++ "." ++ showN d.bpc
      let r := streamFilters f p
      if r.isEmpty then "[]" else ",".intercalate (r.map (fun q => hexOrDash q.1 ++ "/" ++ showP q.2))
    | _, _ => "bad-op"
  | ["lenval", objs, v] =>
    -- objs: "-" or id:i<int> / id:r<id> / id:o separated by commas; v: none | i<int> | r<id> | o
    let parseObj (s : String) : Option LenObj :=
      match s.toList with
      | 'i' :: r => (String.ofList r).toInt?.map LenObj.int
      | 'r' :: r => (String.ofList r).toNat?.map LenObj.ref
      | ['o'] => some LenObj.other
      | _ => none
    let table : Option (List (Nat × LenObj)) :=
      if objs == "-" then some []
      else (objs.splitOn ",").mapM (fun e =>
        match e.splitOn ":" with
        | [i, o] => match i.toNat?, parseObj o with
          | some i, some o => some (i, o)
          | _, _ => none
        | _ => none)
    let val : Option (Option LenObj) := if v == "none" then some none else (parseObj v).map some
    match table, val with
    | some t, some x =>
      match lengthValue t x with
      | none => "none"
      | some n => toString n
    | _, _ => "bad-op"
  | ["streamx", fb, pos, len, h] =>
    match pos.toNat?, (if len == "none" then some none else len.toInt?.map some), bytesOfHex h with
    | some pos, some len, some d =>
      match streamRead (fb == "1") d pos len with
      | .ok (data, e) => "B " ++ hexOrDash data ++ " " ++ toString e
      | .error e => "E " ++ e.name
    | _, _, _ => "bad-op"
  | ["stream", pos, len, h] =>
    match pos.toNat?, len.toNat?, bytesOfHex h with
    | some pos, some len, some d => showRes (streamPayload d pos len)
    | _, _, _ => "bad-op"
  | ["enc", "ahx", tail, cs, h] =>
    match tail.toNat?, natList cs, bytesOfHex h with
    | some tail, some cs, some x => "B " ++ hexOrDash (ahxEnc cs tail x)
    | _, _, _ => "bad-op"
  | ["enc", "a85", pre, post, cs, h] =>
    match quad pre, quad post, natList cs, bytesOfHex h with
    | some pre, some post, some cs, some x => "B " ++ hexOrDash (a85Enc cs pre post x)
    | _, _, _, _ => "bad-op"
  | ["enc", "rl", eod, segs] =>
    match eod.toNat?, parseSegs segs with
    | some eod, some segs =>
      if segs.all RlSeg.valid then "B " ++ hexOrDash (rlEnc segs (eod == 1)) ++ " " ++ hexOrDash (rlFlat segs)
      else "E domain"
    | _, _ => "bad-op"
  | ["enc", "lzw", clears, h] =>
    match natList clears, bytesOfHex h with
    | some cl, some x => "B " ++ hexOrDash (lzwEnc (fun n => cl.contains n) x)
    | _, _ => "bad-op"
  | ["enc", "png", co, cl, bp, fts, h] =>
    match co.toNat?, cl.toNat?, bp.toNat?, natList fts, bytesOfHex h with
    | some co, some cl, some bp, some fts, some x =>
      let nb := pngNbytes co cl bp
      let rows := if nb == 0 then List.replicate fts.length [] else chunks nb x.length x
      if rows.length == fts.length && rows.all (fun r => r.length == nb) && fts.all (· ≤ 4) then
        "B " ++ hexOrDash (pngEnc co cl bp fts rows)
      else "E domain"
    | _, _, _, _, _ => "bad-op"
  | ["enc", "tiff", co, cl, h] =>
    match co.toNat?, cl.toNat?, bytesOfHex h with
    | some co, some cl, some x =>
      let nb := co * cl
      let rows := chunks nb x.length x
      if nb > 0 && rows.all (fun r => r.length == nb) then "B " ++ hexOrDash (tiffEnc co rows)
      else "E domain"
    | _, _, _ => "bad-op"
  | _ => "bad-op"

partial def loop (h : IO.FS.Stream) (out : IO.FS.Stream) : IO Unit := do
  let line ← h.getLine
  if line.isEmpty then return ()
  out.putStrLn (step (line.trimAscii.toString))
  loop h out

def main : IO Unit := do
  loop (← IO.getStdin) (← IO.getStdout)
