/- Line-protocol driver for C01 (object syntax): spec reader, lexer + stack-parser model. -/
import PdfVerif.Model.StackParser
import PdfVerif.Model.ObjParser
import PdfVerif.Spec.Syntax

open PdfVerif PdfVerif.Lexer

def answer (line : String) : String :=
  match words line with
  | ["spec.spell", h] =>
    match bytesOfHex h with
    | some data =>
      match Syntax.spellcheck data with
      | some o => o.show
      | none => "outside-domain"
    | none => "bad-op"
  | ["spec.seq", h] =>
    match bytesOfHex h with
    | some data =>
      match Syntax.spellSeq data with
      | some [] => "<nothing>"
      | some os => " | ".intercalate (os.map Syntax.Obj.show)
      | none => "outside-domain"
    | none => "bad-op"
  | ["model.obj", b, h] =>
    match b.toNat?, bytesOfHex h with
    | some b, some data =>
      match run b data with
      | some ts => StackParser.showState (StackParser.objects ts)
      | none => "fuel-exhausted"
    | _, _ => "bad-op"
  | ["model.getobj", b, objid, h] =>
    match b.toNat?, objid.toInt?, bytesOfHex h with
    | some b, some objid, some data =>
      (ObjParser.getobjBytes b objid data).show
    | _, _, _ => "bad-op"
  | ["model.getobjS", b, objid, h] =>
    match b.toNat?, objid.toInt?, bytesOfHex h with
    | some b, some objid, some data =>
      (ObjParser.getobjS b objid data).show
    | _, _, _ => "bad-op"
  | ["model.lex", b, h] =>
    match b.toNat?, bytesOfHex h with
    | some b, some data =>
      match run b data with
      | some ts => showLine ts
      | none => "fuel-exhausted"
    | _, _ => "bad-op"
  | _ => "bad-op"

partial def loop (h : IO.FS.Stream) (out : IO.FS.Stream) : IO Unit := do
  let line ← h.getLine
  if line.isEmpty then return ()
  out.putStrLn (answer line.trimAscii.toString)
  loop h out

def main : IO Unit := do
  loop (← IO.getStdin) (← IO.getStdout)
