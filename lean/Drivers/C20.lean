/- Line-protocol driver for C20 (matrix helpers, drange, Plane). -/
import PdfVerif.Model.Plane

open PdfVerif PdfVerif.Gen.Utils PdfVerif.Plane

def rats (ws : List String) : Option (List Rat) := ws.mapM ratOfString

def showRats (rs : List Rat) : String := " ".intercalate (rs.map ratToString)

def showIds (os : List PObj) : String :=
  if os.isEmpty then "-" else " ".intercalate (os.map (fun o => toString o.id))

def showInts (xs : List Int) : String :=
  if xs.isEmpty then "-" else " ".intercalate (xs.map toString)

def pairs : List Rat → Option (List Point)
  | [] => some []
  | x :: y :: rest => (pairs rest).map (fun t => (x, y) :: t)
  | _ => none

def pobjs : List String → Option (List PObj)
  | [] => some []
  | id :: x0 :: y0 :: x1 :: y1 :: rest =>
    match id.toNat?, rats [x0, y0, x1, y1], pobjs rest with
    | some id, some [x0, y0, x1, y1], some t => some (⟨id, x0, y0, x1, y1⟩ :: t)
    | _, _, _ => none
  | _ => none

def step (st : Option Plane.Plane) (line : String) : Option Plane.Plane × String :=
  match words line with
  | "mult" :: rest =>
    match rats rest with
    | some [a1,b1,c1,d1,e1,f1,a0,b0,c0,d0,e0,f0] =>
      let (a,b,c,d,e,f) := mult_matrix (a1,b1,c1,d1,e1,f1) (a0,b0,c0,d0,e0,f0)
      (st, showRats [a,b,c,d,e,f])
    | _ => (st, "bad-op")
  | "translate" :: rest =>
    match rats rest with
    | some [a,b,c,d,e,f,x,y] =>
      let (a,b,c,d,e,f) := translate_matrix (a,b,c,d,e,f) (x,y)
      (st, showRats [a,b,c,d,e,f])
    | _ => (st, "bad-op")
  | "applypt" :: rest =>
    match rats rest with
    | some [a,b,c,d,e,f,x,y] =>
      let (x,y) := apply_matrix_pt (a,b,c,d,e,f) (x,y)
      (st, showRats [x,y])
    | _ => (st, "bad-op")
  | "applynorm" :: rest =>
    match rats rest with
    | some [a,b,c,d,e,f,x,y] =>
      let (x,y) := apply_matrix_norm (a,b,c,d,e,f) (x,y)
      (st, showRats [x,y])
    | _ => (st, "bad-op")
  | "applyrect" :: rest =>
    match rats rest with
    | some [a,b,c,d,e,f,x0,y0,x1,y1] =>
      let (x0,y0,x1,y1) := apply_matrix_rect (a,b,c,d,e,f) (x0,y0,x1,y1)
      (st, showRats [x0,y0,x1,y1])
    | _ => (st, "bad-op")
  | ["drange", v0, v1, d] =>
    match ratOfString v0, ratOfString v1, d.toInt? with
    | some v0, some v1, some d =>
      if d ≤ 0 then (st, "bad-op") else
      let r := drange v0 v1 d
      (st, if r.isEmpty then "-" else " ".intercalate (r.map toString))
    | _, _, _ => (st, "bad-op")
  | "getbound" :: rest =>
    match (rats rest).bind pairs with
    | some pts =>
      let (x0, y0, x1, y1) := get_bound pts
      (st, showRats [x0, y0, x1, y1])
    | none => (st, "bad-op")
  | "uniq" :: rest =>
    match rest.mapM String.toInt? with
    | some xs => (st, showInts (uniq xs))
    | none => (st, "bad-op")
  | "fsplit" :: "lt" :: t :: rest =>
    match t.toInt?, rest.mapM String.toInt? with
    | some t, some xs =>
      let (a, b) := fsplit (fun x => decide (x < t)) xs
      (st, showInts a ++ " | " ++ showInts b)
    | _, _ => (st, "bad-op")
  | "fsplit" :: "mod" :: m :: r :: rest =>
    match m.toInt?, r.toInt?, rest.mapM String.toInt? with
    | some m, some r, some xs =>
      let (a, b) := fsplit (fun x => decide (pyMod x m = r)) xs
      (st, showInts a ++ " | " ++ showInts b)
    | _, _, _ => (st, "bad-op")
  | "plane.extend" :: rest =>
    match st, pobjs rest with
    | some p, some os => (some (Plane.extend p os), "ok")
    | _, _ => (st, "bad-op")
  | ["plane.contains", id, x0, y0, x1, y1] =>
    match st, id.toNat?, rats [x0,y0,x1,y1] with
    | some p, some id, some [x0,y0,x1,y1] =>
      (st, if Plane.contains p ⟨id,x0,y0,x1,y1⟩ then "true" else "false")
    | _, _, _ => (st, "bad-op")
  | ["plane.len"] =>
    match st with
    | some p => (st, toString (Plane.len p))
    | none => (st, "bad-op")
  | ["plane.new", x0, y0, x1, y1, gs] =>
    match rats [x0,y0,x1,y1], gs.toInt? with
    | some [x0,y0,x1,y1], some gs =>
      if gs ≤ 0 then (st, "bad-op") else (some (Plane.init (x0,y0,x1,y1) gs), "ok")
    | _, _ => (st, "bad-op")
  | ["plane.add", id, x0, y0, x1, y1] =>
    match st, id.toNat?, rats [x0,y0,x1,y1] with
    | some p, some id, some [x0,y0,x1,y1] => (some (Plane.addPy p ⟨id,x0,y0,x1,y1⟩), "ok")
    | _, _, _ => (st, "bad-op")
  | ["plane.remove", id, x0, y0, x1, y1] =>
    match st, id.toNat?, rats [x0,y0,x1,y1] with
    | some p, some id, some [x0,y0,x1,y1] =>
      let (p', ok) := Plane.remove p ⟨id,x0,y0,x1,y1⟩
      (some p', if ok then "ok" else "keyerror")
    | _, _, _ => (st, "bad-op")
  | ["plane.find", x0, y0, x1, y1] =>
    match st, rats [x0,y0,x1,y1] with
    | some p, some [x0,y0,x1,y1] => (st, showIds (Plane.find p (x0,y0,x1,y1)))
    | _, _ => (st, "bad-op")
  | ["plane.findspec", x0, y0, x1, y1] =>
    match st, rats [x0,y0,x1,y1] with
    | some p, some [x0,y0,x1,y1] => (st, showIds (Plane.findSpec p (x0,y0,x1,y1)))
    | _, _ => (st, "bad-op")
  | ["plane.iter"] =>
    match st with
    | some p => (st, showIds (Plane.iter p))
    | none => (st, "bad-op")
  | _ => (st, "bad-op")

partial def loop (h : IO.FS.Stream) (out : IO.FS.Stream) (st : Option Plane.Plane) : IO Unit := do
  let line ← h.getLine
  if line.isEmpty then return ()
  let (st', r) := step st (line.trimAscii.toString)
  out.putStrLn r
  loop h out st'

def main : IO Unit := do
  loop (← IO.getStdin) (← IO.getStdout) none
