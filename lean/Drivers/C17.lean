/- Line-protocol driver for C17 (page labels, numerals, outlines, named destinations, text strings).
   Requests carry trees as s-expressions; see tools/harness/props/c17.py (sx_*). -/
import PdfVerif.Spec.Labels
import PdfVerif.Spec.Outline
import PdfVerif.Spec.NameTree
import PdfVerif.Model.OutlineGraph
import PdfVerif.Model.LabelsGen

open PdfVerif

inductive SExp where
  | atom (s : String)
  | list (xs : List SExp)

def tokenize (s : String) : List String :=
  words ((s.replace "(" " ( ").replace ")" " ) ")

mutual
partial def parseOne : List String → Option (SExp × List String)
  | [] => none
  | "(" :: rest => parseMany rest []
  | ")" :: _ => none
  | a :: rest => some (.atom a, rest)
partial def parseMany : List String → List SExp → Option (SExp × List String)
  | [], _ => none
  | ")" :: rest, acc => some (.list acc.reverse, rest)
  | toks, acc =>
    match parseOne toks with
    | some (e, rest) => parseMany rest (e :: acc)
    | none => none
end

/-- Parse a whole token list into a sequence of s-expressions. -/
partial def parseAll (toks : List String) (acc : List SExp := []) : Option (List SExp) :=
  match toks with
  | [] => some acc.reverse
  | _ => match parseOne toks with
    | some (e, rest) => parseAll rest (e :: acc)
    | none => none

def hexBytes (s : String) : Option Bytes := if s.isEmpty then some [] else bytesOfHexChars s.toList

/-- `-` | `s:<hex>` | `n:<hex>` -/
def optBytes (pfx : String) : SExp → Option (Option Bytes)
  | .atom "-" => some none
  | .atom a => if a.startsWith pfx then (hexBytes (a.drop pfx.length).toString).map some else none
  | _ => none

def optInt : SExp → Option (Option Int)
  | .atom "-" => some none
  | .atom a => a.toInt?.map some
  | _ => none

def optNat : SExp → Option (Option Nat)
  | .atom "-" => some none
  | .atom a => a.toNat?.map some
  | _ => none

def keyOf : SExp → Option NameTree.Key
  | .atom a => if a.startsWith "s:" then (hexBytes (a.drop 2).toString).map (·.map UInt8.toNat) else none
  | _ => none

-- ---------------------------------------------------------------- labels

def labelDict : SExp → Option Labels.LabelDict
  | .list [.atom "L", s, p, st] => do
    let s ← optBytes "n:" s
    let p ← optBytes "s:" p
    let st ← optInt st
    pure { style := s, pfx := p, st := st }
  | _ => none

def numEntry : SExp → Option (Int × Labels.LabelDict)
  | .list [.atom k, ld] => do
    let k ← k.toInt?
    let d ← labelDict ld
    pure (k, d)
  | _ => none

partial def numTree : SExp → Option (Labels.NumTree Labels.LabelDict)
  | .list [.atom "T", nums, kids] => do
    let ns ← match nums with
      | .atom "-" => some []
      | .list (.atom "N" :: es) => es.mapM numEntry
      | _ => none
    let ks ← match kids with
      | .atom "-" => some []
      | .list (.atom "K" :: cs) => cs.mapM numTree
      | _ => none
    pure (.node ns ks)
  | _ => none

def showText (t : Labels.Text) : String :=
  if t.isEmpty then "-" else ".".intercalate (t.map (fun c => String.ofList (Nat.toDigits 16 c)))

def showErr : Labels.Err → String
  | .assertion => "E:AssertionError"
  | .index => "E:IndexError"
  | .syntax => "E:PDFSyntaxError"
  | .fuel => "E:fuel"

/-- Items up to and including the first error (the generator dies there). -/
def showLabels : List (Except Labels.Err Labels.Text) → List String
  | [] => []
  | .ok t :: rest => showText t :: showLabels rest
  | .error e :: _ => [showErr e]

def showExcept : Except Labels.Err Labels.Text → String
  | .ok t => showText t
  | .error e => showErr e

def showOptText : Option Labels.Text → String
  | some t => showText t
  | none => "outside-domain"

-- ---------------------------------------------------------------- outlines

def info : SExp → SExp → SExp → SExp → Option Outline.Info
  | t, d, a, se => do
    let t ← optBytes "s:" t
    let d ← optNat d
    let a ← optNat a
    let se ← optNat se
    pure { title := t, dest := d, a := a, se := se }

partial def entry : SExp → Option Outline.Entry
  | .atom "-" => some .nil
  | .list [.atom "E", t, d, a, se, first, last, next] => do
    let i ← info t d a se
    let f ← entry first
    let l ← match last with | .atom "+" => some true | .atom "-" => some false | _ => none
    let n ← entry next
    pure (.mk i f l n)
  | _ => none

mutual
partial def otree : SExp → Option Spec.Outline.OTree
  | .list [.atom "I", t, d, a, se, f] => do
    let i ← info t d a se
    let ch ← oforest f
    pure (.mk i ch)
  | _ => none
partial def oforest : SExp → Option (List Spec.Outline.OTree)
  | .list (.atom "F" :: ts) => ts.mapM otree
  | _ => none
end

/-- `(id title dest a se first last next)` -/
def gnode : SExp → Option (Nat × OutlineGraph.GNode)
  | .list [.atom id, t, d, a, se, first, last, next] => do
    let id ← id.toNat?
    let i ← info t d a se
    let f ← optNat first
    let l ← match last with | .atom "+" => some true | .atom "-" => some false | _ => none
    let n ← optNat next
    pure (id, { info := i, first := f, hasLast := l, next := n })
  | _ => none

def gstore : SExp → Option OutlineGraph.Store
  | .list (.atom "G" :: ns) => ns.mapM gnode
  | _ => none

def showOptNat : Option Nat → String
  | some n => toString n
  | none => "-"

def showItem (i : Outline.Item) : String :=
  s!"{i.level}:{showText i.title}:{showOptNat i.dest}:{showOptNat i.a}:{showOptNat i.se}"

def showItems (l : List Outline.Item) : String :=
  if l.isEmpty then "-" else "|".intercalate (l.map showItem)

-- ---------------------------------------------------------------- name trees

def nameEntry : SExp → Option (NameTree.Key × Int)
  | .list [k, .atom v] => do
    let k ← keyOf k
    let v ← v.toInt?
    pure (k, v)
  | _ => none

partial def nameTree : SExp → Option NameTree.Node
  | .list [.atom "T", lim, names, kids] => do
    let l ← match lim with
      | .atom "-" => some none
      | .list [lo, hi] => do
        let lo ← keyOf lo
        let hi ← keyOf hi
        pure (some (lo, hi))
      | _ => none
    let ns ← match names with
      | .atom "-" => some none
      | .list (.atom "N" :: es) => (es.mapM nameEntry).map some
      | _ => none
    let ks ← match kids with
      | .atom "-" => some []
      | .list (.atom "K" :: cs) => cs.mapM nameTree
      | _ => none
    pure (.node l ns ks)
  | _ => none

def optTree : SExp → Option (Option NameTree.Node)
  | .atom "-" => some none
  | e => (nameTree e).map some

def dictEntry : SExp → Option (NameTree.Key × Int)
  | .list [.atom k, .atom v] => do
    let k ← if k.startsWith "u:" then (hexBytes (k.drop 2).toString).map (·.map UInt8.toNat) else none
    let v ← v.toInt?
    pure (k, v)
  | _ => none

def optDict : SExp → Option (Option (List (NameTree.Key × Int)))
  | .atom "-" => some none
  | .list (.atom "D" :: es) => (es.mapM dictEntry).map some
  | _ => none

/-- `b:<hex>` | `u:<hex of utf-8>`; `-` after the colon = empty -/
def qkey (s : String) : Option NameTree.QKey :=
  let body := (s.drop 2).toString
  let bs := if body == "-" then some [] else hexBytes body
  if s.startsWith "b:" then bs.map (fun b => .bytes (b.map UInt8.toNat))
  else if s.startsWith "u:" then bs.map (fun b => .name (b.map UInt8.toNat))
  else none

def showDest : NameTree.DestRes → String
  | .value v => s!"V:{v}"
  | .notFound => "E:notfound"

-- ---------------------------------------------------------------- dispatch

def handle (line : String) : String :=
  match tokenize line with
  | ["roman", n] =>
    match n.toInt? with
    | some n => showExcept (Labels.formatIntRoman n)
    | none => "bad-op"
  | ["gen.roman", n] =>
    match n.toInt? with
    | some n => showExcept (LabelsGen.genFormatIntRoman n)
    | none => "bad-op"
  | ["gen.alpha", n] =>
    match n.toInt? with
    | some n => showExcept (LabelsGen.genFormatIntAlpha n)
    | none => "bad-op"
  | ["gen.label", st, n] =>
    match n.toInt? with
    | some n =>
      let style : Option Bytes := if st == "-" then none else some st.toUTF8.toList
      showExcept (LabelsGen.genFormatPageLabel n style)
    | none => "bad-op"
  | ["spec.roman", n] =>
    match n.toNat? with
    | some n => showOptText (Spec.Labels.roman n)
    | none => "bad-op"
  | ["alpha", n] =>
    match n.toInt? with
    | some n => showExcept (Labels.formatIntAlpha n)
    | none => "bad-op"
  | ["spec.alpha", n] =>
    match n.toNat? with
    | some n => showOptText (Spec.Labels.alpha n)
    | none => "bad-op"
  | ["text", hex] =>
    match bytesOfHex hex with
    | some b => showText (Labels.decodeText b)
    | none => "bad-op"
  | ["spec.text", hex] =>
    match bytesOfHex hex with
    | some b => showOptText (Spec.Labels.text b)
    | none => "bad-op"
  | "labels" :: n :: rest =>
    match n.toNat?, parseAll rest with
    | some n, some [t] =>
      match numTree t with
      | some t => "|".intercalate (showLabels (Labels.labels t n))
      | none => "bad-op"
    | _, _ => "bad-op"
  | "labels.strict" :: n :: rest =>
    match n.toNat?, parseAll rest with
    | some n, some [t] =>
      match numTree t with
      | some t =>
        match Labels.labelsStrict t n with
        | .ok ls => "|".intercalate (showLabels ls)
        | .error e => showErr e
      | none => "bad-op"
    | _, _ => "bad-op"
  | "spec.labels" :: n :: rest =>
    match n.toNat?, parseAll rest with
    | some n, some [t] =>
      match numTree t with
      | some t =>
        match Spec.Labels.labels t n with
        | some ls => "|".intercalate (ls.map showText)
        | none => "outside-domain"
      | none => "bad-op"
    | _, _ => "bad-op"
  | "outline" :: rest =>
    match parseAll rest with
    | some [e] =>
      match entry e with
      | some e => showItems (Outline.getOutlines e)
      | none => "bad-op"
    | _ => "bad-op"
  | "outline.graph" :: root :: rest =>
    match root.toNat?, parseAll rest with
    | some r, some [g] =>
      match gstore g with
      | some g =>
        match OutlineGraph.getOutlinesG g r with
        | some l => showItems l
        | none => "E:fuel"
      | none => "bad-op"
    | _, _ => "bad-op"
  | "outline.enc" :: rest =>
    match parseAll rest with
    | some [f] =>
      match oforest f with
      | some f => showItems (Outline.getOutlines (Spec.Outline.encRoot f))
      | none => "bad-op"
    | _ => "bad-op"
  | "spec.outline" :: rest =>
    match parseAll rest with
    | some [f] =>
      match oforest f with
      | some f =>
        match Spec.Outline.outline f with
        | some l => showItems l
        | none => "outside-domain"
      | none => "bad-op"
    | _ => "bad-op"
  | "dest" :: key :: rest =>
    match qkey key, parseAll rest with
    | some k, some [t, d] =>
      match optTree t, optDict d with
      | some t, some d => showDest (NameTree.getDest t d k)
      | _, _ => "bad-op"
    | _, _ => "bad-op"
  | "spec.dest" :: key :: rest =>
    match qkey key, parseAll rest with
    | some k, some [t, d] =>
      match optTree t, optDict d with
      | some t, some d =>
        if Spec.NameTree.domain t d then showDest (Spec.NameTree.dest t d k) else "outside-domain"
      | _, _ => "bad-op"
    | _, _ => "bad-op"
  | _ => "bad-op"

partial def loop (h : IO.FS.Stream) (out : IO.FS.Stream) : IO Unit := do
  let line ← h.getLine
  if line.isEmpty then return ()
  out.putStrLn (handle line.trimAscii.toString)
  loop h out

def main : IO Unit := do
  loop (← IO.getStdin) (← IO.getStdout)
