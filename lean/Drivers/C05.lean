/- Line-protocol driver for C05 (content-stream interpreter model and ISO text-model spec).

One request per line:
  c05 <model|spec> a b c d e f | font <namehex> <first> <missing> <descent> <kind> <w…|-> | …
      kind = s | cidh | t3:a,b,c,d,e,f | cidv:<dvy>:<vx,vy;…|->
      | form <a b c d e f|nomatrix> ; <res> ; <tokens> | … | page <res> | stream <tokens|-> | stream … | bstream <hex|-> …   (mode modelb reads the bstreams)
  res    = inherit  |  res <hex=idx,…|-> <hex=idx,…|-> <hex=famhex:n,…|->     (fonts, xobjects, colour spaces)
  several `page` sections = several pages, each followed by its streams
  tokens = n<rat> s<hex|-> /<hex> [ … ] z b0 b1 o<hex>
Reply: glyphs joined by `;`, each `a b c d e f adv x0 y0 x1 y1 size <fonthex> <colour|-> u0|u1`, `-` for none;
`OUT` when the spec gives the program no meaning; `ERR …` for malformed requests / exhausted nesting budget.
-/
import PdfVerif.Model.Interp
import PdfVerif.Spec.TextModel
import PdfVerif.Model.ContentLex

open PdfVerif PdfVerif.Content

def strOfHex (h : String) : Option String :=
  (bytesOfHex h).map (fun bs => String.ofList (bs.map (fun b => Char.ofNat b.toNat)))

def hexOfStr (s : String) : String :=
  if s.isEmpty then "-" else String.join (s.toList.map (fun c => hexOfByte (UInt8.ofNat c.toNat)))

/-- Parse token words. Returns the tokens or none. -/
partial def parseToks (ws : List String) (acc : Array Tok) : Option (Array Tok) :=
  match ws with
  | [] => some acc
  | w :: rest =>
    if w == "-" then parseToks rest acc
    else if w == "[" then
      let rec elems (ws : List String) (es : Array Elem) : Option (Array Elem × List String) :=
        match ws with
        | [] => none
        | "]" :: rest => some (es, rest)
        | w :: rest =>
          if w.startsWith "n" then
            match ratOfString (w.drop 1).toString with
            | some q => elems rest (es.push (.num q))
            | none => none
          else if w.startsWith "s" then
            match bytesOfHex (w.drop 1).toString with
            | some bs => elems rest (es.push (.str (bs.map (·.toNat))))
            | none => none
          else elems rest (es.push .other)
      match elems rest #[] with
      | some (es, rest') => parseToks rest' (acc.push (.opnd (.arr es.toList)))
      | none => none
    else if w.startsWith "n" then
      match ratOfString (w.drop 1).toString with
      | some q => parseToks rest (acc.push (.opnd (.num q)))
      | none => none
    else if w.startsWith "s" then
      match bytesOfHex (w.drop 1).toString with
      | some bs => parseToks rest (acc.push (.opnd (.str (bs.map (·.toNat)))))
      | none => none
    else if w.startsWith "/" then
      match strOfHex (w.drop 1).toString with
      | some s => parseToks rest (acc.push (.opnd (.name s)))
      | none => none
    else if w == "z" then parseToks rest (acc.push (.opnd .null))
    else if w == "b0" then parseToks rest (acc.push (.opnd (.bool false)))
    else if w == "b1" then parseToks rest (acc.push (.opnd (.bool true)))
    else if w.startsWith "o" then
      match strOfHex (w.drop 1).toString with
      | some s => parseToks rest (acc.push (.op (Op.ofKeyword s)))
      | none => none
    else none

def parseMap (w : String) : Option (List (String × Nat)) :=
  if w == "-" then some [] else
  (w.splitOn ",").mapM (fun kv =>
    match kv.splitOn "=" with
    | [k, v] =>
      match strOfHex k, v.toNat? with
      | some k, some v => some (k, v)
      | _, _ => none
    | _ => none)

def parseCSMap (w : String) : Option (List (String × (String × Nat))) :=
  if w == "-" then some [] else
  (w.splitOn ",").mapM (fun kv =>
    match kv.splitOn "=" with
    | [k, v] =>
      match strOfHex k, v.splitOn ":" with
      | some k, [fam, n] =>
        match strOfHex fam, n.toNat? with
        | some fam, some n => some (k, (fam, n))
        | _, _ => none
      | _, _ => none
    | _ => none)

def parseRes (ws : List String) : Option (Option Res) :=
  match ws with
  | ["inherit"] => some none
  | ["res", f, x, c] =>
    match parseMap f, parseMap x, parseCSMap c with
    | some f, some x, some c => some (some ⟨f, x, c, []⟩)
    | _, _, _ => none
  | _ => none

def parseMatrix (ws : List String) : Option Matrix :=
  match ws.mapM ratOfString with
  | some [a, b, c, d, e, f] => some (a, b, c, d, e, f)
  | _ => none

structure Req where
  mode : String := ""
  ctm : Matrix := (1, 0, 0, 1, 0, 0)
  fonts : Array Font := #[]
  forms : Array Form := #[]
  res : Res := ⟨[], [], [], []⟩
  streams : Array (List Tok) := #[]
  bstreams : Array Bytes := #[]
  pages : Array (Res × List (List Tok) × List Bytes) := #[]   -- finished pages
  started : Bool := false

def parseSection (r : Req) (sec : String) : Option Req :=
  match words sec with
  | "c05" :: mode :: rest =>
    match parseMatrix rest with
    | some m => some { r with mode := mode, ctm := m }
    | none => none
  | "font" :: nm :: first :: mw :: desc :: kind :: ws =>
    match strOfHex nm, first.toNat?, ratOfString mw, ratOfString desc with
    | some nm, some first, some mw, some desc =>
      let ws := ws.filter (· != "-")
      match ws.mapM ratOfString with
      | some widths =>
        let base : Font := ⟨nm, first, widths, mw, desc, none, false, false, [], 880⟩
        if kind == "s" then some { r with fonts := r.fonts.push base }
        else if kind == "cidh" then some { r with fonts := r.fonts.push { base with multibyte := true } }
        else if kind.startsWith "t3:" then
          match parseMatrix ((kind.drop 3).toString.splitOn ",") with
          | some m =>
            some { r with fonts := r.fonts.push { base with fm := some m } }
          | none => none
        else if kind.startsWith "cidv:" then
          match (kind.drop 5).toString.splitOn ":" with
          | [dvy, ds] =>
            let pairs := if ds == "-" then some [] else (ds.splitOn ";").mapM (fun p =>
              match (p.splitOn ",").mapM ratOfString with
              | some [vx, vy] => some (vx, vy)
              | _ => none)
            match ratOfString dvy, pairs with
            | some dvy, some pairs =>
              some { r with fonts := r.fonts.push { base with multibyte := true, vertical := true, disps := pairs, dvy := dvy } }
            | _, _ => none
          | _ => none
        else none
      | none => none
    | _, _, _, _ => none
  | "form" :: rest =>
    match (" ".intercalate rest).splitOn " ; " with
    | [m, res, toks] =>
      let mw := words m
      let matrix : Option (Option Matrix) := if mw == ["nomatrix"] then some none else (parseMatrix mw).map some
      match matrix, parseRes (words res), parseToks (words toks) #[] with
      | some matrix, some res, some toks => some { r with forms := r.forms.push ⟨matrix, res, toks.toList⟩ }
      | _, _, _ => none
    | [m, res] =>
      let mw := words m
      let matrix : Option (Option Matrix) := if mw == ["nomatrix"] then some none else (parseMatrix mw).map some
      match matrix, parseRes (words res) with
      | some matrix, some res => some { r with forms := r.forms.push ⟨matrix, res, []⟩ }
      | _, _ => none
    | _ => none
  | "page" :: rest =>
    match parseRes rest with
    | some (some res) =>
      let r := if r.started then { r with pages := r.pages.push (r.res, r.streams.toList, r.bstreams.toList) } else r
      some { r with res := res, streams := #[], bstreams := #[], started := true }
    | _ => none
  | ["bstream", h] =>
    match bytesOfHex h with
    | some bs => some { r with bstreams := r.bstreams.push bs }
    | none => none
  | "stream" :: rest =>
    match parseToks rest #[] with
    | some toks => some { r with streams := r.streams.push toks.toList }
    | none => none
  | _ => none

def showGlyph (g : Glyph) : String :=
  let (a, b, c, d, e, f) := g.m
  let (x0, y0, x1, y1) := g.bbox
  let col := match g.col with
    | none => "-"
    | some c => if c.isEmpty then "empty" else ",".intercalate (c.map ratToString)
  " ".intercalate ([a, b, c, d, e, f, g.adv, x0, y0, x1, y1, g.size].map ratToString ++
    [hexOfStr g.font, col, if g.upright then "u1" else "u0"])

def showGlyphs (gs : List Glyph) : String :=
  if gs.isEmpty then "-" else ";".intercalate (gs.map showGlyph)

def FUEL : Nat := 12

def handle (line : String) : String :=
  match (line.splitOn " | ").foldlM parseSection ({} : Req) with
  | none => "ERR parse"
  | some r =>
    let env : Env := ⟨r.fonts.toList, r.forms.toList⟩
    let pages := (r.pages.push (r.res, r.streams.toList, r.bstreams.toList)).toList
    -- every page of the document is interpreted on its own (fresh state, its own resources)
    if r.mode == "model" then
      let outs := pages.map (fun (res, streams, _) => Interp.runPage env FUEL r.ctm res streams)
      if outs.all (fun o => o.1.fuelOk) then showGlyphs (outs.map (·.2)).flatten else "ERR fuel"
    else if r.mode == "modelb" then
      -- byte level: lexer model (C14) over the streams, assembler, interpreter model
      let outs := pages.map (fun (res, _, bstreams) =>
        (ContentLex.contentToks bstreams).map (fun toks => Interp.runPage env FUEL r.ctm res [toks]))
      match outs.mapM id with
      | none => "ERR outside the byte-level view"
      | some outs => if outs.all (fun o => o.1.fuelOk) then showGlyphs (outs.map (·.2)).flatten else "ERR fuel"
    else if r.mode == "spec" then
      let outs := pages.map (fun (res, streams, _) =>
        -- operands left over after the last operator of a page affect nothing
        TextModel.runPage env FUEL r.ctm res (parseInstrs streams.flatten []).1)
      match outs.mapM id with
      | some gls => showGlyphs gls.flatten
      | none => "OUT"
    else "ERR mode"

partial def loop (h : IO.FS.Stream) (out : IO.FS.Stream) : IO Unit := do
  let line ← h.getLine
  if line.isEmpty then return ()
  out.putStrLn (handle line.trimAscii.toString)
  loop h out

def main : IO Unit := do
  loop (← IO.getStdin) (← IO.getStdout)
