/- Line-protocol driver for C16 (path operators, paint_path, shapes).

   model <rotate> <x0> <y0> <x1> <y1> <csdefs|-> tok tok ...   -> canonical shapes of the model | EXC:<kind>
   spec  <rotate> <x0> <y0> <x1> <y1> <csdefs|-> tok tok ...   -> canonical shapes demanded    | outside-domain

   tok: p/q number, /Name, [a,b,c] array of numbers, !op operator.  csdefs: NAME=kind:value,...
-/
import PdfVerif.Model.Paths
import PdfVerif.Spec.Paths

open PdfVerif PdfVerif.Paths PdfVerif.PathSpec

def showPt (p : Point) : String := ratToString p.1 ++ "," ++ ratToString p.2

def showSeg : PSeg → String
  | .m p => "m:" ++ showPt p
  | .l p => "l:" ++ showPt p
  | .c a b d => "c:" ++ showPt a ++ "," ++ showPt b ++ "," ++ showPt d
  | .v a b => "v:" ++ showPt a ++ "," ++ showPt b
  | .y a b => "y:" ++ showPt a ++ "," ++ showPt b
  | .h => "h"

def showRatsC (xs : List Rat) : String := ",".intercalate (xs.map ratToString)

def showColour : Option Colour → String
  | none => "-"
  | some (.comps xs) => showRatsC xs
  | some (.pattern n xs) => "P:/" ++ n ++ (if xs.isEmpty then "" else ":" ++ showRatsC xs)

def showOperand : Operand → String
  | .num r => ratToString r
  | .name s => "/" ++ s
  | .arr xs => "[" ++ showRatsC xs ++ "]"

def showDash : Option (Operand × Operand) → String
  | none => "-"
  | some (a, b) => showOperand a ++ showOperand b

def showBool (b : Bool) : String := if b then "1" else "0"

def showShape (s : Shape) : String :=
  let k := match s.kind with | .line => "L" | .rect => "R" | .curve => "C"
  let bbox := match s.bbox with
    | none => "-"
    | some (x0, y0, x1, y1) => showRatsC [x0, y0, x1, y1]
  k ++ " pts=" ++ ";".intercalate (s.pts.map showPt) ++ " path=" ++ "|".intercalate (s.path.map showSeg) ++
    " bbox=" ++ bbox ++ " lw=" ++ ratToString s.linewidth ++ " s=" ++ showBool s.stroke ++
    " f=" ++ showBool s.fill ++ " e=" ++ showBool s.evenodd ++ " sc=" ++ showColour s.scolor ++
    " nc=" ++ showColour s.ncolor ++ " d=" ++ showDash s.dash

def showPage (ss : List Shape) : String :=
  if ss.isEmpty then "-" else " # ".intercalate (ss.map showShape)

def parseTok (w : String) : Option Tok :=
  if w.startsWith "!" then some (.op (OpK.ofName (w.drop 1).toString))
  else if w.startsWith "/" then some (.operand (.name (w.drop 1).toString))
  else if w.startsWith "[" then
    let inner := ((w.drop 1).dropEnd 1).toString
    if inner.isEmpty then some (.operand (.arr []))
    else ((inner.splitOn ",").mapM ratOfString).map (fun xs => .operand (.arr xs))
  else (ratOfString w).map (fun r => .operand (.num r))

def parseCs (w : String) : Option (List (String × CsSpec)) :=
  if w == "-" then some [] else
  (w.splitOn ",").mapM fun e =>
    match e.splitOn "=" with
    | [name, kv] =>
      match kv.splitOn ":" with
      | ["icc", v] => v.toNat?.map (fun n => (name, CsSpec.icc n))
      | ["devn", v] => v.toNat?.map (fun n => (name, CsSpec.devn n))
      | ["arr", v] => some (name, CsSpec.named v)
      | ["name", v] => some (name, CsSpec.named v)
      | _ => none
    | _ => none

/-- `pages <rot> <x0> <y0> <x1> <y1> <cs> <tokens of page 1> | <tokens of page 2> | ...`: all pages through ONE
interpreter (`runPagesFrom`), results joined by ` || `. -/
def splitPages (ws : List String) : List (List String) :=
  ws.foldr (fun w acc => if w == "|" then [] :: acc else match acc with
    | cur :: rest => (w :: cur) :: rest
    | [] => [[w]]) [[]]

def handlePages (rot x0 y0 x1 y1 cs : String) (toks : List String) : String :=
  match rot.toInt?, [x0, y0, x1, y1].mapM ratOfString, parseCs cs, (splitPages toks).mapM (fun p => p.mapM parseTok) with
  | some rot, some [x0, y0, x1, y1], some res, some pages =>
    let ins : List PageIn := pages.map (fun t => ⟨rot, (x0, y0, x1, y1), res, t⟩)
    let outs := runPagesFrom (initState (1, 0, 0, 1, 0, 0) []) ins
    " || ".intercalate (outs.map fun r => match r with
      | .ok shapes => showPage shapes
      | .error .typeError => "EXC:TypeError"
      | .error .indexError => "EXC:IndexError")
  | _, _, _, _ => "bad-op"

def handle (line : String) : String :=
  match words line with
  | "pages" :: rot :: x0 :: y0 :: x1 :: y1 :: cs :: toks => handlePages rot x0 y0 x1 y1 cs toks
  | which :: rot :: x0 :: y0 :: x1 :: y1 :: cs :: toks =>
    match rot.toInt?, [x0, y0, x1, y1].mapM ratOfString, parseCs cs, toks.mapM parseTok with
    | some rot, some [x0, y0, x1, y1], some res, some toks =>
      if which == "model" then
        match runPage rot (x0, y0, x1, y1) res toks with
        | .ok shapes => showPage shapes
        | .error .typeError => "EXC:TypeError"
        | .error .indexError => "EXC:IndexError"
      else if which == "spec" then
        match parseProg [] toks with
        | some prog =>
          if specWf rot (x0, y0, x1, y1) res prog then showPage (specPage rot (x0, y0, x1, y1) res prog)
          else "outside-domain"
        | none => "outside-domain"
      else "bad-op"
    | _, _, _, _ => "bad-op"
  | _ => "bad-op"

partial def loop (h : IO.FS.Stream) (out : IO.FS.Stream) : IO Unit := do
  let line ← h.getLine
  if line.isEmpty then return ()
  out.putStrLn (handle line.trimAscii.toString)
  loop h out

def main : IO Unit := do
  loop (← IO.getStdin) (← IO.getStdout)
