/- Line-protocol driver for C02 (cross-reference resolution). -/
import PdfVerif.Spec.Xref
import PdfVerif.Spec.XrefWrite
import PdfVerif.Spec.XrefHist

open PdfVerif PdfVerif.Xref PdfVerif.Gen.Xref

structure St where
  data : Bytes := []
  secs : List (Nat × SecDesc) := []
  objs : List (Nat × Nat × Nat × Val) := []
  hist : History := []
  ends : List (Nat × Nat) := []
  doc : Option (List (Xref.Section × Trailer)) := none
  items : List Item := []
  wobjs : List WObj := []
  wtrs : List (Nat × Option Nat) := []

def hexNat (s : String) : Option Nat :=
  s.toList.foldl (fun acc c => match acc, hexVal c with
    | some a, some v => some (a * 16 + v)
    | _, _ => none) (some 0)

def optNat (s : String) : Option (Option Nat) :=
  if s == "-" then some none else s.toNat?.map some

def csvNat (s : String) : Option (List Nat) :=
  if s == "-" then some [] else (s.splitOn ",").mapM (·.toNat?)

def parseTok (s : String) : Option Tok :=
  match s.toList with
  | 'n' :: r => (String.ofList r).toNat?.map Tok.num
  | 'v' :: r => (hexNat (String.ofList r)).map Tok.val
  | _ => none

/-- `p<hexid>` | `o<hexid>/<N>/<tok;tok;…>` -/
def parseVal (s : String) : Option Val :=
  match s.toList with
  | 'p' :: r => (hexNat (String.ofList r)).map Val.plain
  | 'o' :: r =>
    match (String.ofList r).splitOn "/" with
    | [id, n, toks] =>
      match hexNat id, n.toNat?, (if toks == "-" then some [] else (toks.splitOn ";").mapM parseTok) with
      | some id, some n, some ts => some (Val.objstm id n ts)
      | _, _, _ => none
    | _ => none
  | _ => none

def natHex (n : Nat) : String := String.ofList (Nat.toDigits 16 n)

def showVal : Val → String
  | .int k => s!"i{k}"
  | .plain id => "p" ++ natHex id
  | .objstm id _ _ => "o" ++ natHex id

def showErr : Err → String
  | .notFound => "notfound" | .syntax => "syntax" | .eof => "eof" | .noValidXRef => "novalidxref"
  | .recursion => "recursion" | .valueErr => "valueerror" | .unmodelled => "unmodelled"

def showRes (r : Except Err Val) : String :=
  match r with
  | .ok v => "V " ++ showVal v
  | .error e => "E " ++ showErr e

def showResC (r : Except Err Val) : String :=
  match r with
  | .ok v => showVal v
  | .error e => "E:" ++ showErr e

def parseTrailer (a b c d : String) : Option Trailer :=
  match optNat a, optNat b, optNat c, optNat d with
  | some p, some x, some r, some i => some ⟨p, x, r, i⟩
  | _, _, _, _ => none

def parseDef (s : String) : Option (Nat × Val) :=
  match s.splitOn ":" with
  | [n, v] => match n.toNat?, parseVal v with
    | some n, some v => some (n, v)
    | _, _ => none
  | _ => none

def showEntry (e : Entry) : String :=
  match e.strm with
  | none => s!"{e.idx}:{e.gen}"
  | some c => s!"c{c}:{e.idx}"

def showOffs (offs : List (Int × Entry)) : String :=
  if offs.isEmpty then "-" else " ".intercalate (offs.map (fun p => s!"{p.1}={showEntry p.2}"))

def sortInts (l : List Int) : List Int := (l.toArray.qsort (· < ·)).toList

def showSection (s : Xref.Section) : String :=
  let ids := sortInts s.getObjids
  (match s with | .table _ => "T:" | .stream _ => "S:") ++
    (if ids.isEmpty then "-" else ",".intercalate (ids.map toString))

def xrefsOf (st : St) : List Xref.Section := (st.doc.getD []).map (·.1)

def openDoc (st : St) (bufsiz : Nat) : Except Err (List (Xref.Section × Trailer)) :=
  openPhys ⟨st.data, st.secs, st.objs⟩ bufsiz

def parseTEntry (s : String) : Option TEntry :=
  match s.splitOn "/" with
  | [p, g, u] =>
    match p.toNat?, g.toNat? with
    | some p, some g => if u == "n" then some ⟨p, g, true⟩ else if u == "f" then some ⟨p, g, false⟩ else none
    | _, _ => none
  | _ => none

def parseSub (s : String) : Option Sub :=
  match s.splitOn ":" with
  | [a, ws, wc, es] =>
    match a.toNat?, ws.toNat?, wc.toNat?, (if es == "-" then some [] else (es.splitOn ",").mapM parseTEntry) with
    | some a, some ws, some wc, some es => some ⟨a, ws, wc, es⟩
    | _, _, _, _ => none
  | _ => none

def parseRow (s : String) : Option Row :=
  match (s.splitOn "/").mapM (·.toNat?) with
  | some [a, b, c] => some (a, b, c)
  | _ => none

def step (st : St) (line : String) : St × String :=
  match words line with
  | ["reset"] => ({}, "ok")
  | ["data", h] =>
    match bytesOfHex h with
    | some b => ({ st with data := b }, "ok")
    | none => (st, "bad-op")
  | ["sec", pos, "t", afterKw, a, b, c, d] =>
    match pos.toNat?, afterKw.toNat?, parseTrailer a b c d with
    | some p, some k, some tr => ({ st with secs := st.secs ++ [(p, .table k tr)] }, "ok")
    | _, _, _ => (st, "bad-op")
  | ["sec", pos, "s", size, index, w, dh, a, b, c, d] =>
    match pos.toNat?, size.toNat?, csvNat w, bytesOfHex dh, parseTrailer a b c d with
    | some p, some sz, some w, some dat, some tr =>
      let idx : Option (Option (List Nat)) := if index == "-" then some none else (csvNat index).map some
      match idx with
      | some idx => ({ st with secs := st.secs ++ [(p, .stream sz idx w dat tr)] }, "ok")
      | none => (st, "bad-op")
    | _, _, _, _, _ => (st, "bad-op")
  | ["obj", pos, num, gen, v] =>
    match pos.toNat?, num.toNat?, gen.toNat?, parseVal v with
    | some p, some n, some g, some v => ({ st with objs := st.objs ++ [(p, n, g, v)] }, "ok")
    | _, _, _, _ => (st, "bad-op")
  | ["end", pos, e] =>
    match pos.toNat?, e.toNat? with
    | some p, some e => ({ st with ends := st.ends ++ [(p, e)] }, "ok")
    | _, _ => (st, "bad-op")
  | "rev" :: root :: info :: defs =>
    match root.toNat?, optNat info, defs.mapM parseDef with
    | some r, some i, some ds => ({ st with hist := st.hist ++ [⟨ds, r, i⟩] }, "ok")
    | _, _, _ => (st, "bad-op")
  | ["q.findxref", b] =>
    match b.toNat? with
    | some b =>
      if b = 0 then (st, "bad-op") else
      (st, match findXref b st.data with | .ok p => s!"P {p}" | .error e => "E " ++ showErr e)
    | none => (st, "bad-op")
  | ["q.revlines", b, limit] =>
    match b.toNat?, limit.toNat? with
    | some b, some l =>
      if b = 0 then (st, "bad-op") else
      (st, ",".intercalate (((revreadlines b st.data).take l).map hexOrDash))
    | _, _ => (st, "bad-op")
  | ["q.open", b] =>
    match b.toNat? with
    | some b =>
      if b = 0 then (st, "bad-op") else
      match openDoc st b with
      | .ok d => ({ st with doc := some d }, s!"ok {d.length}")
      | .error e => ({ st with doc := none }, "E " ++ showErr e)
    | none => (st, "bad-op")
  | ["q.sections"] =>
    match st.doc with
    | some d => (st, if d.isEmpty then "-" else " ".intercalate (d.map (fun p => showSection p.1)))
    | none => (st, "bad-op")
  | ["q.rootinfo"] =>
    match st.doc with
    | some d =>
      match rootInfo d [] with
      | some (r, infos) =>
        let xs := xrefsOf st
        (st, s!"root {showResC (getobj st.objs xs r)} info " ++
          (if infos.isEmpty then "-" else ",".intercalate (infos.map (fun i => showResC (getobj st.objs xs i)))))
      | none => (st, "E noroot")
    | none => (st, "bad-op")
  | ["q.queries", caching, ns] =>
    match st.doc, csvNat ns with
    | some _, some ns =>
      let xs := xrefsOf st
      let rs := if caching == "1" then queriesC st.objs xs ns [] else ns.map (getobj st.objs xs)
      (st, if rs.isEmpty then "-" else " ".intercalate (rs.map showResC))
    | _, _ => (st, "bad-op")
  | ["q.spec", ns] =>
    match csvNat ns with
    | some ns => (st, if ns.isEmpty then "-" else " ".intercalate (ns.map (fun n => showResC (specGetobj st.hist n))))
    | none => (st, "bad-op")
  | ["q.specrootinfo"] =>
    let sh := fun (o : Option Val) => match o with | some v => showVal v | none => "-"
    (st, s!"root {sh (specCatalog st.hist)} info {sh (specInfo st.hist)}")
  | ["q.specinuse"] =>
    (st, if st.hist.isEmpty then "-" else " ".intercalate (st.hist.map (fun r =>
      let ids := sortInts (r.inuse.map (fun (n : Nat) => (n : Int)))
      if ids.isEmpty then "-" else ",".intercalate (ids.map toString))))
  | ["q.repok", bound] =>
    match st.doc, bound.toNat? with
    | some _, some b => (st, toString (repOK st.objs b (xrefsOf st) st.hist))
    | _, _ => (st, "bad-op")
  | ["q.table", afterKw] =>
    match afterKw.toNat? with
    | some k =>
      (st, match tableLoad st.data k with
        | .ok (offs, tp) => s!"ok {tp} {showOffs offs}"
        | .error e => "E " ++ showErr e)
    | none => (st, "bad-op")
  | ["q.render", eol, ee, subs] =>
    let eol? : Option LineEol := if eol == "lf" then some .lf else if eol == "crlf" then some .crlf else if eol == "cr" then some .cr else none
    let ee? : Option EntEol := if ee == "splf" then some .spLf else if ee == "crlf" then some .crLf else if ee == "spcr" then some .spCr else none
    match eol?, ee?, (if subs == "-" then some [] else (subs.splitOn ";").mapM parseSub) with
    | some eol, some ee, some subs => (st, hexOrDash (renderTable eol ee subs))
    | _, _, _ => (st, "bad-op")
  | ["wtr", root, info] =>
    match root.toNat?, optNat info with
    | some r, some i => ({ st with wtrs := st.wtrs ++ [(r, i)] }, "ok")
    | _, _ => (st, "bad-op")
  | ["wobj", "d", sub, num, v, gap, len, gen] =>
    match sub.toNat?, num.toNat?, parseVal v, gap.toNat?, len.toNat?, gen.toNat? with
    | some sb, some n, some v, some gp, some ln, some g =>
      ({ st with wobjs := st.wobjs ++ [⟨n, v, .direct gp ln g, sb⟩] }, "ok")
    | _, _, _, _, _, _ => (st, "bad-op")
  | ["wobj", "m", sub, num, v, c, idx] =>
    match sub.toNat?, num.toNat?, parseVal v, c.toNat?, idx.toNat? with
    | some sb, some n, some v, some c, some i => ({ st with wobjs := st.wobjs ++ [⟨n, v, .member c i, sb⟩] }, "ok")
    | _, _, _, _, _ => (st, "bad-op")
  | ["q.written", start, bound] =>
    -- the Lean file writer (Spec/XrefHist) on this file's plan: side conditions of C02_written_rep,
    -- and its output against the object store, the sections pdfminer's model loaded, and the history
    match st.doc, start.toNat?, bound.toNat? with
    | some _, some s0, some b =>
      let f : WFile := ⟨s0, st.wobjs, st.wtrs⟩
      let store := f.store
      let okStore := store.length == st.objs.length &&
        store.all (fun rec => lookupNat st.objs rec.1 == some rec.2)
      let secsOld := (xrefsOf st).reverse
      let ents := f.ents
      let okSecs := secsOld.length == ents.length &&
        (secsOld.zip ents).all (fun p => secListsB b p.1 p.2)
      let h := f.history
      let okHist := h.length == st.hist.length &&
        (h.zip st.hist).all (fun p => p.1.root == p.2.root && p.1.info == p.2.info &&
          (List.range b).all (fun n => p.1.lookup n == p.2.lookup n))
      (st, s!"{f.ok} {okStore} {okSecs} {okHist}")
    | _, _, _ => (st, "bad-op")
  | ["q.chain"] =>
    -- executable hypothesis of C02_chain_checked for this file, and its conclusion against the loaded document
    match st.doc with
    | some d =>
      match findXref 4096 st.data with
      | .ok start =>
        match chainOf ⟨st.data, st.secs, st.objs⟩ (st.secs.length + 2) (some start) with
        | some (ps, l) =>
          (st, s!"{nodupNat ps} {decide (ps.length < st.secs.length + 2)} {l.length == d.length && (l.map (·.2.prev)) == (d.map (·.2.prev))}")
        | none => (st, "no-chain")
      | .error _ => (st, "no-startxref")
    | none => (st, "bad-op")
  | ["q.tablelists", k, subs] =>
    -- hypothesis of C02_table_lists for (sub-)revision k of the written file and the subsections of its table
    match k.toNat?, (if subs == "-" then some [] else (subs.splitOn ";").mapM parseSub) with
    | some k, some subs =>
      let f : WFile := ⟨0, st.wobjs, st.wtrs⟩
      (st, match f.ents[k]? with
        | some ents => toString (sameAssocB (flatSubs subs) (entsInt ents))
        | none => "no-such-revision")
    | _, _ => (st, "bad-op")
  | ["q.streamlists", k, index, rows] =>
    -- hypotheses of C02_stream_lists for (sub-)revision k of the written file and the rows of its stream
    match k.toNat?, csvNat index, (if rows == "-" then some [] else (rows.splitOn ",").mapM parseRow) with
    | some k, some ia, some rows =>
      let f : WFile := ⟨0, st.wobjs, st.wtrs⟩
      let ranges := choplist2 ia
      (st, match f.ents[k]? with
        | some ents => s!"{streamListsB ranges rows ents} {decide (sumCounts ranges ≤ rows.length)}"
        | none => "no-such-revision")
    | _, _, _ => (st, "bad-op")
  | ["q.tail", ts, eol, w, n] =>
    let eol? : Option LineEol := if eol == "lf" then some .lf else if eol == "crlf" then some .crlf else if eol == "cr" then some .cr else none
    let ts? : Option TailStyle := if ts == "normal" then some .plain else if ts == "noeol" then some .noeol
      else if ts == "blank" then some .blank else if ts == "spaces" then some .spaces else none
    match ts?, eol?, w.toNat?, n.toNat? with
    | some ts, some eol, some w, some n =>
      -- the bytes `C02_find_xref_written` speaks about, whether the file ends with them after an EOL
      -- byte (its hypotheses), and what the model's `find_xref` returns on the file
      let t := renderTail ts eol w n
      let k := st.data.length - t.length
      let fits := decide (t.length < st.data.length) && st.data.drop k == t &&
        (match st.data[k - 1]? with | some e => isEol e | none => false) && decide (0 < w) && decide (n < 10 ^ w)
      (st, s!"{hexOrDash t} {fits}")
    | _, _, _, _ => (st, "bad-op")
  | ["q.encrows", w, rows] =>
    match csvNat w, (if rows == "-" then some [] else (rows.splitOn ",").mapM parseRow) with
    | some [w1, w2, w3], some rows => (st, hexOrDash (encodeRows w1 w2 w3 rows))
    | _, _ => (st, "bad-op")
  | ["item", "l", h] =>
    match bytesOfHex h with
    | some b => ({ st with items := st.items ++ [.line b] }, "ok")
    | none => (st, "bad-op")
  | ["item", "o", n, g, text] =>
    match n.toNat?, g.toNat?, bytesOfHex text with
    | some n, some g, some text => ({ st with items := st.items ++ [.obj n g text] }, "ok")
    | _, _, _ => (st, "bad-op")
  | ["q.itemsok"] =>
    -- hypothesis of C02_fallback for this file: body = items, rest = tail starting with the trailer line
    let ends := st.ends.filterMap (fun (p, e) =>
      match lookupNat st.objs p with
      | some (_, _, v) => some (p, e, v)
      | none => none)
    let body := itemsBytes st.items
    let tail := st.data.drop body.length
    let okBytes := st.data.take body.length == body
    let okTail := match takeLine tail with
      | some (l, _) => startsWith l kwTrailer
      | none => false
    let spec := scanSpec 0 st.items []
    let agree := match fallbackLoad st.data ends with
      | .ok (offs, tp) => offs == spec && tp == some body.length
      | .error _ => false
    (st, s!"{itemsOKb ends 0 st.items tail} {okBytes} {okTail} {agree}")
  | ["q.fallback"] =>
    let ends := st.ends.filterMap (fun (p, e) =>
      match lookupNat st.objs p with
      | some (_, _, v) => some (p, e, v)
      | none => none)
    (st, match fallbackLoad st.data ends with
      | .ok (offs, tp) => s!"ok {match tp with | some t => toString t | none => "-"} {showOffs offs}"
      | .error e => "E " ++ showErr e)
  | _ => (st, "bad-op")

partial def loop (h : IO.FS.Stream) (out : IO.FS.Stream) (st : St) : IO Unit := do
  let line ← h.getLine
  if line.isEmpty then return ()
  let (st', r) := step st (line.trimAscii.toString)
  out.putStrLn r
  loop h out st'

def main : IO Unit := do
  loop (← IO.getStdin) (← IO.getStdout) {}
