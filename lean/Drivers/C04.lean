/- Line-protocol driver for C04 (page tree walk, page attributes, selection, page CTM).

  new                          start a new document                         -> ok
  obj <n> <object>             add indirect object n                        -> ok
  catalog << ... >>            the catalog dictionary                       -> ok
  pages <sel> <maxpages>       model: get_pages                             -> page;page;...[;E:Err] | -
  spec.pages                   specification on the unfolded tree           -> same form | outside-domain
  spec.select <sel> <maxpages> specSelect on the model's page list          -> same form
  pagespy <pagenos> <maxpages> model: get_pages with Python-level arguments (pagenos none | - | ints with
                               duplicates/negatives, maxpages any integer)  -> page;page;...[;E:Err] | -
  spec.selectpy <pagenos> <maxpages> specSelectPy on the model's page list  -> same form | outside-domain
  spec.order                   specOrder (first arrivals over all simple Kids paths) -> ids | - | outside-domain
  render <rot> <box4> <tx> <ty>      model: LTPage.bbox + glyph matrix      -> 10 rationals
  spec.render <rot> <box4> <tx> <ty> specification of the same              -> 10 rationals | outside-domain
  xmlbox <rot> <rotation> <box4>     model: LTPage.bbox under extract_text_to_fp(rotation=) -> 4 rationals
  rotate <r>                   norm_rotate                                  -> integer

  object syntax:  atoms i:<int> r:<p/q> n:<name> R:<n> null ; arrays [ v v ] ; direct dictionaries { k v k v }
                  (values nest to any depth) ; dictionary objects << k v k v >>
-/
import PdfVerif.Spec.PageTree

open PdfVerif PdfVerif.PageTree PdfVerif.Gen.PageTree

def parseAtom (s : String) : Option Atom :=
  if s == "null" then some .null
  else if s.startsWith "i:" then Atom.int <$> (s.drop 2).toString.toInt?
  else if s.startsWith "r:" then Atom.real <$> ratOfString (s.drop 2).toString
  else if s.startsWith "n:" then some (.name (s.drop 2).toString)
  else if s.startsWith "R:" then Atom.ref <$> (s.drop 2).toString.toNat?
  else none

mutual
  /-- Entries of a direct dictionary up to `}`. -/
  partial def parseFlat : List String → List (String × Val) → Option (List (String × Val) × List String)
    | "}" :: rest, acc => some (acc.reverse, rest)
    | k :: rest, acc => match parseVal rest with
      | some (v, rest') => parseFlat rest' ((k, v) :: acc)
      | none => none
    | _, _ => none

  /-- Elements of an array up to `]`. -/
  partial def parseElems : List String → List Elem → Option (List Elem × List String)
    | "]" :: rest, acc => some (acc.reverse, rest)
    | [], _ => none
    | ts, acc => match parseVal ts with
      | some (v, rest') => parseElems rest' (v :: acc)
      | none => none

  /-- One value: atom, `[ … ]`, `{ k v … }` (nested to any depth). -/
  partial def parseVal : List String → Option (Val × List String)
    | "[" :: rest => (fun r => (Val.arr r.1, r.2)) <$> parseElems rest []
    | "{" :: rest => (fun r => (Val.dict r.1, r.2)) <$> parseFlat rest []
    | t :: rest => (fun a => (Val.atom a, rest)) <$> parseAtom t
    | [] => none
end

partial def parseDict : List String → Dict → Option (Dict × List String)
  | ">>" :: rest, acc => some (acc.reverse, rest)
  | k :: rest, acc => match parseVal rest with
    | some (v, rest') => parseDict rest' ((k, v) :: acc)
    | none => none
  | [], _ => none

def parseObj : List String → Option Obj
  | "<<" :: rest => match parseDict rest [] with
    | some (d, []) => some (.node d)
    | _ => none
  | ts => match parseVal ts with
    | some (v, []) => some (.val v)
    | _ => none

structure St where
  objs : List (Nat × Obj) := []
  catalog : Dict := []

def St.store (st : St) : Store := st.objs

def St.ids (st : St) : List Nat := (st.objs.map (·.1)).mergeSort (fun a b => a ≤ b)

def St.fuel (st : St) : Nat := st.objs.length + 1

def showBox (r : Rect) : String :=
  let (a, b, c, d) := r
  " ".intercalate ([a, b, c, d].map ratToString)

def showPage (p : Page) : String :=
  (match p.id with | some i => toString i | none => "None") ++
  s!" {p.rotate} {showBox p.mediabox} {showBox p.cropbox} " ++
    (match p.marker with | some m => toString m | none => "-")

def showPages (r : List Page × Option Err) : String :=
  let parts := r.1.map showPage ++ (match r.2 with | some e => ["E:" ++ e.toString] | none => [])
  if parts.isEmpty then "-" else ";".intercalate parts

def parseSel (s : String) : Option (List Nat) :=
  if s == "none" || s == "-" then some [] else (s.splitOn ",").mapM (fun (w : String) => w.toNat?)

def parsePagenos (s : String) : Option (Option (List Int)) :=
  if s == "none" then some none
  else if s == "-" then some (some [])
  else some <$> (s.splitOn ",").mapM (fun (w : String) => w.toInt?)

def showRender (r : Rect × Matrix) : String :=
  let (a, b, c, d, e, f) := r.2
  showBox r.1 ++ " " ++ " ".intercalate ([a, b, c, d, e, f].map ratToString)

def step (st : St) (line : String) : St × String :=
  match words line with
  | ["new"] => ({}, "ok")
  | "obj" :: n :: rest =>
    match n.toNat?, parseObj rest with
    | some n, some o => ({ st with objs := st.objs ++ [(n, o)] }, "ok")
    | _, _ => (st, "bad-op")
  | "catalog" :: rest =>
    match parseObj rest with
    | some (.node d) => ({ st with catalog := d }, "ok")
    | _ => (st, "bad-op")
  | ["pages", sel, mp] =>
    match parseSel sel, mp.toNat? with
    | some sel, some mp =>
      (st, showPages (getPagesErr sel mp (createPages st.store st.ids st.fuel st.catalog)))
    | _, _ => (st, "bad-op")
  | ["spec.pages"] =>
    match docTree st.store st.fuel st.catalog with
    | some t => (st, showPages (specPages st.store t))
    | none => (st, "outside-domain")
  | ["pagespy", pn, mp] =>
    match parsePagenos pn, mp.toInt? with
    | some pn, some mp =>
      let r := createPages st.store st.ids st.fuel st.catalog
      (st, showPages (getPagesPy pn mp 0 r.1 r.2))
    | _, _ => (st, "bad-op")
  | ["spec.selectpy", pn, mp] =>
    match parsePagenos pn, mp.toInt? with
    | some pn, some mp =>
      let r := createPages st.store st.ids st.fuel st.catalog
      (st, if r.2.isSome || mp < 0 then "outside-domain" else showPages (specSelectPy pn mp r.1, none))
    | _, _ => (st, "bad-op")
  | ["spec.order"] =>
    match dget st.catalog "Pages" with
    | some (.atom (.ref r)) =>
      let w := treeWalk st.store st.fuel st.catalog
      if w.err.isSome || w.pages.isEmpty then (st, "outside-domain")   -- exception / fallback scan
      else
        let ids := specOrder st.store r
        (st, if ids.isEmpty then "-" else " ".intercalate (ids.map toString))
    | _ => (st, "outside-domain")
  | ["spec.select", sel, mp] =>
    match parseSel sel, mp.toNat? with
    | some sel, some mp =>
      let r := createPages st.store st.ids st.fuel st.catalog
      (st, if r.2.isSome then "outside-domain" else showPages (specSelect sel mp 0 r.1, none))
    | _, _ => (st, "bad-op")
  | ["render", rot, x0, y0, x1, y1, tx, ty] =>
    match rot.toInt?, [x0, y0, x1, y1, tx, ty].mapM ratOfString with
    | some rot, some [x0, y0, x1, y1, tx, ty] => (st, showRender (render rot (x0, y0, x1, y1) (tx, ty)))
    | _, _ => (st, "bad-op")
  | ["spec.render", rot, x0, y0, x1, y1, tx, ty] =>
    match rot.toInt?, [x0, y0, x1, y1, tx, ty].mapM ratOfString with
    | some rot, some [x0, y0, x1, y1, tx, ty] =>
      if (rot == 0 || rot == 90 || rot == 180 || rot == 270) && x0 ≤ x1 && y0 ≤ y1 then
        (st, showRender (specRender rot (x0, y0, x1, y1) (tx, ty)))
      else (st, "outside-domain")
    | _, _ => (st, "bad-op")
  | ["xmlbox", rot, rotation, x0, y0, x1, y1] =>
    match rot.toInt?, rotation.toInt?, [x0, y0, x1, y1].mapM ratOfString with
    | some rot, some rotation, some [x0, y0, x1, y1] => (st, showBox (rotatedBox rot rotation (x0, y0, x1, y1)))
    | _, _, _ => (st, "bad-op")
  | ["rotate", r] =>
    match r.toInt? with
    | some r => (st, toString (norm_rotate r))
    | none => (st, "bad-op")
  | _ => (st, "bad-op")

partial def loop (h : IO.FS.Stream) (out : IO.FS.Stream) (st : St) : IO Unit := do
  let line ← h.getLine
  if line.isEmpty then return ()
  let (st', r) := step st (line.trimAscii.toString)
  out.putStrLn r
  loop h out st'

def main : IO Unit := do
  loop (← IO.getStdin) (← IO.getStdout) {}
