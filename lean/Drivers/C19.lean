/- Line-protocol driver for C19 (CCITT G4 model, T.6 encoder specification). -/
import PdfVerif.Model.Ccitt
import PdfVerif.Model.CcittStream
import PdfVerif.Spec.T6
import PdfVerif.Lemmas.CcittSpecTables
import PdfVerif.Model.CcittColumns

open PdfVerif PdfVerif.Ccitt

def serMode : Mode → String
  | .v d => "i" ++ toString d
  | .h => "sh"
  | .p => "sp"
  | .u => "su"
  | .x n => "sx" ++ toString n
  | .e => "se"

def serBits (bs : List Bool) : String := String.ofList (bs.map fun b => if b then '1' else '0')

def serSym : Sym → String
  | .mode m => serMode m
  | .run n => "i" ++ toString n
  | .unc u => "s" ++ (if u.term then "T" else "") ++ serBits u.bits

def serTrie : Trie → String
  | .empty => "."
  | .leaf s => serSym s
  | .node l r => "(" ++ serTrie l ++ " " ++ serTrie r ++ ")"

def parseRow (s : String) : List Bool := s.toList.map (· == '1')

def parseRows (s : String) : List (List Bool) :=
  if s == "-" then [] else (s.splitOn ",").map parseRow

def parseChoice (c : Char) : Spec.T6.Choice :=
  if c == 'p' then .pass else if c == 'v' then .vert else if c == 'h' then .horiz else .std

def parseChoices (s : String) : List (List Spec.T6.Choice) :=
  if s == "-" then [] else (s.splitOn ",").map fun r => if r == "-" then [] else r.toList.map parseChoice

def showRes : Except Err (List UInt8) → String
  | .ok bs => "ok:" ++ hexOrDash bs
  | .error .invalidData => "EXC:InvalidData"
  | .error .valueError => "EXC:PDFValueError"
  | .error .notImplemented => "EXC:PDFNotImplementedError"
  | .error .unmodelled => "unmodelled"

def optInt (s : String) : Option (Option Int) :=
  if s == "n" then some none else (fun i => some i) <$> s.toInt?

def optBool (s : String) : Option Bool := if s == "n" then none else some (s == "1")

/-- Objects of the `sdec` op: `null true false i:<int> n:<name> o [ … ] << k:<key> <obj> … >>`. -/
partial def parseObj : List String → Option (PObj × List String)
  | "null" :: r => some (.null, r)
  | "true" :: r => some (.bool true, r)
  | "false" :: r => some (.bool false, r)
  | "o" :: r => some (.other, r)
  | "[" :: r =>
    let rec items (acc : List PObj) : List String → Option (PObj × List String)
      | "]" :: r => some (.arr acc.reverse, r)
      | ts => match parseObj ts with
        | some (o, r) => items (o :: acc) r
        | none => none
    items [] r
  | "<<" :: r =>
    let rec entries (acc : List (String × PObj)) : List String → Option (PObj × List String)
      | ">>" :: r => some (.dict acc.reverse, r)
      | k :: ts =>
        if k.startsWith "k:" then
          match parseObj ts with
          | some (o, r) => entries ((k.drop 2 |>.toString, o) :: acc) r
          | none => none
        else none
      | [] => none
    entries [] r
  | t :: r =>
    if t.startsWith "i:" then (fun i => (PObj.int i, r)) <$> (t.drop 2).toString.toInt?
    else if t.startsWith "n:" then some (.name (t.drop 2).toString, r)
    else none
  | [] => none

/-- Filters other than CCITTFaxDecode that the harness puts in front of it (glue of this driver,
not part of the model): ASCIIHexDecode of plain hex digits ending in `>`, and the pass-through ones. -/
def otherFilter (n : String) (data : List UInt8) : Except Err (List UInt8) :=
  if n == "ASCIIHexDecode" || n == "AHx" then
    let cs := (data.map fun b => Char.ofNat b.toNat).takeWhile (· != '>')
    match bytesOfHexChars cs with
    | some bs => .ok bs
    | none => .error .unmodelled
  else if n == "DCTDecode" || n == "DCT" || n == "JBIG2Decode" || n == "JPXDecode" then .ok data
  else .error .unmodelled

def step (line : String) : String :=
  match words line with
  | ["trie", name] =>
    if name == "MODE" then serTrie modeTrie
    else if name == "WHITE" then serTrie whiteTrie
    else if name == "BLACK" then serTrie blackTrie
    else if name == "UNCOMPRESSED" then serTrie uncTrie
    else "bad-op"
  | ["rt", w, align, eofb, rev, omitDefaults, rows, chs] =>
    match w.toNat? with
    | some w =>
      let rows := parseRows rows
      let align := align == "1"
      let rev := rev == "1"
      let enc := Spec.T6.encodeImage w rows (parseChoices chs) align (eofb == "1")
      let om := omitDefaults == "1"
      -- `omit`: keys holding the ISO 32000 default value are absent from the dictionary
      let p : Params := { K := some (-1),
                          columns := if om && w == 1728 then none else some (w : Int),
                          encodedByteAlign := if om && !align then none else some align,
                          blackIs1 := if om && !rev then none else some rev }
      let dec := ccittfaxdecodeParams p enc
      hexOrDash enc ++ " " ++ showRes dec ++ " " ++ hexOrDash (Spec.T6.packImage rev rows)
    | none => "bad-op"
  | "sdec" :: hex :: toks =>
    match bytesOfHex hex, parseObj toks with
    | some data, some (.dict attrs, []) => showRes (streamDecode otherFilter attrs data)
    | _, _ => "bad-op"
  | ["run", c, n] =>
    -- the specification's run-length code (round 6: `spec_encodeRun_shape`)
    match n.toNat? with
    | some n => serBits (Spec.T6.encodeRun (c == "1") n)
    | none => "bad-op"
  | ["ext", n] =>
    -- the extension code word `x<n>` of the regenerated MODE table (`extension_codes_rejected`)
    match n.toNat? with
    | some n => let c := extCode n; if c.isEmpty then "-" else serBits c
    | none => "bad-op"
  | "cols" :: strict :: align :: rev :: hex :: toks =>
    -- round 6d: invalid Columns, direct call and PDFStream.get_data (`columns_invalid_rejected`)
    match bytesOfHex hex, parseObj toks with
    | some data, some (v, []) =>
      let d := match decodeInvalidColumns v (align == "1") (rev == "1") data with
        | .ok bs => "ok:" ++ hexOrDash bs
        | .error .unmodelled => "unmodelled"
        | .error e => "EXC:" ++ e.pyName
      let s := match streamInvalidColumns (strict == "1") v (align == "1") (rev == "1") data with
        | .data bs => "ok:" ++ hexOrDash bs
        | .pdfException n => "EXC:" ++ n
        | .leak n => "LEAK:" ++ n
      d ++ " " ++ s
    | _, _ => "bad-op"
  | ["spectab"] =>
    -- the quantities of `spec_tables_T4`, evaluated on the frozen tables
    let keysOk := decide (Spec.T6.white.map (·.1) = runKeys) && decide (Spec.T6.black.map (·.1) = runKeys)
    toString (kraft 13 (Spec.T6.white.map (·.2))) ++ " " ++ toString (kraft 13 (Spec.T6.black.map (·.2))) ++ " "
      ++ toString (kraft 7 specModeCodes) ++ " " ++ toString runKeys.length ++ " " ++ toString runKeys.sum ++ " "
      ++ (if keysOk then "keys-ok" else "keys-differ") ++ " "
      ++ (if prefixFree (Spec.T6.white.map (·.2)) && prefixFree (Spec.T6.black.map (·.2)) && prefixFree specModeCodes
          then "prefix-free" else "not-prefix-free") ++ " "
      ++ " ".intercalate (specModeCodes.map serBits)
  | ["dec", k, cols, align, rev, hex] =>
    match optInt k, optInt cols, bytesOfHex hex with
    | some k, some cols, some data =>
      showRes (ccittfaxdecodeParams ⟨k, cols, optBool align, optBool rev⟩ data)
    | _, _, _ => "bad-op"
  | _ => "bad-op"

partial def loop (h : IO.FS.Stream) (out : IO.FS.Stream) : IO Unit := do
  let line ← h.getLine
  if line.isEmpty then return ()
  out.putStrLn (step (line.trimAscii.toString))
  loop h out

def main : IO Unit := do
  loop (← IO.getStdin) (← IO.getStdout)
