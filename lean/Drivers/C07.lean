/- Line-protocol driver for C07 (composite fonts).  Model ops answer what the code does, spec ops
what the property demands; see tools/harness/props/c07.py for the wire formats. -/
import PdfVerif.Spec.CIDFont
import PdfVerif.Model.TrueTypeCmap
import PdfVerif.Model.CMapLex

open PdfVerif PdfVerif.CIDFont PdfVerif.CIDFontSpec

def hexBytes (s : String) : Option Bytes := bytesOfHexChars s.toList

def showCids (cs : List Nat) : String :=
  "C " ++ (if cs.isEmpty then "-" else " ".intercalate (cs.map toString))

def hexNat (n : Nat) : String := String.ofList (Nat.toDigits 16 n)

/-- canonical form of a dictionary kept as an association list (most recent first):
stable sort by key, keep the first binding of each key. -/
def dedupSorted {α β : Type} [BEq α] : List (α × β) → List (α × β)
  | a :: b :: rest => if a.1 == b.1 then dedupSorted (a :: rest) else a :: dedupSorted (b :: rest)
  | l => l
termination_by l => l.length

def canonInt {β : Type} (m : List (Int × β)) : List (Int × β) :=
  dedupSorted (m.mergeSort (fun a b => a.1 ≤ b.1))

def canonRat {β : Type} (m : List (Rat × β)) : List (Rat × β) :=
  dedupSorted (m.mergeSort (fun a b => a.1 ≤ b.1))

def showUMap (m : UMap) : String :=
  let c := canonInt m
  if c.isEmpty then "M -"
  else "M " ++ ",".intercalate (c.map (fun e => toString e.1 ++ "=" ++ ".".intercalate (e.2.map hexNat)))

def showWVal : WVal → String
  | .num v => ratToString v
  | .other => "o"

def showWMap (m : WMap) : String :=
  let c := canonRat m
  if c.isEmpty then "W -"
  else "W " ++ ",".intercalate (c.map (fun e => ratToString e.1 ++ "=" ++ showWVal e.2))

def showW2Map (m : W2Map) : String :=
  let c := canonRat m
  if c.isEmpty then "W -"
  else "W " ++ ",".intercalate (c.map (fun e =>
    ratToString e.1 ++ "=" ++ showWVal e.2.1 ++ "|" ++ showWVal e.2.2.1 ++ "|" ++ showWVal e.2.2.2))

/-! parsing of request words -/

def parseAElem (w : String) : Option AElem :=
  if w == "o" then some .other
  else if w.startsWith "s" then (hexBytes (w.drop 1).toString).map AElem.str
  else if w.startsWith "i" then ((w.drop 1).toString.toInt?).map AElem.int
  else none

def parseTok (w : String) : Option Tok :=
  if w == "o" then some .other
  else if w.startsWith "s:" then (hexBytes (w.drop 2).toString).map Tok.str
  else if w.startsWith "i:" then ((w.drop 2).toString.toInt?).map Tok.int
  else if w.startsWith "n:" then (hexBytes (w.drop 2).toString).map Tok.name
  else if w.startsWith "k:" then some (.kw (w.drop 2).toString)
  else if w.startsWith "a:" then
    let body := (w.drop 2).toString
    if body.isEmpty then some (.arr []) else ((body.splitOn ",").mapM parseAElem).map Tok.arr
  else none

def showAElem : AElem → String
  | .str b => "s" ++ hexOfBytes b
  | .int n => "i" ++ toString n
  | .other => "o"

def showTok : Tok → String
  | .str b => "s:" ++ hexOfBytes b
  | .int n => "i:" ++ toString n
  | .name b => "n:" ++ hexOfBytes b
  | .arr xs => "a:" ++ ",".intercalate (xs.map showAElem)
  | .other => "o"
  | .kw k => "k:" ++ k

def parseDst (w : String) : Option Dst :=
  if w.startsWith "[" then
    let inner := ((w.drop 1).toString.dropEnd 1).toString
    if inner.isEmpty then some (.arr []) else ((inner.splitOn ",").mapM bytesOfHex).map Dst.arr
  else (hexBytes w).map Dst.inc

def parseSec (w : String) : Option Sec :=
  let body := (w.drop 2).toString
  let parts := if body.isEmpty then [] else body.splitOn ";"
  if w.startsWith "C:" then
    (parts.mapM (fun (p : String) => match p.splitOn ":" with
      | [s, d] => match hexBytes s, hexBytes d with
        | some s, some d => some (s, d)
        | _, _ => none
      | _ => none)).map Sec.chars
  else if w.startsWith "R:" then
    (parts.mapM (fun (p : String) => match p.splitOn ":" with
      | [lo, hi, d] => match hexBytes lo, hexBytes hi, parseDst d with
        | some lo, some hi, some d => some ({ lo := lo, hi := hi, dst := d } : REntry)
        | _, _, _ => none
      | _ => none)).map Sec.ranges
  else none

def parseNum (w : String) : Option (Rat × Bool) :=
  if w.startsWith "i" then ((w.drop 1).toString.toInt?).map (fun n => ((n : Rat), true))
  else if w.startsWith "f" then (ratOfString (w.drop 1).toString).map (fun q => (q, false))
  else none

def parseWVal (w : String) : Option WVal :=
  if w == "o" then some .other else (parseNum w).map (fun n => WVal.num n.1)

def parseWElem (w : String) : Option WElem :=
  if w == "o" then some .other
  else if w.startsWith "l:" then
    let body := (w.drop 2).toString
    if body.isEmpty then some (.list []) else ((body.splitOn ";").mapM parseWVal).map WElem.list
  else (parseNum w).map (fun n => WElem.num n.1 n.2)

def parseWElems (ws : List String) : Option (List WElem) :=
  if ws == ["-"] then some [] else ws.mapM parseWElem

def showNum (v : Rat) (isInt : Bool) : String :=
  if isInt then "i" ++ toString v.num else "f" ++ ratToString v

def showWElem : WElem → String
  | .num v i => showNum v i
  | .list xs => "l:" ++ ";".intercalate (xs.map (fun x => match x with
      | .num v => showNum v (v.den == 1)
      | .other => "o"))
  | .other => "o"

def parseWEntry (w : String) : Option WEntry :=
  match w.splitOn ":" with
  | ["L", c, ws] =>
    match c.toNat?, (if ws.isEmpty then some [] else (ws.splitOn ",").mapM parseNum) with
    | some c, some ws => some (.list c ws)
    | _, _ => none
  | ["R", c1, c2, v] =>
    match c1.toInt?, c2.toInt?, parseNum v with
    | some c1, some c2, some v => some (.range c1 c2 v)
    | _, _, _ => none
  | _ => none

def parseTriple (w : String) : Option ((Rat × Bool) × (Rat × Bool) × (Rat × Bool)) :=
  match (w.splitOn "|").mapM parseNum with
  | some [a, b, c] => some (a, b, c)
  | _ => none

def parseW2Entry (w : String) : Option W2Entry :=
  match w.splitOn ":" with
  | ["L", c, ws] =>
    match c.toNat?, (if ws.isEmpty then some [] else (ws.splitOn ",").mapM parseTriple) with
    | some c, some ws => some (.list c ws)
    | _, _ => none
  | ["R", c1, c2, v] =>
    match c1.toInt?, c2.toInt?, parseTriple v with
    | some c1, some c2, some v => some (.range c1 c2 v)
    | _, _, _ => none
  | _ => none

def parseEntries {α : Type} (f : String → Option α) (ws : List String) : Option (List α) :=
  if ws == ["-"] then some [] else ws.mapM f

structure DState where
  trie : TDict
  table : CodeTable

def showErr (e : Err) : String := "E " ++ e.name

def step (st : DState) (line : String) : DState × String :=
  match words line with
  | ["id2", h] => (st, match bytesOfHex h with | some b => showCids (identityDecode b) | none => "bad-op")
  | ["id1", h] => (st, match bytesOfHex h with | some b => showCids (identityDecodeByte b) | none => "bad-op")
  | ["idspec2", h] => (st, match bytesOfHex h with | some b => showCids (specIdentity 2 b) | none => "bad-op")
  | ["idspec1", h] => (st, match bytesOfHex h with | some b => showCids (specIdentity 1 b) | none => "bad-op")
  | ["cmapname", h] =>
    (st, match hexBytes h with
      | some b => "N " ++ hexOfBytes ((cmapName (String.ofList (b.map (fun c => Char.ofNat c.toNat)))).toList.map
          (fun c => UInt8.ofNat c.toNat))
      | none => "bad-op")
  | ["trie.new"] => ({ trie := [], table := [] }, "ok")
  | ["trie.add", h, cid] =>
    match hexBytes h, cid.toNat? with
    | some code, some cid =>
      match trieInsert st.trie code cid with
      | .ok t => ({ trie := t, table := (code, cid) :: st.table }, "ok")
      | .error e => (st, showErr e)
    | _, _ => (st, "bad-op")
  | ["trie.dec", h] => (st, match bytesOfHex h with | some b => showCids (trieDecode st.trie b) | none => "bad-op")
  | ["trie.seg", h] =>
    (st, match bytesOfHex h with
      | some b => match specSegment st.table b.length b with
        | some cs => showCids cs
        | none => "outside-domain"
      | none => "bad-op")
  | ["utf16", h] =>
    (st, match bytesOfHex h with
      | some b => let cs := utf16Ignore b; "U " ++ (if cs.isEmpty then "-" else ".".intercalate (cs.map hexNat))
      | none => "bad-op")
  | ["tub", h] =>
    (st, match (if h == "-" then some [] else bytesOfHex h) with
      | some data => match parseToUnicodeBytes data with
        | some (.ok m) => showUMap m
        | some (.error e) => showErr e
        | none => "outside"
      | none => "bad-op")
  | "tuni" :: cid :: ws =>
    -- PDFCIDFont.to_unichr(cid) of a font whose ToUnicode stream holds these tokens
    (st, match cid.toNat?, ws.mapM parseTok with
      | some cid, some toks => match parseToUnicode toks with
        | .ok m => (match toUnichr m cid with
          | some u => "U " ++ (if u.isEmpty then "-" else ".".intercalate (u.map (fun c => String.ofList (Nat.toDigits 16 c))))
          | none => "U undefined")
        | .error e => showErr e
      | _, _ => "bad-op")
  | "pen" :: v :: fs :: tc :: tw :: tz :: w :: cids =>
    -- pen after one string of a composite font under the text state (Tc, Tw, Tz); every cid has width w
    (st, match parseNum fs, parseNum tc, parseNum tw, parseNum tz, parseNum w, cids.mapM (·.toNat?) with
      | some fs, some tc, some tw, some tz, some w, some cids =>
        "P " ++ ratToString (penAfter (v == "1") true fs.1 ⟨tc.1, tw.1, tz.1 / 100⟩ (fun _ => w.1) cids 0)
      | _, _, _, _, _, _ => "bad-op")
  | "tu" :: ws =>
    (st, match ws.mapM parseTok with
      | some toks => match parseToUnicode toks with
        | .ok m => showUMap m
        | .error e => showErr e
      | none => "bad-op")
  | "tuspec.toks" :: ws =>
    (st, match ws.mapM parseSec with
      | some secs => "T " ++ " ".intercalate ((render secs).map showTok)
      | none => "bad-op")
  | "tuspec.map" :: ws =>
    (st, match ws.mapM parseSec with
      | some secs => if inDomain secs then showUMap (specMap secs) else "outside-domain"
      | none => "bad-op")
  | "w" :: ws =>
    (st, match parseWElems ws with
      | some es => showWMap (getWidths es)
      | none => "bad-op")
  | "w2" :: ws =>
    (st, match parseWElems ws with
      | some es => match getWidths2 es with
        | .ok m => showW2Map m
        | .error e => showErr e
      | none => "bad-op")
  | "wspec.toks" :: ws =>
    (st, match parseEntries parseWEntry ws with
      | some es => "T " ++ (if es.isEmpty then "-" else " ".intercalate ((renderW es).map showWElem))
      | none => "bad-op")
  | "wspec.map" :: ws =>
    (st, match parseEntries parseWEntry ws with
      | some es => showWMap ((specWidthPairs es).reverse.map (fun e => ((e.1 : Rat), WVal.num e.2)))
      | none => "bad-op")
  | "w2spec.toks" :: ws =>
    (st, match parseEntries parseW2Entry ws with
      | some es => "T " ++ (if es.isEmpty then "-" else " ".intercalate ((renderW2 es).map showWElem))
      | none => "bad-op")
  | "w2spec.map" :: ws =>
    (st, match parseEntries parseW2Entry ws with
      | some es => showW2Map ((specWidth2Pairs es).reverse.map
          (fun e => ((e.1 : Rat), (WVal.num e.2.1, WVal.num e.2.2.1, WVal.num e.2.2.2))))
      | none => "bad-op")
  | ["umapsel2", tu, reg, ord, enc, ttf, vert, shipped] =>
    let str (h : String) : Option String := (bytesOfHex h).map (fun b => String.ofList (b.map (fun c => Char.ofNat c.toNat)))
    let ob (h : String) : Option (Option Bytes) := if h == "-" then some none else (bytesOfHex h).map some
    (st, match (if tu == "s" then some ToUni.stream else if tu == "-" then some ToUni.absent
                else (str ((tu.drop 2).toString)).map ToUni.name), ob reg, ob ord, str enc with
      | some tu, some reg, some ord, some enc =>
        match fontUnicodeMap tu reg ord enc (ttf == "1") (vert == "1") (shipped == "1") with
        | .file => "S file"
        | .identity => "S identity"
        | .ttf => "S ttf"
        | .none => "S none"
        | .collection c v => "S coll:" ++ c ++ ":" ++ (if v then "V" else "H")
      | _, _, _, _ => "bad-op")
  | ["umapsel", tu, ord, coding, enc, ttf, vert, shipped] =>
    let str (h : String) : Option String := (bytesOfHex h).map (fun b => String.ofList (b.map (fun c => Char.ofNat c.toNat)))
    (st, match (if tu == "s" then some ToUni.stream else if tu == "-" then some ToUni.absent
                else (str ((tu.drop 2).toString)).map ToUni.name), str ord, str coding, str enc with
      | some tu, some ord, some coding, some enc =>
        match selectUnicodeMap tu ord coding enc (ttf == "1") (vert == "1") (shipped == "1") with
        | .file => "S file"
        | .identity => "S identity"
        | .ttf => "S ttf"
        | .none => "S none"
        | .collection c v => "S coll:" ++ c ++ ":" ++ (if v then "V" else "H")
      | _, _, _, _ => "bad-op")
  | ["ttf", h] =>
    (st, match bytesOfHex h with
      | some b => match TrueType.createUnicodeMap b with
        | .ok m => showUMap m
        | .error e => "E " ++ e.name
      | none => "bad-op")
  | "gw" :: dw :: cid :: ws =>
    (st, match (if dw == "-" then some none else (parseNum dw).map (fun n => some n.1)), cid.toNat?, parseWElems ws with
      | some dw, some cid, some es => "R " ++ ratToString (glyphWidth (getWidths es) dw cid)
      | _, _, _ => "bad-op")
  | "gwv" :: dw2 :: cid :: ws =>
    (st, match (if dw2 == "-" then some none else
                  match (dw2.splitOn "|").mapM parseNum with
                  | some [a, b] => some (some (a.1, b.1))
                  | _ => none), cid.toNat?, parseWElems ws with
      | some dw2, some cid, some es =>
        match getWidths2 es with
        | .ok m => "R " ++ ratToString (glyphWidthV m dw2 cid)
        | .error e => showErr e
      | _, _, _ => "bad-op")
  | "gdv" :: dw2 :: cid :: ws =>
    (st, match (if dw2 == "-" then some none else
                  match (dw2.splitOn "|").mapM parseNum with
                  | some [a, b] => some (some (a.1, b.1))
                  | _ => none), cid.toNat?, parseWElems ws with
      | some dw2, some cid, some es =>
        match getWidths2 es with
        | .ok m =>
          let d := glyphDispV m dw2 cid
          "D " ++ (match d.1 with | some vx => ratToString vx | none => "None") ++ " " ++ ratToString d.2
        | .error e => showErr e
      | _, _, _ => "bad-op")
  | "cw" :: v :: dw :: dw2 :: cid :: ws =>
    -- PDFCIDFont glue: `cw <0|1> <DW word|-> <DW2 list word|-> <cid> <W elems> | <W2 elems>`
    let w1 := ws.takeWhile (· != "|")
    let w2 := (ws.dropWhile (· != "|")).drop 1
    let dwv : Option (Option WVal) := if dw == "-" then some none else (parseWVal dw).map some
    let dw2v : Option (Option (List WVal)) := if dw2 == "-" then some none else
      match parseWElem dw2 with
      | some (.list xs) => some (some xs)
      | _ => none
    (st, match dwv, dw2v, cid.toNat?, parseWElems w1, parseWElems w2 with
      | some dwv, some dw2v, some cid, some w1, some w2 =>
        let a := match cidCharWidth (v == "1") w1 dwv w2 dw2v cid with
          | .ok r => "R " ++ ratToString r
          | .error e => showErr e
        let b := match cidCharDisp (v == "1") w2 dw2v cid with
          | .ok .zero => "D 0"
          | .ok (.vec vx vy) => "D " ++ (match vx with | some x => ratToString x | none => "None") ++ " " ++ ratToString vy
          | .error e => showErr e
        a ++ " " ++ b
      | _, _, _, _, _ => "bad-op")
  | ["coding", r, o] =>
    (st, match (if r == "-" then some none else (bytesOfHex r).map some), (if o == "-" then some none else (bytesOfHex o).map some) with
      | some r, some o => "K " ++ hexOfBytes (cidCoding r o)
      | _, _ => "bad-op")
  | _ => (st, "bad-op")

partial def loop (h : IO.FS.Stream) (out : IO.FS.Stream) (st : DState) : IO Unit := do
  let line ← h.getLine
  if line.isEmpty then return ()
  let (st', r) := step st (line.trimAscii.toString)
  out.putStrLn r
  loop h out st'

def main : IO Unit := do
  loop (← IO.getStdin) (← IO.getStdout) { trie := [], table := [] }
