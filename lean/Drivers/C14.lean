/- Line-protocol driver for C14 (tokenizer): buffered model, byte automaton, translated tables. -/
import PdfVerif.Model.Lexer
import PdfVerif.Model.LexScan

open PdfVerif PdfVerif.Lexer PdfVerif.Gen.LexTables

def showTable (t : Array Bool) : String :=
  String.ofList ((List.range 256).map (fun i => if t.getD i false then '1' else '0'))

def tableByName : String → Option String
  | "EOL" => some (showTable tEOL)
  | "SPC" => some (showTable tSPC)
  | "NONSPC" => some (showTable tNONSPC)
  | "HEX" => some (showTable tHEX)
  | "END_LITERAL" => some (showTable tEND_LITERAL)
  | "END_HEX_STRING" => some (showTable tEND_HEX_STRING)
  | "END_NUMBER" => some (showTable tEND_NUMBER)
  | "END_KEYWORD" => some (showTable tEND_KEYWORD)
  | "END_STRING" => some (showTable tEND_STRING)
  | "OCT_STRING" => some (showTable tOCT_STRING)
  | "ESC_STRING" => some (" ".intercalate (ESC_STRING.map (fun p => toString p.1 ++ ":" ++ toString p.2)))
  | "BUFSIZ" => some (toString BUFSIZ)
  | _ => none

def answer (line : String) : String :=
  match words line with
  | ["model.lex", b, h] =>
    match b.toNat?, bytesOfHex h with
    | some b, some data =>
      match run b data with
      | some ts => showLine ts
      | none => "fuel-exhausted"
    | _, _ => "bad-op"
  | ["spec.lex", h] =>
    match bytesOfHex h with
    | some data => showLine (specLex data)
    | none => "bad-op"
  | ["mode.after", h] =>
    match bytesOfHex h with
    | some data => (modeAfter data).pyName ++ (if Complete (modeAfter data) then " complete" else " open")
    | none => "bad-op"
  | ["spec.concat", ha, hw, hb] =>
    match bytesOfHex ha, bytesOfHex hw, bytesOfHex hb with
    | some a, some ws, some b =>
      if Complete (modeAfter a) then showLine (concatLex a ws b) else "open"
    | _, _, _ => "bad-op"
  | ["gen.call", m, cur, tpos, paren, oct, hex, pos, buf] =>
    -- one scanner call assembled from the REGENERATED parts (Gen/LexScan.lean) on the buffer `buf`
    match modeOfPyName m, bytesOfHex cur, tpos.toNat?, paren.toInt?, bytesOfHex oct, bytesOfHex hex, pos.toNat?,
          bytesOfHex buf with
    | some m, some cur, some tpos, some paren, some oct, some hex, some pos, some buf =>
      showCall (genCall { mode := m, cur := cur, tpos := tpos, paren := paren, oct := oct, hex := hex } buf pos) pos
    | _, _, _, _, _, _, _, _ => "bad-op"
  | "spec.join" :: hw :: hs =>
    match bytesOfHex hw, hs.mapM bytesOfHex with
    | some ws, some parts => " ".intercalate ((tokValues (specLex (joinWith ws parts))).map Token.show)
    | _, _ => "bad-op"
  | ["table", n] => (tableByName n).getD "bad-op"
  | _ => "bad-op"

partial def loop (h : IO.FS.Stream) (out : IO.FS.Stream) : IO Unit := do
  let line ← h.getLine
  if line.isEmpty then return ()
  out.putStrLn (answer line.trimAscii.toString)
  loop h out

def main : IO Unit := do
  loop (← IO.getStdin) (← IO.getStdout)
