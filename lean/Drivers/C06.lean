/- Line-protocol driver for C06 (glyph names, encodings, ToUnicode, simple fonts). -/
import PdfVerif.Spec.SimpleFontTables
import PdfVerif.Lemmas.Type1Roundtrip
import PdfVerif.Lemmas.Utf8

open PdfVerif PdfVerif.SimpleFont PdfVerif.SimpleFont.Inst

def cpsStr (t : Text) : String :=
  if t.isEmpty then "-" else ",".intercalate (t.map (fun n => String.ofList (Nat.toDigits 16 n)))

/-- `s<hex utf-8>` | `s-` | `b<hex>` -> outer none = malformed; inner none = a name that is not text. -/
def parseNameArg (w : String) : Option (Option Name) :=
  match w.toList with
  | 's' :: h =>
    match bytesOfHex (String.ofList h) with
    | some bs =>
      match String.fromUTF8? ⟨bs.toArray⟩ with
      | some s => some (some s.toList)
      | none => none
    | none => none
  | 'b' :: h =>
    match bytesOfHex (String.ofList h) with
    | some _ => some none
    | none => none
  | _ => none

def parseStrArg (w : String) : Option String :=
  match parseNameArg w with
  | some (some n) => some (String.ofList n)
  | _ => none

def showNameArg (n : Name) : String :=
  "s" ++ hexOrDash (String.ofList n).toUTF8.toList

abbrev P (α : Type) := List String → Option (α × List String)

def pWord : P String
  | [] => none
  | w :: ws => some (w, ws)

def pNat : P Nat := fun ws =>
  match ws with
  | w :: r => match w.toNat? with | some n => some (n, r) | none => none
  | [] => none

def pMany {α : Type} (p : P α) : Nat → P (List α)
  | 0 => fun ws => some ([], ws)
  | n + 1 => fun ws =>
    match p ws with
    | some (a, r) =>
      match pMany p n r with
      | some (as, r') => some (a :: as, r')
      | none => none
    | none => none

def pDiffTok : P DiffTok := fun ws =>
  match ws with
  | w :: r =>
    match w.toList with
    | 'i' :: d => match (String.ofList d).toInt? with | some n => some (.num n, r) | none => none
    | 'n' :: a => match parseNameArg (String.ofList a) with | some nm => some (.name nm, r) | none => none
    | ['x'] => some (.other, r)
    | _ => none
  | [] => none

def pDiff : P (List DiffTok) := fun ws =>
  match pNat ws with
  | some (k, r) => pMany pDiffTok k r
  | none => none

def hexField (s : String) : Option (List UInt8) := bytesOfHex s

def pTuEntry : P TuEntry := fun ws =>
  match ws with
  | w :: r =>
    match w.splitOn ":" with
    | ["c", a, b] =>
      match hexField a, hexField b with
      | some a, some b => some (.bfchar a b, r)
      | _, _ => none
    | ["r", a, b, c] =>
      match hexField a, hexField b, hexField c with
      | some a, some b, some c => some (.bfrange a b c, r)
      | _, _, _ => none
    | ["a", a, b, c] =>
      match hexField a, hexField b, (if c == "." then some [] else (c.splitOn ";").mapM hexField) with
      | some a, some b, some ds => some (.bfrangeArr a b ds, r)
      | _, _, _ => none
    | _ => none
  | [] => none

def pRat : P Rat := fun ws =>
  match ws with
  | w :: r => match ratOfString w with | some q => some (q, r) | none => none
  | [] => none

def pPut : P (Int × Option Name) := fun ws =>
  match ws with
  | w :: r =>
    match w.splitOn ":" with
    | [c, a] =>
      match c.toInt?, parseNameArg a with
      | some c, some nm => some ((c, nm), r)
      | _, _ => none
    | _ => none
  | [] => none

def expect (tag : String) : P Unit := fun ws =>
  match ws with
  | w :: r => if w == tag then some ((), r) else none
  | [] => none

def parseFont (ws : List String) : Option RawFontDict := do
  let (sub, ws) ← pWord ws
  let (bf, ws) ← pWord ws
  let baseFont ← (if bf == "-" then some none else (parseStrArg bf).map some)
  let (_, ws) ← expect "E" ws
  let (ek, ws) ← pWord ws
  let (enc, ws) ← (match ek with
    | "none" => some (EncSpec.absent, ws)
    | "name" => do
      let (n, ws) ← pWord ws
      let n ← parseStrArg n
      some (EncSpec.named n, ws)
    | "dict" => do
      let (b, ws) ← pWord ws
      let base ← (if b == "-" then some none else (parseStrArg b).map some)
      let (d, ws) ← pDiff ws
      some (EncSpec.dict base d, ws)
    | _ => none)
  let (_, ws) ← expect "U" ws
  let (uk, ws) ← pWord ws
  let (tu, ws) ← (if uk == "none" then some (none, ws) else do
    let k ← uk.toNat?
    let (es, ws) ← pMany pTuEntry k ws
    some (some es, ws))
  let (_, ws) ← expect "W" ws
  let (fcw, ws) ← pWord ws
  let fc ← (if fcw == "-" then some none else fcw.toInt?.map some)
  let (wk, ws) ← pWord ws
  let (widths, ws) ← (if wk == "none" then some (none, ws) else do
    let k ← wk.toNat?
    let (xs, ws) ← pMany pRat k ws
    some (some xs, ws))
  let (_, ws) ← expect "D" ws
  let (dk, ws) ← pWord ws
  let (desc, ws) ← (if dk == "0" then some (none, ws) else do
    let (mww, ws) ← pWord ws
    let mw ← (if mww == "-" then some none else (ratOfString mww).map some)
    let (_, ws) ← expect "F" ws
    let (fk, ws) ← pWord ws
    if fk == "none" then some (some { missingWidth := mw, fontFile := none : DescriptorOf RawFontFile }, ws) else do
      let l1 ← (if fk == "-" then some none else fk.toInt?.map some)
      let (hx, ws) ← pWord ws
      let bs ← bytesOfHex hx
      some (some { missingWidth := mw, fontFile := some { data := bs, length1 := l1 } : DescriptorOf RawFontFile }, ws))
  let (_, ws) ← expect "M" ws
  -- the FontMatrix entry as it stands in the file: `none` (absent) | `notlist` | `[` e1 … en `]` with e = rational | `x`;
  -- the model (`type3Matrix`) decides whether it is usable
  let (fm, ws) ← (match ws with
    | ["none"] => some (type3Matrix .absent, ([] : List String))
    | ["notlist"] => some (type3Matrix .notList, ([] : List String))
    | "[" :: rest =>
      match rest.getLast? with
      | some "]" =>
        match (rest.dropLast).mapM (fun w => if w == "x" then some (none : Option Rat) else (ratOfString w).map some) with
        | some xs => some (type3Matrix (.list xs), ([] : List String))
        | none => none
      | _ => none
    | _ => none)
  if !ws.isEmpty then none else
  let isT3 ← simpleClass (if sub == "absent" then none else some sub)   -- `get_font` dispatch (composite: not C06)
  some { isType3 := isT3, baseFont := baseFont, enc := enc, toUnicode := tu, firstChar := fc,
         widths := widths, desc := desc, fontMatrix := fm }


/-! ### `t1write`: spelled Type 1 headers (the writer of theorem `t1_roundtrip`) -/
open PdfVerif.Lexer in
def parseSep (w : String) : Option (List SepItem) :=
  if w == "-" then some [] else
  (w.splitOn ",").mapM (fun it =>
    match it.toList with
    | 'w' :: h => match bytesOfHexChars h with | some [c] => some (SepItem.ws c) | _ => none
    | 'c' :: r =>
      match (String.ofList r).splitOn ":" with
      | [b, e] => match bytesOfHex b, bytesOfHex e with
        | some body, some [eol] => some (SepItem.comment body eol)
        | _, _ => none
      | _ => none
    | _ => none)

open PdfVerif.Lexer in
def parseCodePoints (w : String) : Option (List Char) :=
  if w == "-" then some [] else
  (w.splitOn ",").mapM (fun h =>
    match bytesOfHexChars (if h.length % 2 == 1 then '0' :: h.toList else h.toList) with
    | some bs =>
      let n := bs.foldl (fun acc b => acc * 256 + b.toNat) 0
      if n < 0xD800 || (0xDFFF < n && n < 0x110000) then some (Char.ofNat n) else none
    | none => none)

open PdfVerif.Lexer in
def parseSpelledName (w : String) : Option (List NameItem) :=
  if w == "-" then some [] else
  if w.startsWith "N" then (parseCodePoints (w.drop 1).toString).map spellName else
  (w.splitOn ",").mapM (fun it =>
    match it.toList with
    | 'r' :: h => match bytesOfHexChars h with | some [c] => some (NameItem.raw c) | _ => none
    | 'e' :: h => match bytesOfHexChars h with | some [a, b] => some (NameItem.esc a b) | _ => none
    | _ => none)

def parseSign (w : String) : Option Bytes :=
  if w == "n" then some [] else if w == "p" then some [43] else if w == "m" then some [45] else none

def parseHeaderItem (w : String) : Option HeaderItem :=
  match w.splitOn "|" with
  | ["P", sg, ds, nm, a, b, c, d] => do
    let sign ← parseSign sg
    let name ← parseSpelledName nm
    let g1 ← parseSep a
    let g2 ← parseSep b
    let g3 ← parseSep c
    let g4 ← parseSep d
    some (.put { sign := sign, digits := ds.toUTF8.toList, name := name, g1 := g1, g2 := g2, g3 := g3, g4 := g4 })
  | ["W", hx, g] => do
    let bs ← bytesOfHex hx
    let g ← parseSep g
    match bs with
    | c :: w => some (.word c w g)
    | [] => none
  | ["N", sg, ds, g] => do
    let sign ← parseSign sg
    let g ← parseSep g
    some (.num sign ds.toUTF8.toList g)
  | _ => none

def showPuts (ps : List (Int × Option Name)) : String :=
  if ps.isEmpty then "-" else " ".intercalate (ps.map (fun p => toString p.1 ++ ":" ++
    (match p.2 with | some n => showNameArg n | none => "b")))

def codes256 : List Int := (List.range 256).map Int.ofNat

def showTable (f : Int → Option Text) : String :=
  " ".intercalate (codes256.map (fun c => match f c with | some t => cpsStr t | none => "~"))

def sortedMetrics (m : List (Nat × Int)) : List (Nat × Int) :=
  (m.toArray.qsort (fun a b => a.1 < b.1)).toList

def optNat (o : Option Nat) : String := match o with | some n => toString n | none => "-"

def handle (line : String) : String :=
  match words line with
  | ["n2u", a] =>
    match parseNameArg a with
    | some nm =>
      match name2unicode glyphs nm with
      | some t => "V " ++ cpsStr t
      | none => "E key"
    | none => "bad-op"
  | ["aglx", a] =>
    -- the exact algorithm (AGL + lower-case digits + unknown component => undefined) of `name2unicode_exact`
    match parseNameArg a with
    | some nm =>
      match Spec.pdfminerAgl glyphs nm with
      | some t => "V " ++ cpsStr t
      | none => "N"
    | none => "bad-op"
  | ["agl", a] =>
    match parseNameArg a with
    | some nm =>
      let r := match Spec.aglText glyphs nm with
        | some t => "V " ++ cpsStr t
        | none => "N"
      (if Spec.judgedName glyphs nm then "" else "O ") ++ r
    | none => "bad-op"
  | ["utf16", h] =>
    match bytesOfHex h with
    | some bs => cpsStr (utf16beIgnore bs)
    | none => "bad-op"
  | "enc" :: n :: rest =>
    match parseStrArg n, pDiff rest with
    | some name, some (diff, []) =>
      let t := getEncoding glyphs encDB name diff
      showTable (tlookup t)
    | _, _ => "bad-op"
  | "encspec" :: n :: rest =>
    match parseStrArg n, pDiff rest with
    | some name, some (diff, []) =>
      " ".intercalate (codes256.map (fun c =>
        let judged := match Spec.lastAssigned (Spec.assignments 0 diff) c with
          | some nm => Spec.judgedName glyphs nm
          | none => true
        if !judged then "?" else
        match Spec.encText tables name diff c with
        | some t => cpsStr t
        | none => "~"))
    | _, _ => "bad-op"
  | "font" :: rest =>
    match parseFont rest with
    | some raw =>
      match buildRaw glyphs encDB metrics raw with
      | .ok f =>
        " ".intercalate (codes256.map (fun c => cpsStr (glyphText f c) ++ "|" ++ ratToString (glyphAdv f c)))
      | .error e => "E " ++ e
    | none => "bad-op"
  | "fontspec" :: rest =>
    match parseFont rest with
    | some raw =>
      match resolveFontFile metrics raw with
      | .error _ => "O"
      | .ok fd =>
        " ".intercalate (codes256.map (fun c =>
          -- the FULL specification (every code judged); `!` marks a cell outside the property's AGL domain
          (if Spec.judgedCodeX tables fd c then "" else "!") ++
            cpsStr (Spec.specTextP tables fd c) ++ "|" ++ ratToString (Spec.specWidthP tables fd c)))
    | none => "bad-op"
  | ["utf8enc", w] =>
    match parseCodePoints w with
    | some cs => hexOrDash (utf8Encode cs)
    | none => "bad-op"
  | ["utf8dec", hx] =>
    match bytesOfHex hx with
    | some bs =>
      match utf8Chars bs with
      | some cs => "V " ++ cpsStr (cs.map Char.toNat)
      | none => "E"
    | none => "bad-op"
  | "t1write" :: padw :: itemws =>
    -- the header `writeHeader` writes for a spelling, and the right-hand side of theorem `t1_roundtrip`
    match parseSep padw, itemws.mapM parseHeaderItem with
    | some pad, some items =>
      hexOrDash (writeHeader pad items) ++ " " ++
        showPuts ((itemResults items).map (fun r => (r.1, utf8Chars r.2)))
    | _, _ => "bad-op"
  | ["t1puts", hx] =>
    match bytesOfHex hx with
    | some bs =>
      match t1Puts bs with
      | .ok ps => if ps.isEmpty then "-" else " ".intercalate (ps.map (fun p => toString p.1 ++ ":" ++
          (match p.2 with | some n => showNameArg n | none => "b")))
      | .error e => "E " ++ e
    | none => "bad-op"
  | ["tab.facts"] =>
    -- the table facts the theorems assume (`TablesOK`), evaluated on the regenerated data
    let a := glyphs.all (fun e => !e.2.isEmpty)
    let b := rows.all (fun r => (name2unicode glyphs (some r.1)).isSome)
    let c := rows.all (fun r => Spec.judgedName glyphs (some r.1))
    s!"glyph-values-nonempty={a} rows-resolve={b} rows-judged={c}"
  | ["tab.glyphcount"] => toString glyphs.length
  | ["tab.enccount"] => toString rows.length
  | ["tab.metrics", a] =>
    match parseStrArg a with
    | some n =>
      match getMetrics metrics n with
      | some m =>
        if m.isEmpty then "-" else
        " ".intercalate ((sortedMetrics m).map (fun e => String.ofList (Nat.toDigits 16 e.1) ++ ":" ++ toString e.2))
      | none => "none"
    | none => "bad-op"
  | ["tab.encrow", i] =>
    match i.toNat? with
    | some i =>
      match rows[i]? with
      | some r => showNameArg r.1 ++ " " ++ optNat r.2.1 ++ " " ++ optNat r.2.2.1 ++ " " ++ optNat r.2.2.2.1 ++ " " ++ optNat r.2.2.2.2
      | none => "none"
    | none => "bad-op"
  | ["tab.glyph", a] =>
    match parseNameArg a with
    | some (some n) =>
      match glLookup glyphs n with
      | some t => cpsStr t
      | none => "none"
    | _ => "bad-op"
  | _ => "bad-op"

partial def loop (h : IO.FS.Stream) (out : IO.FS.Stream) : IO Unit := do
  let line ← h.getLine
  if line.isEmpty then return ()
  out.putStrLn (handle (line.trimAscii.toString))
  loop h out

def main : IO Unit := do
  loop (← IO.getStdin) (← IO.getStdout)
