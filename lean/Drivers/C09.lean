/- Line-protocol driver for C09 (same operations as C08).  Shared code: `PdfVerif/Model/LayoutIO.lean`. -/
import PdfVerif.Model.LayoutIO

def main : IO Unit := do
  LayoutIO.loop (← IO.getStdin) (← IO.getStdout)
