/- Line-protocol driver for C10 (RC4, security handlers, decipher placement, Lean twin of the writer).

   prim <kind> <a> <b> <c> <out>     add one primitive value (md5/sha256/sha384/sha512/aesenc/aesdec/saslprep)
   primreset                         forget the table
   rc4 <key> <data>
   open <std> <V> <R> <P> <O> <U> <Length> <cf> <stmf> <strf> <em> <OE> <UE> <id0> <pw>
   getobj <loc> <objid> <genno> <tokens ...>
   select <isMetadata>               decision table of decrypt for the handler of the last `open`
   unpad <data>                      unpad_aes
   kdf.key <R> <length> <p> <O> <id0> <em> <pw>   compute_encryption_key
   kdf.u <R> <id0> <key>             compute_u
   kdf.recover <R> <length> <O> <pw> the user password authenticate_owner_password recovers from O
   kdf.hash <R> <pw> <salt> <vector> _password_hash
   spec.select <v4plus> <em> <isStream> <isMeta> <stmf> <strf>   ISO 7.6.5 decision (twin of c10_keys.table_7_6_5)
   objkey <rc4|aes128> <key> <objid> <genno>    per-object key
   spec.enc <method> <key> <objid> <genno> <iv> <data>
   spec.derive234 <R> <length> <P> <id0> <em> <paddedUser> <paddedOwner> <tail>
   spec.derive56 <R> <key> <up> <op> <uv> <uk> <ov> <ok>
-/
import PdfVerif.Model.Crypt
import PdfVerif.Spec.CryptWriter
import Std.Data.HashMap

open PdfVerif PdfVerif.Crypt PdfVerif.CryptWriter

abbrev Table := Std.HashMap String Bytes

def missMark : Bytes := [77, 73, 83, 83]   -- "MISS": a primitive value the harness did not supply

def look (t : Table) (kind : String) (a b c : Bytes) : Bytes :=
  (t.get? (kind ++ " " ++ hexOrDash a ++ " " ++ hexOrDash b ++ " " ++ hexOrDash c)).getD missMark

def natsOfString (s : String) : Option (List Nat) :=
  if s == "-" then some [] else (s.splitOn ",").mapM String.toNat?

def natsToBytesBE (ns : List Nat) : Bytes :=
  ns.flatMap (fun n => [UInt8.ofNat (n / 65536), UInt8.ofNat (n / 256 % 256), UInt8.ofNat (n % 256)])

def bytesToNatsBE : Bytes → List Nat
  | a :: b :: c :: rest => (a.toNat * 65536 + b.toNat * 256 + c.toNat) :: bytesToNatsBE rest
  | _ => []

def be3 (n : Nat) : Bytes := [UInt8.ofNat (n / 65536), UInt8.ofNat (n / 256 % 256), UInt8.ofNat (n % 256)]

/-- The primitives as table look-ups.  Character classes: `prim cls <cp> - - <bits>` with bits
    1 = c12, 2 = b1, 4 = prohibited, 8 = d1, 16 = d2; NFKC: `prim nfkc <cps> - - <cps>` (code points
    as 3-byte big-endian groups). -/
def tablePrims (t : Table) : Prims where
  md5 := fun b => look t "md5" b [] []
  sha256 := fun b => look t "sha256" b [] []
  sha384 := fun b => look t "sha384" b [] []
  sha512 := fun b => look t "sha512" b [] []
  aesDec := fun k iv d => look t "aesdec" k iv d
  aesEnc := fun k iv d => look t "aesenc" k iv d
  sasl :=
    let bits := fun (c : Nat) => ((look t "cls" (be3 c) [] []).headD 0).toNat
    { c12 := fun c => bits c % 2 == 1
      b1 := fun c => bits c / 2 % 2 == 1
      prohibited := fun c => bits c / 4 % 2 == 1
      d1 := fun c => bits c / 8 % 2 == 1
      d2 := fun c => bits c / 16 % 2 == 1
      nfkc := fun cps => if cps.isEmpty then [] else bytesToNatsBE (look t "nfkc" (natsToBytesBE cps) [] []) }

structure St where
  table : Table := {}
  handler : Option Handler := none

def showObjToks : Obj → List String
  | .str b => ["s:" ++ hexOrDash b]
  | .atom a => ["x:" ++ hexOrDash a]
  | .arr xs => ("a:" ++ toString xs.length) :: showList xs
  | .dict kvs => ("d:" ++ toString kvs.length) :: showKVs kvs
  | .stream attrs raw => ("t:" ++ hexOrDash raw) :: ("d:" ++ toString attrs.length) :: showKVs attrs
where
  showList : List Obj → List String
    | [] => []
    | x :: xs => showObjToks x ++ showList xs
  showKVs : List (Bytes × Obj) → List String
    | [] => []
    | (k, v) :: rest => ("k:" ++ hexOrDash k) :: (showObjToks v ++ showKVs rest)

def tag (s : String) : String × String :=
  ((s.take 2).toString, (s.drop 2).toString)

mutual
partial def parseObj : List String → Option (Obj × List String)
  | [] => none
  | tok :: rest =>
    let (t, v) := tag tok
    if t == "s:" then (bytesOfHex v).map (fun b => (Obj.str b, rest))
    else if t == "x:" then (bytesOfHex v).map (fun b => (Obj.atom b, rest))
    else if t == "a:" then
      match v.toNat? with
      | some n => (parseN n rest).map (fun (xs, r) => (Obj.arr xs, r))
      | none => none
    else if t == "d:" then
      match v.toNat? with
      | some n => (parseKV n rest).map (fun (kvs, r) => (Obj.dict kvs, r))
      | none => none
    else if t == "t:" then
      match bytesOfHex v, rest with
      | some raw, d :: rest' =>
        let (t2, v2) := tag d
        if t2 == "d:" then
          match v2.toNat? with
          | some n => (parseKV n rest').map (fun (kvs, r) => (Obj.stream kvs raw, r))
          | none => none
        else none
      | _, _ => none
    else none
partial def parseN : Nat → List String → Option (List Obj × List String)
  | 0, toks => some ([], toks)
  | n + 1, toks =>
    match parseObj toks with
    | some (x, r) => (parseN n r).map (fun (xs, r') => (x :: xs, r'))
    | none => none
partial def parseKV : Nat → List String → Option (List (Bytes × Obj) × List String)
  | 0, toks => some ([], toks)
  | n + 1, tok :: toks =>
    let (t, v) := tag tok
    if t == "k:" then
      match bytesOfHex v, parseObj toks with
      | some k, some (x, r) => (parseKV n r).map (fun (kvs, r') => ((k, x) :: kvs, r'))
      | _, _ => none
    else none
  | _ + 1, [] => none
end

def parseCf (s : String) : Option (List (Bytes × Bytes)) :=
  if s == "-" then some [] else
  (s.splitOn ",").mapM (fun kv =>
    match kv.splitOn "=" with
    | [k, v] => match bytesOfHex k, bytesOfHex v with
      | some k, some v => some (k, v)
      | _, _ => none
    | _ => none)

def bit (b : Bool) : String := if b then "1" else "0"

def parseMethod (s : String) : Option Method :=
  if s == "rc4" then some .rc4 else if s == "aes128" then some .aes128
  else if s == "aes256" then some .aes256 else if s == "identity" then some .identity else none

def parseLoc (s : String) : Option Loc :=
  if s == "direct" then some .direct else if s == "objstm" then some .objstm
  else if s == "encrypt" then some .encryptDict else if s == "trailer" then some .trailer else none

def step (st : St) (line : String) : St × String :=
  match words line with
  | ["prim", kind, a, b, c, out] =>
    match bytesOfHex out with
    | some o => ({ st with table := st.table.insert (kind ++ " " ++ a ++ " " ++ b ++ " " ++ c) o }, "ok")
    | none => (st, "bad-op")
  | ["primreset"] => ({ st with table := {} }, "ok")
  | ["rc4", k, d] =>
    match bytesOfHex k, bytesOfHex d with
    | some k, some d =>
      match rc4 k d with
      | .ok r => (st, hexOrDash r)
      | .error e => (st, "E " ++ e.toString)
    | _, _ => (st, "bad-op")
  | ["open", std, v, r, p, o, u, len, cf, stmf, strf, em, oe, ue, id0, pw] =>
    match v.toInt?, r.toInt?, p.toInt?, bytesOfHex o, bytesOfHex u, len.toNat?, parseCf cf with
    | some v, some r, some p, some o, some u, some len, some cf =>
      match bytesOfHex stmf, bytesOfHex strf, bytesOfHex oe, bytesOfHex ue, bytesOfHex id0, natsOfString pw with
      | some stmf, some strf, some oe, some ue, some id0, some pw =>
        let prm : Params := { filterStandard := std == "1", v := v, r := r, p := p, o := o, u := u,
                              length := len, cf := cf, stmf := stmf, strf := strf,
                              encryptMetadata := em == "1", oe := oe, ue := ue, docid0 := id0 }
        match openHandler (tablePrims st.table) prm pw with
        | .ok h =>
          ({ st with handler := some h },
           "K " ++ hexOrDash h.key ++ " " ++ toString h.cls ++ " " ++ toString h.p ++ " " ++
             bit (isPrintable h) ++ bit (isModifiable h) ++ bit (isExtractable h))
        | .error e => ({ st with handler := none }, "E " ++ e.toString)
      | _, _, _, _, _, _ => (st, "bad-op")
    | _, _, _, _, _, _, _ => (st, "bad-op")
  | "getobj" :: loc :: objid :: genno :: toks =>
    match st.handler, parseLoc loc, objid.toNat?, genno.toNat?, parseObj toks with
    | some h, some loc, some objid, some genno, some (o, []) =>
      (st, " ".intercalate (showObjToks (getobj (tablePrims st.table) h loc objid genno o)))
    | _, _, _, _, _ => (st, "bad-op")
  | ["saslprep", cps] =>
    match natsOfString cps with
    | some cps =>
      match saslprepModel (tablePrims st.table).sasl cps with
      | some r => (st, "S " ++ (if r.isEmpty then "-" else ",".intercalate (r.map toString)))
      | none => (st, "N")
    | none => (st, "bad-op")
  | "trace" :: loc :: objid :: genno :: toks =>
    match st.handler, parseLoc loc, objid.toNat?, genno.toNat?, parseObj toks with
    | some h, some loc, some objid, some genno, some (o, []) =>
      let r := getobjSt (tablePrims st.table) h false {} loc objid genno o
      let show1 : Call → String
        | .str b => "s:" ++ hexOrDash b
        | .payload m raw => (if m then "m:" else "p:") ++ hexOrDash raw
      let showL := fun (cs : List Call) => if cs.isEmpty then "-" else " ".intercalate (cs.map show1)
      -- calls made by getobj | by get_data() | by a second getobj with the cache off
      let p1 := r.2.2.filter Call.isStr
      let p2 := r.2.2.filter (fun c => ! c.isStr)
      let r2 := getobjSt (tablePrims st.table) h false r.2.1 loc objid genno o
      (st, showL p1 ++ " | " ++ showL p2 ++ " | " ++ showL (r2.2.2.filter Call.isStr))
    | _, _, _, _, _ => (st, "bad-op")
  | ["select", im] =>
    match st.handler with
    | some h =>
      (st, match selectMethod h (im == "1") with
           | some m => m.name
           | none => "none")
    | none => (st, "bad-op")
  | ["spec.select", v4, em, isStream, isMeta, stmf, strf] =>
    match parseMethod stmf, parseMethod strf with
    | some a, some b => (st, (specSelect (v4 == "1") (em == "1") (isStream == "1") (isMeta == "1") a b).name)
    | _, _ => (st, "bad-op")
  | ["kdf.key", r, len, p, o, id0, em, pw] =>
    match r.toInt?, len.toNat?, p.toNat?, bytesOfHex o, bytesOfHex id0, bytesOfHex pw with
    | some r, some len, some p, some o, some id0, some pw =>
      let prm : Params := { r := r, o := o, docid0 := id0, encryptMetadata := em == "1" }
      (st, hexOrDash (computeEncryptionKey (tablePrims st.table) prm len p pw))
    | _, _, _, _, _, _ => (st, "bad-op")
  | ["kdf.u", r, id0, key] =>
    match r.toInt?, bytesOfHex id0, bytesOfHex key with
    | some r, some id0, some key =>
      (st, hexOrDash (computeU (tablePrims st.table) { r := r, docid0 := id0 } key))
    | _, _, _ => (st, "bad-op")
  | ["kdf.recover", r, len, o, pw] =>
    match r.toInt?, len.toNat?, bytesOfHex o, bytesOfHex pw with
    | some r, some len, some o, some pw =>
      (st, hexOrDash (recoverUser (tablePrims st.table) { r := r, o := o } len pw))
    | _, _, _, _ => (st, "bad-op")
  | ["kdf.hash", r, pw, salt, vec] =>
    match r.toInt?, bytesOfHex pw, bytesOfHex salt, bytesOfHex vec with
    | some r, some pw, some salt, some vec =>
      (st, hexOrDash (passwordHash (tablePrims st.table) r pw salt vec))
    | _, _, _, _ => (st, "bad-op")
  | ["unpad", d] =>
    match bytesOfHex d with
    | some d => (st, hexOrDash (unpadAes d))
    | none => (st, "bad-op")
  | ["objkey", m, key, objid, genno] =>
    match parseMethod m, bytesOfHex key, objid.toNat?, genno.toNat? with
    | some .rc4, some key, some objid, some genno =>
      (st, hexOrDash (objKeyRc4 (tablePrims st.table) key objid genno))
    | some .aes128, some key, some objid, some genno =>
      (st, hexOrDash (objKeyAes (tablePrims st.table) key objid genno))
    | _, _, _, _ => (st, "bad-op")
  | ["spec.enc", m, key, objid, genno, iv, data] =>
    match parseMethod m, bytesOfHex key, objid.toNat?, genno.toNat?, bytesOfHex iv, bytesOfHex data with
    | some m, some key, some objid, some genno, some iv, some data =>
      (st, hexOrDash (encryptBytes (tablePrims st.table) m key objid genno iv data))
    | _, _, _, _, _, _ => (st, "bad-op")
  | ["spec.derive234", r, len, p, id0, em, pu, po, tail] =>
    match r.toInt?, len.toNat?, p.toInt?, bytesOfHex id0, bytesOfHex pu, bytesOfHex po, bytesOfHex tail with
    | some r, some len, some p, some id0, some pu, some po, some tail =>
      let c : Cfg := { r := r, length := len, p := p, id0 := id0, encryptMetadata := em == "1" }
      let (o, u, key) := derive234 (tablePrims st.table) c pu po tail
      (st, hexOrDash o ++ " " ++ hexOrDash u ++ " " ++ hexOrDash key)
    | _, _, _, _, _, _, _ => (st, "bad-op")
  | ["spec.derive56", r, key, up, op, uv, uk, ov, ok] =>
    match r.toInt?, bytesOfHex key, bytesOfHex up, bytesOfHex op with
    | some r, some key, some up, some op =>
      match bytesOfHex uv, bytesOfHex uk, bytesOfHex ov, bytesOfHex ok with
      | some uv, some uk, some ov, some ok =>
        let (u, ue, o, oe) := derive56 (tablePrims st.table) r key up op { uv := uv, uk := uk, ov := ov, ok := ok }
        (st, hexOrDash u ++ " " ++ hexOrDash ue ++ " " ++ hexOrDash o ++ " " ++ hexOrDash oe)
      | _, _, _, _ => (st, "bad-op")
    | _, _, _, _ => (st, "bad-op")
  | _ => (st, "bad-op")

partial def loop (h : IO.FS.Stream) (out : IO.FS.Stream) (st : St) : IO Unit := do
  let line ← h.getLine
  if line.isEmpty then return ()
  let (st', r) := step st (line.trimAscii.toString)
  out.putStrLn r
  loop h out st'

def main : IO Unit := do
  loop (← IO.getStdin) (← IO.getStdout) {}
