/- Line-protocol driver for C08 / C09 (layout analysis).  Shared code: `PdfVerif/Model/LayoutIO.lean`. -/
import PdfVerif.Model.LayoutIO

def main : IO Unit := do
  LayoutIO.loop (← IO.getStdin) (← IO.getStdout)
